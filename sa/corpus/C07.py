KB = "krige/base.py"
CS = "field/cond_srf.py"
FB = "field/base.py"
CASES = [
    dict(name="revert-set-condition-invalidate", file=KB, expect="R07.1", old="        self.delete_fields()\n\n    def set_drift_functions", new="\n    def set_drift_functions"),
    dict(name="invalidate-before-matrix", file=KB, expect="R07.1",
         old="""        self._krige_mat = self._get_krige_mat()
        # stored fields belong to the old conditions (CondSRF would reuse them)
        self.delete_fields()""",
         new="""        self.delete_fields()
        self._krige_mat = self._get_krige_mat()"""),
    dict(name="condsrf-set-pos-no-krige-delete", file=CS, expect=["R07.1", "R07.2"], old="        if info_ret[\"deleted\"]:\n            self.krige.delete_fields()\n", new=""),
    dict(name="field-set-pos-no-delete", file=FB, expect="R07.1", old="            self.delete_fields()\n            info_ret[\"deleted\"] = True", new="            info_ret[\"deleted\"] = True"),
    dict(name="field-set-pos-not-reported", file=FB, expect="R07.1", old="            self.delete_fields()\n            info_ret[\"deleted\"] = True", new="            self.delete_fields()"),
    dict(name="set-pos-compares-after-store", file=FB, expect="R07.1",
         old="        old_pos = copy(self.pos)\n        # save pos and mesh-type\n        self.mesh_type = mesh_type\n        self.pos = pos\n",
         new="        # save pos and mesh-type\n        self.mesh_type = mesh_type\n        self.pos = pos\n        old_pos = copy(self.pos)\n"),
    dict(name="reuse-ignores-deleted", file=CS, expect="R07.2", old="            not info[\"deleted\"]\n            and kwargs.get(\"ext_drift\") is None", new="            kwargs.get(\"ext_drift\") is None"),
    dict(name="reuse-one-name-only", file=CS, expect="R07.2",
         old="            and name[2] in self.field_names\n            and krige_name[1] in self.krige.field_names", new="            and name[2] in self.field_names"),
    dict(name="reuse-wrong-name", file=CS, expect="R07.2", old="            rawkrige, krige_var = self[name[2]], self.krige[krige_name[1]]", new="            rawkrige, krige_var = self[name[1]], self.krige[krige_name[1]]"),
    dict(name="raw-krige-stored-processed", file=CS, expect="R07.2", old="            stored = self.post_field(rawkrige, name[2], False, save[2])", new="            stored = self.post_field(rawkrige, name[2], post_process, save[2])"),
    dict(name="krige-var-not-forced", file=CS, expect="R07.2", old='        kwargs["return_var"] = True  # overwrite if given\n', new=""),
    dict(name="pos-detector-looser", file=FB, expect="R07.3", old="        if len(p1) != len(p2):\n            return False\n", new=""),
    dict(name="condsrf-no-update", file=CS, expect="R07.4", old="        self.generator.update(self.model, seed)\n", new=""),
    dict(name="formula-minus", file=CS, expect="R07.5", old="            field=rawkrige + var_scale * rawfield + nugget,", new="            field=rawkrige - var_scale * rawfield + nugget,"),
    dict(name="rawfield-with-nugget", file=CS, expect="R07.5", old="self.generator(iso_pos, add_nugget=False)", new="self.generator(iso_pos)"),
    dict(name="scaling-by-sill", file=CS, expect="R07.5", old="            var_scale = np.sqrt(krige_var / self.model.var)\n            nugget = 0", new="            var_scale = np.sqrt(krige_var / self.model.sill)\n            nugget = 0"),
    dict(name="twin-invalidate-via-select", kind="twin", file=KB,
         old="        self.delete_fields()\n\n    def set_drift_functions", new="        self.delete_fields(select=None)\n\n    def set_drift_functions"),
    dict(name="delitem-aliases-live-name-list", file="field/base.py", expect="R07.7", old="            for k in key:\n                k = self.field_names[k] if isinstance(key, int) else k\n                names.append(k)", new="            names = key"),
    dict(name="delete-fields-iterates-while-deleting", file="field/base.py", expect="R07.7", old="        del self[self.field_names if select is None else select]", new="        for name in self.field_names if select is None else select:\n            del self[name]"),
    dict(name="twin-delete-fields-iterates-copy", kind="twin", file="field/base.py", old="        del self[self.field_names if select is None else select]", new="        for name in list(self.field_names if select is None else select):\n            del self[name]"),
    dict(name="revert-provenance-of-cached-raw-field", file="field/cond_srf.py", expect="R07.8", old="            and self.krige[krige_name[1]] is self._krige_var_ref\n", new=""),
    dict(name="provenance-never-updated", file="field/cond_srf.py", expect="R07.8", old="            self._krige_var_ref = krige_var if save[2] else None\n", new="            self._krige_var_ref = None\n"),
    dict(name="provenance-updated-on-reuse-too", file="field/cond_srf.py", expect="R07.8",
         old="            self._krige_var_ref = krige_var if save[2] else None\n            self._raw_krige_ref = stored if save[2] else None\n",
         new="            self._raw_krige_ref = stored if save[2] else None\n        self._krige_var_ref = krige_var if save[2] else None\n"),
    dict(name="revert-ext-drift-blocks-reuse", file="field/cond_srf.py", expect="R07.9", old='            and kwargs.get("ext_drift") is None\n', new=""),
    dict(name="revert-provenance-only-when-stored", file="field/cond_srf.py", expect="R07.8", old="            self._krige_var_ref = krige_var if save[2] else None\n", new="            self._krige_var_ref = krige_var\n"),
    dict(name="revert-own-copy-of-positions", file="field/base.py", expect="R07.10", old="            self._pos = np.array(pos, dtype=np.double).reshape(self.dim, -1)\n", new="            self._pos = np.asarray(pos, dtype=np.double).reshape(self.dim, -1)\n"),
    # the state before the repair 5bf918c: the raw kriging field is looked up by its (caller-chosen) name only
    dict(name="revert-raw-field-provenance", file="field/cond_srf.py", expect="R07.8", old="            and self[name[2]] is self._raw_krige_ref\n", new=""),
    dict(name="raw-field-remembered-when-not-stored", file="field/cond_srf.py", expect="R07.8", old="            self._raw_krige_ref = stored if save[2] else None\n", new="            self._raw_krige_ref = stored\n"),
    # the state of 5bf918c: the array handed to post_field is remembered, but post_field stores a reshaped (new) array object -> never equal, no reuse at all
    dict(name="remember-argument-not-stored-object", file="field/cond_srf.py", expect="R07.8", old="            self._raw_krige_ref = stored if save[2] else None\n", new="            self._raw_krige_ref = rawkrige if save[2] else None\n"),
]
