S = "field/summator.pyx"
G = "field/generator.py"
PROJ = "                proj[d] = e1[d] - cov_samples[d, j] * cov_samples[0, j] / k_2"
CASES = [
    dict(name="proj-axis-1", file=S, expect="R16.1", old=PROJ, new=PROJ.replace("cov_samples[0, j]", "cov_samples[1, j]")),
    dict(name="proj-other-column", file=S, expect="R16.1", old=PROJ, new=PROJ.replace("cov_samples[0, j]", "cov_samples[0, i]")),
    dict(name="k2-from-column-i", file=S, expect="R16.1", old="            k_2 = abs_square(cov_samples[:, j])", new="            k_2 = abs_square(cov_samples[:, i])"),
    dict(name="k2-sqrt", file=S, expect="R16.1", old=PROJ, new=PROJ.replace("/ k_2", "/ sqrt(k_2)")),
    dict(name="k2-partial-norm", file=S, expect="R16.1", old="        r += vec[i]**2", new="        r += vec[i]"),
    dict(name="proj-plus", file=S, expect="R16.1", old=PROJ, new=PROJ.replace("e1[d] -", "e1[d] +")),
    dict(name="e1-axis-1", file=S, expect=["R16.1", "R16.2"], old="    e1[0] = 1.", new="    e1[1] = 1."),
    dict(name="k2-hoisted", file=S, expect="R16.1",
         old="""    for i in range(X_len):
        for j in range(N):
            k_2 = abs_square(cov_samples[:, j])
            phase = 0.""",
         new="""    j = 0
    k_2 = abs_square(cov_samples[:, j])
    for i in range(X_len):
        for j in range(N):
            phase = 0."""),
    dict(name="phase-missing-dim", file=S, expect="R16.1",
         old="""            k_2 = abs_square(cov_samples[:, j])
            phase = 0.
            for d in range(dim):""",
         new="""            k_2 = abs_square(cov_samples[:, j])
            phase = 0.
            for d in range(dim - 1):"""),
    dict(name="gen-axis-1", file=G, expect="R16.2", old="        e1 = self._create_unit_vector(summed_modes.shape)", new="        e1 = self._create_unit_vector(summed_modes.shape, axis=1)"),
    dict(name="gen-default-axis-1", file=G, expect="R16.2", old="    def _create_unit_vector(self, broadcast_shape, axis=0):", new="    def _create_unit_vector(self, broadcast_shape, axis=1):"),
    dict(name="gen-mean-dropped", file=G, expect="R16.2", old="            self.mean_u * e1\n            + self.mean_u", new="            e1\n            + self.mean_u"),
    dict(name="gen-dim-4-allowed", file=G, expect="R16.2", old="        if model.dim < 2 or model.dim > 3:", new="        if model.dim < 2 or model.dim > 4:"),
    dict(name="gen-swapped-z", file=G, expect="R16.2",
         old="""            self._cov_sample,
            self._z_1,
            self._z_2,
            pos,
            config.NUM_THREADS,
        )
        nugget = self.get_nugget(summed_modes.shape) if add_nugget else 0.0
        e1""",
         new="""            self._z_1,
            self._cov_sample,
            self._z_2,
            pos,
            config.NUM_THREADS,
        )
        nugget = self.get_nugget(summed_modes.shape) if add_nugget else 0.0
        e1"""),
    dict(name="twin-proj-reordered", kind="twin", file=S, old=PROJ, new="                proj[d] = e1[d] - cov_samples[0, j] * cov_samples[d, j] / k_2"),
    dict(name="twin-square-product", kind="twin", file=S, old="        r += vec[i]**2", new="        r += vec[i] * vec[i]"),
]
