"""Guided rewrite search: bring a function back to the spelling the rules were written against.

Every rewrite below is behaviour-preserving ON ITS OWN (its side conditions are checked on the function at hand), so applying any
sequence of them never changes what the analysed program means.  The frozen reference text of the function (sa/frozen_names.json)
only GUIDES the search: a rewrite is kept when it brings the function's statement multiset closer to the reference, greedily,
until nothing improves.  A function that is textually identical to the reference is not touched; a function that cannot be brought
closer stays as written (and the rules then judge it as written).

Rewrites (both directions where they are inverse pairs):
  else-hoist / else-unhoist       if c: A; <jump>  else: B        <->  if c: A; <jump>   followed by B
  return-variable intro / elim    if c: ..return A  else: ..return B  <->  if c: ..v = A else: ..v = B ; return v
  tuple split / merge             a, b = x, y   <->  a = x ; b = y            (b's value must not read a)
  unpack-from-call                t = f(..); a = t[0]; b = t[1]   ->  a, b = f(..)          (t a new single-use local)
  nested-if merge / split         if a: if b: X   <->  if a and b: X          (no else branches)
  continue-guard / nested block   for ..: if c: continue ; rest   <->  for ..: if not c: rest
  local rename                    consistent renaming of a local to a name the reference has and the function lacks
  loop <-> comprehension          v = [] ; for x in it: v.append(e)   <->  v = [e for x in it]
  return conditional expression   return A if c else B   <->  if c: return A ; return B
"""
import ast
import copy
from collections import Counter

JUMPS = (ast.Return, ast.Raise, ast.Continue, ast.Break)
_FLIP = {ast.NotEq: ast.Eq, ast.IsNot: ast.Is, ast.NotIn: ast.In, ast.Eq: ast.NotEq, ast.Is: ast.IsNot, ast.In: ast.NotIn}


def negate(t):
    """Logical negation in negation normal form (never flips an ordering comparison: NaN)."""
    if isinstance(t, ast.UnaryOp) and isinstance(t.op, ast.Not):
        return copy.deepcopy(t.operand)
    if isinstance(t, ast.Compare) and len(t.ops) == 1 and type(t.ops[0]) in _FLIP:
        return ast.Compare(copy.deepcopy(t.left), [_FLIP[type(t.ops[0])]()], copy.deepcopy(t.comparators))
    if isinstance(t, ast.BoolOp):
        op = ast.Or() if isinstance(t.op, ast.And) else ast.And()
        return ast.BoolOp(op, [negate(v) for v in t.values])
    return ast.UnaryOp(ast.Not(), copy.deepcopy(t))


class NNF(ast.NodeTransformer):
    """not (a and b) -> not a or not b ; not (a or b) -> not a and not b ; not not a -> a ; not a == b -> a != b"""

    def visit_UnaryOp(self, node):
        self.generic_visit(node)
        if isinstance(node.op, ast.Not):
            o = node.operand
            if isinstance(o, ast.BoolOp) or (isinstance(o, ast.UnaryOp) and isinstance(o.op, ast.Not)) or (isinstance(o, ast.Compare) and len(o.ops) == 1 and type(o.ops[0]) in _FLIP):
                return ast.copy_location(self.visit(negate(o)), node)
        return node


def strip_doc(fn):
    b = fn.body
    if b and isinstance(b[0], ast.Expr) and isinstance(b[0].value, ast.Constant) and isinstance(b[0].value.value, str):
        return b[1:]
    return b


def signature_text(fn):
    f2 = copy.copy(fn)
    f2.body = strip_doc(fn) or [ast.Pass()]
    f2.decorator_list = []
    return ast.unparse(f2)


def signature(text):
    c = Counter()
    for line in text.splitlines()[1:]:
        s = line.lstrip()
        if s:
            c[((len(line) - len(s)) // 4, s)] += 1
    return c


def dist(a, b):
    """Lexicographic: (lines of the reference not yet matched, surplus lines).  A rewrite must recover reference lines to be kept;
    merely shrinking the function (fewer unmatched lines of its own) does not count."""
    return (sum((b - a).values()), sum((a - b).values()))


# ---------------------------------------------------------------------------------------------------------------- addressing
def blocks(fn):
    """Statement lists of fn in a deterministic order (nested function bodies included)."""
    out = []

    def rec(node):
        for field in ("body", "orelse", "finalbody"):
            b = getattr(node, field, None)
            if isinstance(b, list) and b and isinstance(b[0], ast.stmt):
                out.append((node, field))
                for s in b:
                    rec(s)
        if isinstance(node, ast.Try):
            for h in node.handlers:
                rec(h)

    rec(fn)
    return out


def _names(node, ctx=None):
    return {n.id for n in ast.walk(node) if isinstance(n, ast.Name) and (ctx is None or isinstance(n.ctx, ctx))}


def _has_call(e):
    return any(isinstance(n, ast.Call) for n in ast.walk(e))


def _in_loop(fn, owner):
    """Is the statement list owned by `owner` the body of a loop (directly)?"""
    return isinstance(owner, (ast.For, ast.While))


# ---------------------------------------------------------------------------------------------------------------- rewrites
# each rewrite: candidates(fn, ref) -> list of argument tuples ; apply(fn_copy, *args) -> bool (done)

def c_else_hoist(fn, ref):
    out = []
    for bi, (o, f) in enumerate(blocks(fn)):
        for i, s in enumerate(getattr(o, f)):
            if isinstance(s, ast.If) and s.orelse and isinstance(s.body[-1], JUMPS):
                out.append((bi, i))
    return out


def a_else_hoist(fn, bi, i):
    o, f = blocks(fn)[bi]
    b = getattr(o, f)
    s = b[i]
    rest, s.orelse = s.orelse, []
    b[i + 1:i + 1] = rest
    return True


def c_else_unhoist(fn, ref):
    out = []
    for bi, (o, f) in enumerate(blocks(fn)):
        b = getattr(o, f)
        for i, s in enumerate(b):
            if isinstance(s, ast.If) and not s.orelse and isinstance(s.body[-1], JUMPS) and i + 1 < len(b):
                out.append((bi, i))
    return out


def a_else_unhoist(fn, bi, i):
    o, f = blocks(fn)[bi]
    b = getattr(o, f)
    s = b[i]
    s.orelse = b[i + 1:]
    del b[i + 1:]
    return True


def c_swap_arms(fn, ref):
    """if c: A else: B  ->  if not c: B else: A   (the loader orients two-armed tests positively; after unhoisting the arms may need a swap)"""
    out = []
    for bi, (o, f) in enumerate(blocks(fn)):
        for i, s in enumerate(getattr(o, f)):
            if isinstance(s, ast.If) and s.orelse:
                out.append((bi, i))
    return out


def a_swap_arms(fn, bi, i):
    o, f = blocks(fn)[bi]
    s = getattr(o, f)[i]
    s.test, s.body, s.orelse = negate(s.test), s.orelse, s.body
    return True


def c_retvar_intro(fn, ref):
    gone = ref["gone"]
    out = []
    if not gone:
        return out
    for bi, (o, f) in enumerate(blocks(fn)):
        b = getattr(o, f)
        for i, s in enumerate(b):
            if isinstance(s, ast.If) and s.orelse and i == len(b) - 1 and _all_paths_return_value(s):
                for v in sorted(gone):
                    if v not in _names(fn):
                        out.append((bi, i, v))
    return out


def _all_paths_return_value(s):
    """Every arm of the if/elif/else ladder ends with `return <expr>` and contains no other return."""
    def arm_ok(arm):
        if not arm:
            return False
        last = arm[-1]
        if isinstance(last, ast.If) and last.orelse:
            inner = _all_paths_return_value(last)
        else:
            inner = isinstance(last, ast.Return) and last.value is not None
        others = [n for st in arm[:-1] for n in ast.walk(st) if isinstance(n, ast.Return)]
        return inner and not others
    return arm_ok(s.body) and arm_ok(s.orelse)


def a_retvar_intro(fn, bi, i, v):
    o, f = blocks(fn)[bi]
    b = getattr(o, f)

    def conv(s):
        for arm in (s.body, s.orelse):
            last = arm[-1]
            if isinstance(last, ast.If):
                conv(last)
            else:
                arm[-1] = ast.Assign([ast.Name(v, ast.Store())], last.value)
    conv(b[i])
    b.append(ast.Return(ast.Name(v, ast.Load())))
    return True


def c_retvar_elim(fn, ref):
    out = []
    for bi, (o, f) in enumerate(blocks(fn)):
        b = getattr(o, f)
        for i in range(len(b) - 1):
            s, r = b[i], b[i + 1]
            if isinstance(s, ast.If) and s.orelse and isinstance(r, ast.Return) and isinstance(r.value, ast.Name) and i + 1 == len(b) - 1:
                v = r.value.id
                if _all_arms_assign(s, v):
                    out.append((bi, i, v))
    return out


def _all_arms_assign(s, v):
    def arm_ok(arm):
        if not arm:
            return False
        last = arm[-1]
        if isinstance(last, ast.If) and last.orelse:
            return _all_arms_assign(last, v)
        return isinstance(last, ast.Assign) and len(last.targets) == 1 and isinstance(last.targets[0], ast.Name) and last.targets[0].id == v
    return arm_ok(s.body) and arm_ok(s.orelse)


def a_retvar_elim(fn, bi, i, v):
    o, f = blocks(fn)[bi]
    b = getattr(o, f)

    def conv(s):
        for arm in (s.body, s.orelse):
            last = arm[-1]
            if isinstance(last, ast.If):
                conv(last)
            else:
                arm[-1] = ast.Return(last.value)
    conv(b[i])
    del b[i + 1]
    return True


def c_tuple_split(fn, ref):
    out = []
    for bi, (o, f) in enumerate(blocks(fn)):
        for i, s in enumerate(getattr(o, f)):
            if (isinstance(s, ast.Assign) and len(s.targets) == 1 and isinstance(s.targets[0], ast.Tuple) and isinstance(s.value, ast.Tuple)
                    and len(s.targets[0].elts) == len(s.value.elts) and all(isinstance(t, ast.Name) for t in s.targets[0].elts)
                    and not any(isinstance(v, ast.Starred) for v in s.value.elts)):
                tg = [t.id for t in s.targets[0].elts]
                if all(not (set(tg[:k]) & _names(v)) for k, v in enumerate(s.value.elts)):
                    out.append((bi, i))
    return out


def a_tuple_split(fn, bi, i):
    o, f = blocks(fn)[bi]
    b = getattr(o, f)
    s = b[i]
    b[i:i + 1] = [ast.Assign([t], v) for t, v in zip(s.targets[0].elts, s.value.elts)]
    return True


def c_tuple_merge(fn, ref):
    out = []
    for bi, (o, f) in enumerate(blocks(fn)):
        b = getattr(o, f)
        for i in range(len(b) - 1):
            for n in (2, 3):
                seg = b[i:i + n]
                if len(seg) == n and all(isinstance(s, ast.Assign) and len(s.targets) == 1 and isinstance(s.targets[0], ast.Name) for s in seg):
                    tg = [s.targets[0].id for s in seg]
                    if len(set(tg)) == n and all(not (set(tg[:k]) & _names(s.value)) for k, s in enumerate(seg)):
                        out.append((bi, i, n))
    return out


def a_tuple_merge(fn, bi, i, n):
    o, f = blocks(fn)[bi]
    b = getattr(o, f)
    seg = b[i:i + n]
    b[i:i + n] = [ast.Assign([ast.Tuple([s.targets[0] for s in seg], ast.Store())], ast.Tuple([s.value for s in seg], ast.Load()))]
    return True


def c_unpack_call(fn, ref):
    out = []
    new = ref["new"]
    for bi, (o, f) in enumerate(blocks(fn)):
        b = getattr(o, f)
        for i, s in enumerate(b):
            if isinstance(s, ast.Assign) and len(s.targets) == 1 and isinstance(s.targets[0], ast.Name) and s.targets[0].id in new and isinstance(s.value, ast.Call):
                t = s.targets[0].id
                k = 0
                while (i + 1 + k < len(b) and isinstance(b[i + 1 + k], ast.Assign) and len(b[i + 1 + k].targets) == 1
                       and isinstance(b[i + 1 + k].value, ast.Subscript) and isinstance(b[i + 1 + k].value.value, ast.Name) and b[i + 1 + k].value.value.id == t
                       and isinstance(b[i + 1 + k].value.slice, ast.Constant) and b[i + 1 + k].value.slice.value == k
                       and t not in _names(b[i + 1 + k].targets[0])):
                    k += 1
                uses = sum(1 for n in ast.walk(fn) if isinstance(n, ast.Name) and n.id == t)
                if k >= 2 and uses == k + 1:
                    out.append((bi, i, k))
    return out


def a_unpack_call(fn, bi, i, k):
    o, f = blocks(fn)[bi]
    b = getattr(o, f)
    tg = [b[i + 1 + j].targets[0] for j in range(k)]
    b[i:i + 1 + k] = [ast.Assign([ast.Tuple(tg, ast.Store())], b[i].value)]
    return True


def c_nested_merge(fn, ref):
    out = []
    for bi, (o, f) in enumerate(blocks(fn)):
        for i, s in enumerate(getattr(o, f)):
            if isinstance(s, ast.If) and not s.orelse and len(s.body) == 1 and isinstance(s.body[0], ast.If) and not s.body[0].orelse:
                out.append((bi, i))
    return out


def a_nested_merge(fn, bi, i):
    o, f = blocks(fn)[bi]
    s = getattr(o, f)[i]
    inner = s.body[0]
    vals = (s.test.values if isinstance(s.test, ast.BoolOp) and isinstance(s.test.op, ast.And) else [s.test]) + \
           (inner.test.values if isinstance(inner.test, ast.BoolOp) and isinstance(inner.test.op, ast.And) else [inner.test])
    s.test = ast.BoolOp(ast.And(), vals)
    s.body = inner.body
    return True


def c_nested_split(fn, ref):
    out = []
    for bi, (o, f) in enumerate(blocks(fn)):
        for i, s in enumerate(getattr(o, f)):
            if isinstance(s, ast.If) and not s.orelse and isinstance(s.test, ast.BoolOp) and isinstance(s.test.op, ast.And):
                for k in range(1, len(s.test.values)):
                    out.append((bi, i, k))
    return out


def a_nested_split(fn, bi, i, k):
    o, f = blocks(fn)[bi]
    s = getattr(o, f)[i]
    vals = s.test.values
    outer = vals[0] if k == 1 else ast.BoolOp(ast.And(), vals[:k])
    inner_t = vals[k] if k == len(vals) - 1 else ast.BoolOp(ast.And(), vals[k:])
    s.body = [ast.If(inner_t, s.body, [])]
    s.test = outer
    return True


def c_continue_to_if(fn, ref):
    out = []
    for bi, (o, f) in enumerate(blocks(fn)):
        if f != "body" or not isinstance(o, (ast.For, ast.While)):
            continue
        b = getattr(o, f)
        for i, s in enumerate(b):
            if isinstance(s, ast.If) and not s.orelse and len(s.body) == 1 and isinstance(s.body[0], ast.Continue) and i + 1 < len(b):
                out.append((bi, i))
    return out


def a_continue_to_if(fn, bi, i):
    o, f = blocks(fn)[bi]
    b = getattr(o, f)
    s = b[i]
    b[i:] = [ast.If(negate(s.test), b[i + 1:], [])]
    return True


def c_if_to_continue(fn, ref):
    out = []
    for bi, (o, f) in enumerate(blocks(fn)):
        if f != "body" or not isinstance(o, (ast.For, ast.While)):
            continue
        b = getattr(o, f)
        if b and isinstance(b[-1], ast.If) and not b[-1].orelse:
            out.append((bi, len(b) - 1))
    return out


def a_if_to_continue(fn, bi, i):
    o, f = blocks(fn)[bi]
    b = getattr(o, f)
    s = b[i]
    b[i:] = [ast.If(negate(s.test), [ast.Continue()], [])] + s.body
    return True


def c_early_return_to_if(fn, ref):
    """function body: `if c: return` (bare) ; rest   ->   if not c: rest      (procedures; inverse below)"""
    out = []
    b = fn.body
    for i, s in enumerate(b):
        if isinstance(s, ast.If) and not s.orelse and len(s.body) == 1 and isinstance(s.body[0], ast.Return) and s.body[0].value is None and i + 1 < len(b):
            rest = b[i + 1:]
            if not any(isinstance(n, ast.Return) and n.value is not None for st in rest for n in ast.walk(st)):
                out.append((i,))
    return out


def a_early_return_to_if(fn, i):
    b = fn.body
    s = b[i]
    b[i:] = [ast.If(negate(s.test), b[i + 1:], [])]
    return True


def c_if_to_early_return(fn, ref):
    b = fn.body
    if b and isinstance(b[-1], ast.If) and not b[-1].orelse and not any(isinstance(n, ast.Return) and n.value is not None for n in ast.walk(fn)):
        return [(len(b) - 1,)]
    return []


def a_if_to_early_return(fn, i):
    b = fn.body
    s = b[i]
    b[i:] = [ast.If(negate(s.test), [ast.Return(None)], [])] + s.body
    return True


def c_drop_tail_return(fn, ref):
    """a bare `return` that ends an arm of the function's LAST statement is redundant; so is one ending the body"""
    return [(k,) for k in range(len(_tail_returns(fn)))]


def _tail_returns(fn):
    """(statement list, index) of bare returns in tail position of the function body (nothing can execute after them anyway)."""
    out = []

    def rec(b):
        if not b:
            return
        last = b[-1]
        if isinstance(last, ast.Return) and last.value is None:
            out.append(b)
        elif isinstance(last, ast.If):
            rec(last.body)
            rec(last.orelse)
        elif isinstance(last, ast.With):
            rec(last.body)

    rec(fn.body)
    return out


def a_drop_tail_return(fn, k):
    b = _tail_returns(fn)[k]
    b.pop()
    if not b:
        b.append(ast.Pass())
    return True


def c_rename(fn, ref):
    out = []
    used = _names(fn) | {a.arg for n in ast.walk(fn) if isinstance(n, ast.arguments) for a in n.args + n.kwonlyargs + n.posonlyargs}
    for n_ in sorted(ref["new"]):
        for o_ in sorted(ref["gone"]):
            if o_ not in used:
                out.append((n_, o_))
    return out


def a_rename(fn, n_, o_):
    for n in ast.walk(fn):
        if isinstance(n, ast.Name) and n.id == n_:
            n.id = o_
        elif isinstance(n, ast.arg) and n.arg == n_:
            return False
        elif isinstance(n, (ast.Global, ast.Nonlocal)) and n_ in n.names:
            return False
    return True


def c_loop_to_comp(fn, ref):
    out = []
    for bi, (o, f) in enumerate(blocks(fn)):
        b = getattr(o, f)
        for i in range(len(b) - 1):
            s, l = b[i], b[i + 1]
            if (isinstance(s, ast.Assign) and len(s.targets) == 1 and isinstance(s.targets[0], ast.Name) and isinstance(s.value, ast.List) and not s.value.elts
                    and isinstance(l, ast.For) and not l.orelse):
                v = s.targets[0].id
                gens = _append_nest(l, v)
                if gens is not None:
                    lv = set()
                    for g in gens[0]:
                        lv |= _names(g.target)
                    cnt_all = sum(1 for n in ast.walk(fn) if isinstance(n, ast.Name) and n.id in lv)
                    cnt_in = sum(1 for n in ast.walk(l) if isinstance(n, ast.Name) and n.id in lv)
                    if cnt_all == cnt_in:
                        out.append((bi, i))
    return out


def _append_nest(l, v):
    """for a in A: [for b in B:] [if c:] v.append(e)  ->  (generators, elt) ; v must not be read inside"""
    gens = []
    node = l
    while True:
        if isinstance(node, ast.For) and not node.orelse and len(node.body) == 1:
            if v in _names(node.iter) or v in _names(node.target):
                return None
            gens.append(ast.comprehension(node.target, node.iter, [], 0))
            node = node.body[0]
        elif isinstance(node, ast.If) and not node.orelse and len(node.body) == 1 and gens:
            if v in _names(node.test):
                return None
            gens[-1].ifs.append(node.test)
            node = node.body[0]
        else:
            break
    if (isinstance(node, ast.Expr) and isinstance(node.value, ast.Call) and isinstance(node.value.func, ast.Attribute) and node.value.func.attr == "append"
            and isinstance(node.value.func.value, ast.Name) and node.value.func.value.id == v and len(node.value.args) == 1 and not node.value.keywords
            and v not in _names(node.value.args[0]) and gens):
        return gens, node.value.args[0]
    return None


def a_loop_to_comp(fn, bi, i):
    o, f = blocks(fn)[bi]
    b = getattr(o, f)
    v = b[i].targets[0].id
    gens, elt = _append_nest(b[i + 1], v)
    b[i:i + 2] = [ast.Assign([ast.Name(v, ast.Store())], ast.ListComp(elt, gens))]
    return True


def c_comp_to_loop(fn, ref):
    out = []
    for bi, (o, f) in enumerate(blocks(fn)):
        for i, s in enumerate(getattr(o, f)):
            if isinstance(s, ast.Assign) and len(s.targets) == 1 and isinstance(s.targets[0], ast.Name) and isinstance(s.value, ast.ListComp):
                v = s.targets[0].id
                # the comprehension's own variables leak into the function scope as loop variables: only when they are not used elsewhere
                cv = set()
                for g in s.value.generators:
                    cv |= _names(g.target)
                other = {n.id for st in ast.walk(fn) for n in ([st] if isinstance(st, ast.Name) else []) if n.id in cv}
                inside = {n.id for n in ast.walk(s) if isinstance(n, ast.Name) and n.id in cv}
                cnt_all = sum(1 for n in ast.walk(fn) if isinstance(n, ast.Name) and n.id in cv)
                cnt_in = sum(1 for n in ast.walk(s) if isinstance(n, ast.Name) and n.id in cv)
                if v not in _names(s.value) and cnt_all == cnt_in and not any(g.is_async for g in s.value.generators):
                    out.append((bi, i))
                del other, inside
    return out


def a_comp_to_loop(fn, bi, i):
    o, f = blocks(fn)[bi]
    b = getattr(o, f)
    s = b[i]
    v = s.targets[0].id
    inner = ast.Expr(ast.Call(ast.Attribute(ast.Name(v, ast.Load()), "append", ast.Load()), [s.value.elt], []))
    for g in reversed(s.value.generators):
        for c in reversed(g.ifs):
            inner = ast.If(c, [inner], [])
        inner = ast.For(g.target, g.iter, [inner], [], None)
    b[i:i + 1] = [ast.Assign([ast.Name(v, ast.Store())], ast.List([], ast.Load())), inner]
    return True


def c_ret_ifexp_split(fn, ref):
    out = []
    for bi, (o, f) in enumerate(blocks(fn)):
        for i, s in enumerate(getattr(o, f)):
            if isinstance(s, ast.Return) and isinstance(s.value, ast.IfExp):
                out.append((bi, i))
    return out


def a_ret_ifexp_split(fn, bi, i):
    o, f = blocks(fn)[bi]
    b = getattr(o, f)
    s = b[i]
    b[i:i + 1] = [ast.If(s.value.test, [ast.Return(s.value.body)], []), ast.Return(s.value.orelse)]
    return True


def c_ret_ifexp_merge(fn, ref):
    out = []
    for bi, (o, f) in enumerate(blocks(fn)):
        b = getattr(o, f)
        for i in range(len(b) - 1):
            s, r = b[i], b[i + 1]
            if (isinstance(s, ast.If) and not s.orelse and len(s.body) == 1 and isinstance(s.body[0], ast.Return) and s.body[0].value is not None
                    and isinstance(r, ast.Return) and r.value is not None):
                out.append((bi, i))
    return out


def a_ret_ifexp_merge(fn, bi, i):
    o, f = blocks(fn)[bi]
    b = getattr(o, f)
    s, r = b[i], b[i + 1]
    b[i:i + 2] = [ast.Return(ast.IfExp(s.test, s.body[0].value, r.value))]
    return True


def c_swap_stmts(fn, ref):
    """two adjacent simple assignments to distinct plain names, both call-free apart from pure reads, neither reading the other's target"""
    out = []
    for bi, (o, f) in enumerate(blocks(fn)):
        b = getattr(o, f)
        for i in range(len(b) - 1):
            s, t = b[i], b[i + 1]
            if all(isinstance(x, ast.Assign) and len(x.targets) == 1 and isinstance(x.targets[0], ast.Name) for x in (s, t)):
                a, c = s.targets[0].id, t.targets[0].id
                if a != c and a not in _names(t.value) and c not in _names(s.value) and _reorderable(s.value) and _reorderable(t.value):
                    out.append((bi, i))
    return out


def _reorderable(e):
    """No calls except to a short list of pure functions (copying / conversion of values): evaluation order is unobservable."""
    for n in ast.walk(e):
        if isinstance(n, ast.Call):
            t = ast.unparse(n.func)
            if t not in ("dcp", "copy", "deepcopy", "np.asarray", "np.array", "np.atleast_1d", "float", "int", "bool", "len", "np.size", "np.shape", "tuple", "list"):
                return False
    return True


def a_swap_stmts(fn, bi, i):
    o, f = blocks(fn)[bi]
    b = getattr(o, f)
    b[i], b[i + 1] = b[i + 1], b[i]
    return True


def c_or_merge(fn, ref):
    """if a: X ; if b: X   ->   if a or b: X       (X ends with a jump, so b is only tested when a failed - like `or`)"""
    out = []
    for bi, (o, f) in enumerate(blocks(fn)):
        b = getattr(o, f)
        for i in range(len(b) - 1):
            s, t = b[i], b[i + 1]
            if (isinstance(s, ast.If) and isinstance(t, ast.If) and not s.orelse and not t.orelse and isinstance(s.body[-1], JUMPS)
                    and [ast.dump(x) for x in s.body] == [ast.dump(x) for x in t.body]):
                out.append((bi, i))
    return out


def a_or_merge(fn, bi, i):
    o, f = blocks(fn)[bi]
    b = getattr(o, f)
    s, t = b[i], b[i + 1]
    vals = (s.test.values if isinstance(s.test, ast.BoolOp) and isinstance(s.test.op, ast.Or) else [s.test]) + \
           (t.test.values if isinstance(t.test, ast.BoolOp) and isinstance(t.test.op, ast.Or) else [t.test])
    s.test = ast.BoolOp(ast.Or(), vals)
    del b[i + 1]
    return True


def c_or_split(fn, ref):
    out = []
    for bi, (o, f) in enumerate(blocks(fn)):
        for i, s in enumerate(getattr(o, f)):
            if isinstance(s, ast.If) and not s.orelse and isinstance(s.test, ast.BoolOp) and isinstance(s.test.op, ast.Or) and isinstance(s.body[-1], JUMPS):
                for k in range(1, len(s.test.values)):
                    out.append((bi, i, k))
    return out


def a_or_split(fn, bi, i, k):
    o, f = blocks(fn)[bi]
    b = getattr(o, f)
    s = b[i]
    vals = s.test.values
    first = vals[0] if k == 1 else ast.BoolOp(ast.Or(), vals[:k])
    second = vals[k] if k == len(vals) - 1 else ast.BoolOp(ast.Or(), vals[k:])
    b[i:i + 1] = [ast.If(first, copy.deepcopy(s.body), []), ast.If(second, s.body, [])]
    return True


def c_same_test_merge(fn, ref):
    """if c: A ; if c: B  ->  if c: A; B      (c call-free, A cannot change c's operands: A stores none of the names c reads)"""
    out = []
    for bi, (o, f) in enumerate(blocks(fn)):
        b = getattr(o, f)
        for i in range(len(b) - 1):
            s, t = b[i], b[i + 1]
            if (isinstance(s, ast.If) and isinstance(t, ast.If) and not s.orelse and not t.orelse and ast.dump(s.test) == ast.dump(t.test)
                    and not _has_call(s.test) and not isinstance(s.body[-1], JUMPS)):
                reads = _names(s.test)
                stored = {n.id for x in s.body for n in ast.walk(x) if isinstance(n, ast.Name) and isinstance(n.ctx, (ast.Store, ast.Del))}
                attr_store = any(isinstance(n, (ast.Attribute, ast.Subscript)) and isinstance(n.ctx, (ast.Store, ast.Del)) for x in s.body for n in ast.walk(x))
                has_attr = any(isinstance(n, (ast.Attribute, ast.Subscript)) for n in ast.walk(s.test))
                if not (reads & stored) and not (has_attr and (attr_store or any(_has_call(x) for x in s.body))):
                    out.append((bi, i))
    return out


def a_same_test_merge(fn, bi, i):
    o, f = blocks(fn)[bi]
    b = getattr(o, f)
    b[i].body = b[i].body + b[i + 1].body
    del b[i + 1]
    return True


def c_same_test_split(fn, ref):
    out = []
    for bi, (o, f) in enumerate(blocks(fn)):
        for i, s in enumerate(getattr(o, f)):
            if isinstance(s, ast.If) and not s.orelse and len(s.body) >= 2 and not _has_call(s.test):
                reads = _names(s.test)
                has_attr = any(isinstance(n, (ast.Attribute, ast.Subscript)) for n in ast.walk(s.test))
                for k in range(1, len(s.body)):
                    head = s.body[:k]
                    if any(isinstance(x, JUMPS) for x in head):
                        break
                    stored = {n.id for x in head for n in ast.walk(x) if isinstance(n, ast.Name) and isinstance(n.ctx, (ast.Store, ast.Del))}
                    attr_store = any(isinstance(n, (ast.Attribute, ast.Subscript)) and isinstance(n.ctx, (ast.Store, ast.Del)) for x in head for n in ast.walk(x))
                    if not (reads & stored) and not (has_attr and (attr_store or any(_has_call(x) for x in head))) and not any(
                            isinstance(n, JUMPS) for x in head for n in ast.walk(x)):
                        out.append((bi, i, k))
    return out


def a_same_test_split(fn, bi, i, k):
    o, f = blocks(fn)[bi]
    b = getattr(o, f)
    s = b[i]
    b[i:i + 1] = [ast.If(copy.deepcopy(s.test), s.body[:k], []), ast.If(s.test, s.body[k:], [])]
    return True


def c_move_stmt(fn, ref):
    """Move a simple call-free assignment to a plain name down/up past ONE neighbouring statement that neither reads nor writes that name
    and writes nothing the assignment reads (and contains no jump)."""
    out = []
    for bi, (o, f) in enumerate(blocks(fn)):
        b = getattr(o, f)
        for i in range(len(b) - 1):
            for (x, y, tag) in ((b[i], b[i + 1], "down"), (b[i + 1], b[i], "up")):
                if isinstance(x, ast.Assign) and len(x.targets) == 1 and isinstance(x.targets[0], ast.Name) and _reorderable(x.value) and not isinstance(y, (ast.FunctionDef, ast.ClassDef)):
                    nm = x.targets[0].id
                    if nm in _names(y):
                        continue
                    if any(isinstance(n, JUMPS) for n in ast.walk(y)):
                        continue
                    y_stores = {n.id for n in ast.walk(y) if isinstance(n, ast.Name) and isinstance(n.ctx, (ast.Store, ast.Del))}
                    y_attr_store = any(isinstance(n, (ast.Attribute, ast.Subscript)) and isinstance(n.ctx, (ast.Store, ast.Del)) for n in ast.walk(y))
                    x_attr = any(isinstance(n, (ast.Attribute, ast.Subscript)) for n in ast.walk(x.value))
                    if y_stores & _names(x.value):
                        continue
                    if x_attr and (y_attr_store or _has_call(y)):
                        continue
                    out.append((bi, i))
                    break
    return out


def a_move_stmt(fn, bi, i):
    o, f = blocks(fn)[bi]
    b = getattr(o, f)
    b[i], b[i + 1] = b[i + 1], b[i]
    return True


def c_ifexp_to_if(fn, ref):
    """x = A if c else B   ->   if c: x = A  else: x = B"""
    out = []
    for bi, (o, f) in enumerate(blocks(fn)):
        for i, s in enumerate(getattr(o, f)):
            if isinstance(s, ast.Assign) and len(s.targets) == 1 and isinstance(s.value, ast.IfExp):
                if isinstance(s.targets[0], ast.Name) and s.targets[0].id in ref["new"]:
                    continue  # a NEW local is inlined into its use instead (norm.inline_new_locals)
                out.append((bi, i))
    return out


def a_ifexp_to_if(fn, bi, i):
    o, f = blocks(fn)[bi]
    b = getattr(o, f)
    s = b[i]
    b[i] = ast.If(s.value.test, [ast.Assign(copy.deepcopy(s.targets), s.value.body)], [ast.Assign(copy.deepcopy(s.targets), s.value.orelse)])
    return True


def c_if_to_ifexp(fn, ref):
    out = []
    for bi, (o, f) in enumerate(blocks(fn)):
        for i, s in enumerate(getattr(o, f)):
            if (isinstance(s, ast.If) and len(s.body) == 1 and len(s.orelse) == 1 and isinstance(s.body[0], ast.Assign) and isinstance(s.orelse[0], ast.Assign)
                    and len(s.body[0].targets) == 1 and len(s.orelse[0].targets) == 1 and ast.dump(s.body[0].targets[0]) == ast.dump(s.orelse[0].targets[0])):
                out.append((bi, i))
    return out


def a_if_to_ifexp(fn, bi, i):
    o, f = blocks(fn)[bi]
    b = getattr(o, f)
    s = b[i]
    b[i] = ast.Assign(s.body[0].targets, ast.IfExp(s.test, s.body[0].value, s.orelse[0].value))
    return True


def _bool_only_uses(fn, nm):
    parents = {}
    for p in ast.walk(fn):
        for c in ast.iter_child_nodes(p):
            parents[c] = p
    for n in ast.walk(fn):
        if isinstance(n, ast.Name) and n.id == nm and isinstance(n.ctx, ast.Load):
            c, p = n, parents.get(n)
            while isinstance(p, ast.BoolOp) or (isinstance(p, ast.UnaryOp) and isinstance(p.op, ast.Not)):
                c, p = p, parents.get(p)
            if not (isinstance(p, (ast.If, ast.While, ast.IfExp)) and p.test is c):
                # a flag that is only handed on (returned / passed) keeps its truth value but may change type: not rewritten
                return False
    return True


def c_flag_into_arms(fn, ref):
    """flag = C ; if flag: A [else: B]   ->   if C: flag = True; A  else: flag = False; B
    Only when every other use of the flag is a truth test OR the condition C is a comparison / boolean of comparisons (already a bool)."""
    out = []
    for bi, (o, f) in enumerate(blocks(fn)):
        b = getattr(o, f)
        for i in range(len(b) - 1):
            s, t = b[i], b[i + 1]
            if (isinstance(s, ast.Assign) and len(s.targets) == 1 and isinstance(s.targets[0], ast.Name) and isinstance(t, ast.If)
                    and isinstance(t.test, ast.Name) and t.test.id == s.targets[0].id):
                nm = s.targets[0].id
                stores = sum(1 for n in ast.walk(fn) if isinstance(n, ast.Name) and n.id == nm and isinstance(n.ctx, (ast.Store, ast.Del)))
                if stores == 1 and nm not in _names(s.value) and (_is_boolean_expr(s.value) or _bool_only_uses(fn, nm)):
                    out.append((bi, i))
    return out


def _is_boolean_expr(e):
    if isinstance(e, ast.Compare):
        return all(isinstance(op, (ast.Is, ast.IsNot, ast.In, ast.NotIn)) for op in e.ops) or not any(isinstance(n, (ast.Call, ast.Subscript, ast.Attribute)) for n in ast.walk(e))
    if isinstance(e, ast.BoolOp):
        return all(_is_boolean_expr(v) for v in e.values)
    if isinstance(e, ast.UnaryOp) and isinstance(e.op, ast.Not):
        return True
    if isinstance(e, ast.Call) and isinstance(e.func, ast.Name) and e.func.id in ("isinstance", "callable", "bool", "hasattr", "issubclass"):
        return True
    return False


def a_flag_into_arms(fn, bi, i):
    o, f = blocks(fn)[bi]
    b = getattr(o, f)
    s, t = b[i], b[i + 1]
    nm = s.targets[0].id
    t.test = s.value
    t.body.insert(0, ast.Assign([ast.Name(nm, ast.Store())], ast.Constant(True)))
    t.orelse.insert(0, ast.Assign([ast.Name(nm, ast.Store())], ast.Constant(False)))
    del b[i]
    return True


def c_temp_into_source(fn, ref):
    """t = X ; ...statements using t only... ; X = g(t)    ->   the same with t spelled X  (t NEW, X not touched in between, t dead after)"""
    out = []
    for bi, (o, f) in enumerate(blocks(fn)):
        b = getattr(o, f)
        for i, s in enumerate(b):
            if not (isinstance(s, ast.Assign) and len(s.targets) == 1 and isinstance(s.targets[0], ast.Name) and isinstance(s.value, ast.Name)):
                continue
            t, x = s.targets[0].id, s.value.id
            if t not in ref["new"] or t == x:
                continue
            total_t = sum(1 for n in ast.walk(fn) if isinstance(n, ast.Name) and n.id == t)
            seen_t = 1
            j = None
            for k in range(i + 1, len(b)):
                st = b[k]
                cnt_t = sum(1 for n in ast.walk(st) if isinstance(n, ast.Name) and n.id == t)
                x_nodes = [n for n in ast.walk(st) if isinstance(n, ast.Name) and n.id == x]
                seen_t += cnt_t
                is_final = isinstance(st, ast.Assign) and len(st.targets) == 1 and isinstance(st.targets[0], ast.Name) and st.targets[0].id == x and len(x_nodes) == 1 and cnt_t > 0
                if is_final:
                    j = k
                    break
                if x_nodes or isinstance(st, (ast.FunctionDef, ast.ClassDef)):
                    break
            if j is not None and seen_t == total_t:
                out.append((bi, i, j))
    return out


def a_temp_into_source(fn, bi, i, j):
    o, f = blocks(fn)[bi]
    b = getattr(o, f)
    t, x = b[i].targets[0].id, b[i].value.id
    for st in b[i + 1:j + 1]:
        for n in ast.walk(st):
            if isinstance(n, ast.Name) and n.id == t:
                n.id = x
    del b[i]
    return True


def _ends_in_jump(stmts):
    return bool(stmts) and isinstance(stmts[-1], (ast.Raise, ast.Return, ast.Continue, ast.Break))


def c_guard_hoist(fn, ref):
    """if B: (if A: <raise/return>) ; rest    ->    if A and B: <raise/return> ; if B: rest      (A, B call-free; both operand orders)"""
    out = []
    for bi, (o, f) in enumerate(blocks(fn)):
        for i, s in enumerate(getattr(o, f)):
            if isinstance(s, ast.If) and not s.orelse and len(s.body) >= 2 and isinstance(s.body[0], ast.If) and not s.body[0].orelse \
                    and _ends_in_jump(s.body[0].body) and not _has_call(s.test) and not _has_call(s.body[0].test):
                # the rest must not change what B reads (it runs after the test either way), nothing else to check
                out.append((bi, i, 0))
                out.append((bi, i, 1))
    return out


def a_guard_hoist(fn, bi, i, order):
    o, f = blocks(fn)[bi]
    b = getattr(o, f)
    s = b[i]
    inner = s.body[0]
    vals = [inner.test, copy.deepcopy(s.test)] if order == 0 else [copy.deepcopy(s.test), inner.test]
    flat = []
    for v in vals:
        flat += v.values if isinstance(v, ast.BoolOp) and isinstance(v.op, ast.And) else [v]
    g = ast.copy_location(ast.If(ast.BoolOp(ast.And(), flat), inner.body, []), inner)
    s.body = s.body[1:]
    b.insert(i, g)
    return True


def c_guard_nest(fn, ref):
    """if A and B: <raise/return> ; if B: rest    ->    if B: (if A: <raise/return>) ; rest"""
    out = []
    for bi, (o, f) in enumerate(blocks(fn)):
        b = getattr(o, f)
        for i in range(len(b) - 1):
            g, s = b[i], b[i + 1]
            if isinstance(g, ast.If) and isinstance(s, ast.If) and not g.orelse and not s.orelse and _ends_in_jump(g.body) \
                    and isinstance(g.test, ast.BoolOp) and isinstance(g.test.op, ast.And) and not _has_call(g.test) and not _has_call(s.test):
                bt = ast.unparse(s.test)
                vals = [ast.unparse(v) for v in g.test.values]
                svals = [ast.unparse(v) for v in (s.test.values if isinstance(s.test, ast.BoolOp) and isinstance(s.test.op, ast.And) else [s.test])]
                if all(v in vals for v in svals) and len(svals) < len(vals):
                    out.append((bi, i))
                del bt
    return out


def a_guard_nest(fn, bi, i):
    o, f = blocks(fn)[bi]
    b = getattr(o, f)
    g, s = b[i], b[i + 1]
    svals = [ast.unparse(v) for v in (s.test.values if isinstance(s.test, ast.BoolOp) and isinstance(s.test.op, ast.And) else [s.test])]
    rest = [v for v in g.test.values if ast.unparse(v) not in svals]
    inner = ast.copy_location(ast.If(rest[0] if len(rest) == 1 else ast.BoolOp(ast.And(), rest), g.body, []), g)
    s.body = [inner] + s.body
    del b[i]
    return True


def c_unsuffix_all(fn, ref):
    """All temporaries introduced by helper inlining (`name__hN`) get their plain names back in one step: `name__hN = name` at the top
    level with `name` unused afterwards is dropped and the temporary spelled `name`; any other `x__hN` whose plain name is free is renamed."""
    import re as _re
    if any(_re.search(r"__h\d+$", n) for n in ref["new"]):
        return [()]
    return []


def _drop_self_pairs(st):
    """`a, b = (a, t)` -> `b = t`; `a = a` -> None"""
    tg, v = st.targets[0], st.value
    if isinstance(tg, ast.Name):
        return None if isinstance(v, ast.Name) and v.id == tg.id else st
    pairs = [(a, b) for a, b in zip(tg.elts, v.elts) if not (isinstance(a, ast.Name) and isinstance(b, ast.Name) and a.id == b.id)]
    if not pairs:
        return None
    if len(pairs) == 1:
        return ast.copy_location(ast.Assign([pairs[0][0]], pairs[0][1]), st)
    st.targets = [ast.Tuple([a for a, _ in pairs], ast.Store())]
    st.value = ast.Tuple([b for _, b in pairs], ast.Load())
    return st


def a_unsuffix_all(fn):
    import re as _re
    changed = False

    def count(nodes, name):
        return sum(1 for st in nodes for n in ast.walk(st) if isinstance(n, ast.Name) and n.id == name)

    again = True
    while again:
        again = False
        for o, f in blocks(fn):
            body = getattr(o, f)
            for i, s in enumerate(body):
                if not (isinstance(s, ast.Assign) and len(s.targets) == 1 and isinstance(s.targets[0], ast.Name) and isinstance(s.value, ast.Name)
                        and _re.fullmatch(_re.escape(s.value.id) + r"__h\d+", s.targets[0].id)):
                    continue
                t, x = s.targets[0].id, s.value.id
                total_t = count([fn], t)
                # (a) the plain name is never mentioned again (top level of the function only: no loop can bring control back)
                if o is fn and count(body[i + 1:], x) == 0 and count(body[:i], t) == 0:
                    for st in body[i + 1:]:
                        for n in ast.walk(st):
                            if isinstance(n, ast.Name) and n.id == t:
                                n.id = x
                    del body[i]
                    changed = again = True
                    break
                # (b) the next statement that mentions the plain name copies the temporary back into it, and the temporary dies there
                j = next((k for k in range(i + 1, len(body)) if count([body[k]], x)), None)
                if j is None:
                    continue
                fin = body[j]
                if not (isinstance(fin, ast.Assign) and len(fin.targets) == 1 and count([fin], x) == 1):
                    continue
                tg, v = fin.targets[0], fin.value
                back = (isinstance(tg, ast.Name) and tg.id == x and isinstance(v, ast.Name) and v.id == t) or (
                    isinstance(tg, ast.Tuple) and isinstance(v, ast.Tuple) and len(tg.elts) == len(v.elts)
                    and any(isinstance(a, ast.Name) and a.id == x and isinstance(b, ast.Name) and b.id == t for a, b in zip(tg.elts, v.elts)))
                if not back or count(body[i:j + 1], t) != total_t:
                    continue
                for st in body[i + 1:j + 1]:
                    for n in ast.walk(st):
                        if isinstance(n, ast.Name) and n.id == t:
                            n.id = x
                rep = _drop_self_pairs(fin)
                if rep is None:
                    del body[j]
                else:
                    body[j] = rep
                del body[i]
                if not body:
                    body.append(ast.Pass())
                changed = again = True
                break
            if again:
                break
    names = _names(fn) | {a.arg for n in ast.walk(fn) if isinstance(n, ast.arguments) for a in n.args + n.kwonlyargs + n.posonlyargs}
    for t in sorted(names):
        m = _re.fullmatch(r"(.+)__h\d+", t)
        if m and m.group(1) not in names:
            for n in ast.walk(fn):
                if isinstance(n, ast.Name) and n.id == t:
                    n.id = m.group(1)
            names.add(m.group(1))
            changed = True
    return changed


def c_tail_dup(fn, ref):
    """if c: A else: B ; S   ->   if c: A; S  else: B; S        (S a simple statement; neither arm ends in a jump)"""
    out = []
    for bi, (o, f) in enumerate(blocks(fn)):
        b = getattr(o, f)
        for i in range(len(b) - 1):
            s, t = b[i], b[i + 1]
            if isinstance(s, ast.If) and s.orelse and isinstance(t, (ast.Assign, ast.Expr, ast.AugAssign)) and not isinstance(s.body[-1], JUMPS) and not isinstance(s.orelse[-1], JUMPS):
                out.append((bi, i))
    return out


def a_tail_dup(fn, bi, i):
    o, f = blocks(fn)[bi]
    b = getattr(o, f)
    s, t = b[i], b[i + 1]

    def push(arm):
        last = arm[-1]
        if isinstance(last, ast.If) and last.orelse and not isinstance(last.body[-1], JUMPS) and not isinstance(last.orelse[-1], JUMPS) and len(arm) == 1:
            push(last.body)
            push(last.orelse)
        else:
            arm.append(copy.deepcopy(t))

    push(s.body)
    push(s.orelse)
    del b[i + 1]
    return True


def c_tail_merge(fn, ref):
    out = []
    for bi, (o, f) in enumerate(blocks(fn)):
        for i, s in enumerate(getattr(o, f)):
            if isinstance(s, ast.If) and s.orelse and len(s.body) > 1 and len(s.orelse) > 1 and isinstance(s.body[-1], (ast.Assign, ast.Expr, ast.AugAssign)) \
                    and ast.dump(s.body[-1]) == ast.dump(s.orelse[-1]):
                out.append((bi, i))
            elif isinstance(s, ast.If) and s.orelse and i == len(getattr(o, f)) - 1 and isinstance(s.body[-1], ast.Return) and isinstance(s.orelse[-1], ast.Return) \
                    and ast.dump(s.body[-1]) == ast.dump(s.orelse[-1]):
                out.append((bi, i))
    return out


def a_tail_merge(fn, bi, i):
    o, f = blocks(fn)[bi]
    b = getattr(o, f)
    s = b[i]
    t = s.body.pop()
    s.orelse.pop()
    if not s.body:
        s.body.append(ast.Pass())
    if not s.orelse and False:
        pass
    b.insert(i + 1, t)
    return True


def c_hoist_gone_local(fn, ref):
    """The reference has `name = E` for a local the function no longer has, and E still occurs in the function: re-introduce the local
    right before the first statement that contains E (E call-free apart from pure numpy functions, its inputs not assigned in between)."""
    out = []
    rt = ref.get("ref_tree")
    if rt is None:
        return out
    for nm in sorted(ref["gone"]):
        defs = [n for n in ast.walk(rt) if isinstance(n, ast.Assign) and len(n.targets) == 1 and isinstance(n.targets[0], ast.Name) and n.targets[0].id == nm]
        if len(defs) != 1 or nm in _names(fn):
            continue
        et = ast.unparse(defs[0].value)
        if isinstance(defs[0].value, (ast.Name, ast.Constant)) or not _pure_expr(defs[0].value):
            continue
        for bi, (o, f) in enumerate(blocks(fn)):
            b = getattr(o, f)
            for i, s in enumerate(b):
                if isinstance(s, (ast.Assign, ast.Expr, ast.Return, ast.AugAssign)) and any(ast.unparse(x) == et for x in ast.walk(s) if isinstance(x, ast.expr)):
                    out.append((bi, i, nm, et))
                    break
    return out


def _pure_expr(e):
    for n in ast.walk(e):
        if isinstance(n, ast.Call):
            t = ast.unparse(n.func)
            if not (t.startswith("np.") and t.split(".")[-1] in ("sqrt", "abs", "exp", "log", "sin", "cos", "power", "square", "asarray", "prod", "sum", "size", "isclose", "logical_and", "logical_or", "logical_not")):
                return False
    return True


def a_hoist_gone_local(fn, bi, i, nm, et):
    o, f = blocks(fn)[bi]
    b = getattr(o, f)
    expr = None

    class R(ast.NodeTransformer):
        def generic_visit(self, node):
            nonlocal expr
            if isinstance(node, ast.expr) and ast.unparse(node) == et:
                if expr is None:
                    expr = node
                return ast.Name(nm, ast.Load())
            return super().generic_visit(node)

    inputs = None
    j = i
    while j < len(b):
        if inputs is not None and any(isinstance(x, ast.Name) and isinstance(x.ctx, (ast.Store, ast.Del)) and x.id in inputs for x in ast.walk(b[j])):
            break
        b[j] = R().visit(b[j])
        if inputs is None and expr is not None:
            inputs = _names(expr)
            if any(isinstance(x, ast.Name) and isinstance(x.ctx, (ast.Store, ast.Del)) and x.id in inputs for x in ast.walk(b[j])):
                j += 1
                break
        j += 1
    if expr is None:
        return False
    b.insert(i, ast.Assign([ast.Name(nm, ast.Store())], expr))
    return True


REWRITES = [
    ("rename", c_rename, a_rename),
    ("else-hoist", c_else_hoist, a_else_hoist),
    ("else-unhoist", c_else_unhoist, a_else_unhoist),
    ("swap-arms", c_swap_arms, a_swap_arms),
    ("retvar-intro", c_retvar_intro, a_retvar_intro),
    ("retvar-elim", c_retvar_elim, a_retvar_elim),
    ("tuple-split", c_tuple_split, a_tuple_split),
    ("tuple-merge", c_tuple_merge, a_tuple_merge),
    ("unpack-call", c_unpack_call, a_unpack_call),
    ("nested-merge", c_nested_merge, a_nested_merge),
    ("nested-split", c_nested_split, a_nested_split),
    ("continue-to-if", c_continue_to_if, a_continue_to_if),
    ("if-to-continue", c_if_to_continue, a_if_to_continue),
    ("early-return-to-if", c_early_return_to_if, a_early_return_to_if),
    ("if-to-early-return", c_if_to_early_return, a_if_to_early_return),
    ("drop-tail-return", c_drop_tail_return, a_drop_tail_return),
    ("loop-to-comp", c_loop_to_comp, a_loop_to_comp),
    ("comp-to-loop", c_comp_to_loop, a_comp_to_loop),
    ("ret-ifexp-split", c_ret_ifexp_split, a_ret_ifexp_split),
    ("ret-ifexp-merge", c_ret_ifexp_merge, a_ret_ifexp_merge),
    ("swap-stmts", c_swap_stmts, a_swap_stmts),
    ("or-merge", c_or_merge, a_or_merge),
    ("or-split", c_or_split, a_or_split),
    ("same-test-merge", c_same_test_merge, a_same_test_merge),
    ("same-test-split", c_same_test_split, a_same_test_split),
    ("move-stmt", c_move_stmt, a_move_stmt),
    ("ifexp-to-if", c_ifexp_to_if, a_ifexp_to_if),
    ("if-to-ifexp", c_if_to_ifexp, a_if_to_ifexp),
    ("flag-into-arms", c_flag_into_arms, a_flag_into_arms),
    ("temp-into-source", c_temp_into_source, a_temp_into_source),
    ("unsuffix-all", c_unsuffix_all, a_unsuffix_all),
    ("guard-hoist", c_guard_hoist, a_guard_hoist),
    ("guard-nest", c_guard_nest, a_guard_nest),
    ("tail-dup", c_tail_dup, a_tail_dup),
    ("tail-merge", c_tail_merge, a_tail_merge),
    ("hoist-gone-local", c_hoist_gone_local, a_hoist_gone_local),
]


BUDGET = 500  # candidate rewrites evaluated per function (each costs a copy + unparse of the function)
# look-ahead: first steps that do not themselves recover reference lines but enable a second step that does
ENABLERS = {"tail-dup", "flag-into-arms", "ifexp-to-if", "else-unhoist", "else-hoist", "swap-arms", "ret-ifexp-split", "early-return-to-if", "if-to-early-return", "continue-to-if", "if-to-continue", "nested-merge", "nested-split"}
FOLLOWERS = {
    "tail-dup": None,
    "flag-into-arms": {"move-stmt", "swap-arms", "swap-stmts"},
    "ifexp-to-if": {"swap-arms"},
    "else-unhoist": {"retvar-intro", "drop-tail-return", "swap-arms", "else-unhoist"},
    "else-hoist": {"retvar-elim", "ret-ifexp-merge", "else-hoist"},
    "swap-arms": {"else-hoist", "else-unhoist", "retvar-intro"},
    "ret-ifexp-split": {"else-unhoist", "retvar-intro"},
    "early-return-to-if": {"drop-tail-return", "early-return-to-if", "swap-arms"},
    "if-to-early-return": {"if-to-early-return", "else-hoist"},
    "continue-to-if": {"continue-to-if", "nested-merge"},
    "if-to-continue": {"if-to-continue", "nested-split"},
    "nested-merge": {"nested-merge", "swap-arms"},
    "nested-split": {"nested-split", "swap-arms"},
}


def local_names(fn):
    out = set()
    for n in ast.walk(fn):
        if isinstance(n, ast.Name) and isinstance(n.ctx, (ast.Store, ast.Del)):
            out.add(n.id)
        elif isinstance(n, ast.arg):
            out.add(n.arg)
    return out


def search(fn, ref_text, ref_locals, max_steps=24, lookahead=True):
    """Greedy (with one step of look-ahead) descent on the distance to the reference.  Returns (new fn or None, [applied rewrites])."""
    target = signature(ref_text)
    cur = fn
    cur_d = dist(signature(signature_text(cur)), target)
    if cur_d == (0, 0):
        return None, []
    applied = []

    budget = [BUDGET]

    try:
        ref_tree = ast.parse(ref_text)
    except SyntaxError:
        ref_tree = None

    def options(f, only=None):
        loc = local_names(f)
        ref = {"new": loc - set(ref_locals), "gone": set(ref_locals) - loc, "ref_tree": ref_tree}
        res = []
        for name, cands, app in REWRITES:
            if only is not None and name not in only:
                continue
            for args in cands(f, ref):
                if budget[0] <= 0:
                    return res
                budget[0] -= 1
                g = copy.deepcopy(f)
                try:
                    ok = app(g, *args)
                except (IndexError, AttributeError, TypeError):
                    ok = False
                if not ok:
                    continue
                ast.fix_missing_locations(g)
                try:
                    d = dist(signature(signature_text(g)), target)
                except Exception:
                    continue
                res.append((d, name, args, g))
        return res

    for _ in range(max_steps):
        opts = options(cur)
        if not opts:
            break
        opts.sort(key=lambda x: (x[0], x[1], repr(x[2])))
        best = opts[0]
        if best[0][0] < cur_d[0] or (best[0][0] == cur_d[0] and best[0][1] < cur_d[1] and best[1] in ('drop-tail-return',)):
            cur, cur_d = best[3], best[0]
            applied.append("%s%s" % (best[1], best[2]))
            if cur_d == (0, 0):
                break
            continue
        if not lookahead:
            break
        # one step of look-ahead: a pair of rewrites that together improve (e.g. unhoist then return-variable)
        found = None
        for d1, n1, a1, g1 in [o for o in opts if o[1] in ENABLERS][:8]:
            if d1[0] > cur_d[0] + 6 or budget[0] <= 0:
                continue
            o2 = options(g1, FOLLOWERS.get(n1))
            if not o2:
                continue
            o2.sort(key=lambda x: (x[0], x[1], repr(x[2])))
            if o2[0][0][0] < cur_d[0] and (found is None or o2[0][0] < found[0]):
                found = (o2[0][0], ["%s%s" % (n1, a1), "%s%s" % (o2[0][1], o2[0][2])], o2[0][3])
        if found is None:
            break
        cur_d, names, cur = found
        applied += names
        if cur_d == (0, 0):
            break
    if not applied:
        return None, []
    return cur, applied
