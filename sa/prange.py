"""E9 PRANGE: ownership / privatisation / locality analysis of Cython parallel loops."""
import ast

from .loader import AnalysisError, norm_stmt


def is_prange(node):
    return (
        isinstance(node, ast.For)
        and isinstance(node.iter, ast.Call)
        and isinstance(node.iter.func, ast.Name)
        and node.iter.func.id == "prange"
    )


def is_parallel_with(node):
    if not isinstance(node, ast.With):
        return False
    for it in node.items:
        e = it.context_expr
        if isinstance(e, ast.Call) and isinstance(e.func, ast.Name) and e.func.id == "parallel":
            return True
    return False


def index_elts(sub):
    sl = sub.slice
    if isinstance(sl, ast.Tuple):
        return list(sl.elts)
    return [sl]


def base_name(sub):
    v = sub.value
    while isinstance(v, ast.Subscript):
        v = v.value
    return v.id if isinstance(v, ast.Name) else None


class KernelFn:
    def __init__(self, mod, name, node):
        self.mod = mod
        self.name = name
        self.node = node
        self.info = mod.pyx.functions.get(name)
        if self.info is None:
            raise AnalysisError("no side-table entry for kernel function %s" % name)
        self.types = dict(self.info["locals"])
        for p in self.info["params"]:
            self.types[p["name"]] = p["type"]
        self.params = [p["name"] for p in self.info["params"]]

    def is_mv(self, name):
        t = self.types.get(name)
        return bool(t and "[" in t)

    def is_scalar(self, name):
        t = self.types.get(name)
        return bool(t and "[" not in t)


def stores_in(stmts):
    """yield (stmt, target Subscript/Name, is_aug) for every store in stmts (recursive)."""
    for st in stmts:
        for node in ast.walk(st):
            if isinstance(node, ast.Assign):
                for t in node.targets:
                    for tt in (t.elts if isinstance(t, ast.Tuple) else [t]):
                        yield node, tt, False
            elif isinstance(node, ast.AugAssign):
                yield node, node.target, True
            elif isinstance(node, ast.For):
                for tt in (node.target.elts if isinstance(node.target, ast.Tuple) else [node.target]):
                    yield node, tt, False


def loads_of(stmts, arr):
    """All Subscript nodes reading array `arr` (Load ctx or aug-assign target) in stmts."""
    out = []
    for st in stmts:
        for node in ast.walk(st):
            if isinstance(node, ast.Subscript) and base_name(node) == arr:
                if isinstance(node.ctx, ast.Load):
                    out.append(node)
            if isinstance(node, ast.AugAssign) and isinstance(node.target, ast.Subscript) and base_name(node.target) == arr:
                out.append(node.target)
    return out


def p_positions(sub, p):
    return tuple(i for i, e in enumerate(index_elts(sub)) if isinstance(e, ast.Name) and e.id == p)


# ------------------------------------------------------------------ definite assignment of scalars
def scalar_discipline(kfn, loop, pvar):
    """(c): every C scalar assigned in the prange body is plainly assigned before any read / op=.

    Returns list of (name, stmt, reason) problems; and the set of scalars checked.
    """
    assigned_in_body = set()
    for st, tgt, aug in stores_in(loop.body):
        if isinstance(tgt, ast.Name):
            assigned_in_body.add(tgt.id)
    problems = []

    def reads(expr, defined, stmt):
        for n in ast.walk(expr):
            if isinstance(n, ast.Name) and isinstance(n.ctx, ast.Load) and n.id in assigned_in_body and n.id not in defined:
                problems.append((n.id, stmt, "read before a plain assignment in the parallel iteration"))

    def walk(stmts, defined):
        defined = set(defined)
        for st in stmts:
            if isinstance(st, ast.Assign):
                reads(st.value, defined, st)
                for t in st.targets:
                    if isinstance(t, ast.Name):
                        defined.add(t.id)
                    else:
                        reads(t, defined, st)
            elif isinstance(st, ast.AugAssign):
                reads(st.value, defined, st)
                if isinstance(st.target, ast.Name):
                    if st.target.id in assigned_in_body and st.target.id not in defined:
                        problems.append((st.target.id, st, "in-place update (OpenMP reduction) without a prior plain assignment"))
                else:
                    reads(st.target, defined, st)
            elif isinstance(st, ast.For):
                reads(st.iter, defined, st)
                inner = set(defined)
                if isinstance(st.target, ast.Name):
                    inner.add(st.target.id)
                walk(st.body, inner)
                # 0..n iterations: nothing new is definitely assigned afterwards
            elif isinstance(st, ast.If):
                reads(st.test, defined, st)
                d1 = walk(st.body, defined)
                d2 = walk(st.orelse, defined) if st.orelse else set(defined)
                defined = d1 & d2
            elif isinstance(st, (ast.Expr, ast.Return)):
                if st.value is not None:
                    reads(st.value, defined, st)
            elif isinstance(st, (ast.Continue, ast.Break, ast.Pass)):
                pass
            elif isinstance(st, ast.With):
                defined = walk(st.body, defined)
            else:
                raise AnalysisError("prange body: unsupported statement %s" % type(st).__name__)
        return defined

    walk(loop.body, {pvar})
    return problems, assigned_in_body


def find_pranges(kfn):
    """yield (prange For node, enclosing parallel With or None, chain of enclosing sequential For loops)."""
    def rec(stmts, par, chain):
        for st in stmts:
            if is_prange(st):
                yield st, par, list(chain)
                # nested pranges are not used; still descend
                yield from rec(st.body, par, chain + [st])
            elif isinstance(st, ast.For):
                yield from rec(st.body, par, chain + [st])
                yield from rec(st.orelse, par, chain)
            elif isinstance(st, ast.With):
                yield from rec(st.body, st if is_parallel_with(st) else par, chain if not is_parallel_with(st) else [])
            elif isinstance(st, ast.If):
                yield from rec(st.body, par, chain)
                yield from rec(st.orelse, par, chain)
            elif isinstance(st, ast.Try):
                yield from rec(st.body, par, chain)

    yield from rec(kfn.node.body, None, [])


def analyse_loop(kfn, loop, par, site, ctx, rule="R15.1"):
    """Apply (a)-(d) to one prange loop; records obligations on ctx."""
    if not isinstance(loop.target, ast.Name):
        ctx.undecided(rule, site, "prange target is not a simple name")
        return
    p = loop.target.id
    written = {}
    # (a) ownership of every memoryview store
    for st, tgt, aug in stores_in(loop.body):
        if isinstance(tgt, ast.Subscript):
            arr = base_name(tgt)
            if arr is None:
                ctx.undecided(rule, site, "store to non-name base: %s" % norm_stmt(st))
                continue
            if not kfn.is_mv(arr):
                ctx.undecided(rule, site, "store to subscript of undeclared/non-memoryview %r" % arr)
                continue
            pos = p_positions(tgt, p)
            written.setdefault(arr, set()).add(pos)
            ctx.check(
                bool(pos),
                rule,
                site,
                "(a) store %s is owned by parallel index %r" % (ast.unparse(tgt), p),
                "a:" + norm_stmt(st),
            )
    # (b) arrays written are read only at the owning position
    for arr, poss in written.items():
        for ld in loads_of(loop.body, arr):
            lp = p_positions(ld, p)
            ctx.check(
                bool(lp) and all(lp == w for w in poss),
                rule,
                site,
                "(b) read %s of written array uses the owner's index position" % ast.unparse(ld),
                "b:" + ast.unparse(ld),
            )
    # (c) scalar privatisation
    problems, scalars = scalar_discipline(kfn, loop, p)
    bad = {n for n, _, _ in problems}
    for name in sorted(scalars):
        if name in bad:
            for n, st, why in problems:
                if n == name:
                    ctx.violation(rule, site, "(c) scalar %r: %s (%s)" % (name, why, norm_stmt(st)[:80]), "c:%s:%s" % (name, why))
        else:
            ctx.ok(rule, site, "(c) scalar %r is assigned before use in every parallel iteration (private)" % name)
    # undeclared names assigned in the loop (python objects under nogil would not compile; flag)
    for name in sorted(scalars):
        if name not in kfn.types:
            ctx.undecided(rule, site, "name %r assigned in prange body has no cdef declaration" % name)
    # nowait / schedule kwargs
    kws = {k.arg: k.value for k in loop.iter.keywords}
    ctx.check(
        "nowait" not in kws or (isinstance(kws["nowait"], ast.Constant) and not kws["nowait"].value),
        rule,
        site,
        "(d) prange is not nowait",
        "d:nowait",
    )
    # num_threads plumbing
    src = par if par is not None else loop
    if par is not None:
        nt = None
        for it in par.items:
            e = it.context_expr
            if isinstance(e, ast.Call) and getattr(e.func, "id", None) == "parallel":
                nt = {k.arg: k.value for k in e.keywords}.get("num_threads")
    else:
        nt = kws.get("num_threads")
    ok = False
    if isinstance(nt, ast.Name):
        # must be assigned from set_num_threads(num_threads)
        for n in ast.walk(kfn.node):
            if isinstance(n, ast.Assign) and any(isinstance(t, ast.Name) and t.id == nt.id for t in n.targets):
                v = n.value
                ok = (
                    isinstance(v, ast.Call)
                    and getattr(v.func, "id", None) == "set_num_threads"
                    and len(v.args) == 1
                    and isinstance(v.args[0], ast.Name)
                    and v.args[0].id == "num_threads"
                )
    ctx.check(ok, rule, site, "thread count of the parallel region is set_num_threads(num_threads)", "threads")
    del src
    # (d) inside parallel(): nothing but private scalars written outside the prange
    if par is not None:
        def outside(stmts):
            for st in stmts:
                if st is loop:
                    continue
                if isinstance(st, ast.For):
                    yield st, True
                    yield from outside(st.body)
                else:
                    yield st, False
        for st, is_for in outside(par.body):
            if is_for:
                ctx.check(isinstance(st.target, ast.Name) and kfn.is_scalar(st.target.id), rule, site,
                          "(d) sequential loop variable %s inside parallel() is a private C scalar" % ast.unparse(st.target), "d:loopvar")
                continue
            for s2, tgt, aug in stores_in([st]):
                ctx.check(
                    isinstance(tgt, ast.Name) and kfn.is_scalar(tgt.id) and not aug,
                    rule,
                    site,
                    "(d) statement outside the work-sharing loop writes only private scalars: %s" % norm_stmt(s2)[:70],
                    "d:" + norm_stmt(s2),
                )
    # called in-module helpers must be pure w.r.t. memoryviews
    for node in ast.walk(loop):
        if isinstance(node, ast.Call) and isinstance(node.func, ast.Name):
            callee = kfn.mod.functions.get(node.func.id)
            if callee is not None:
                ck = KernelFn(kfn.mod, node.func.id, callee)
                st_params = [
                    ast.unparse(t) for _, t, _ in stores_in(callee.body) if isinstance(t, ast.Subscript) and base_name(t) in ck.params
                ]
                ctx.check(not st_params and ck.info["nogil"], rule, site,
                          "helper %s called in the parallel region is nogil and stores to none of its array parameters" % node.func.id,
                          "helper:" + node.func.id)
