E = "variogram/estimator.pyx"
V = "variogram/variogram.py"
CASES = [
    dict(name="absolute-position-in-distance", file=E, expect="R09.1",
         old="        dist_squared += ((pos[d, i] - pos[d, j]) * (pos[d, i] - pos[d, j]))", new="        dist_squared += ((pos[d, i] - pos[d, j]) * (pos[d, i] - pos[d, j])) + 0.0 * pos[d, i]"),
    dict(name="absolute-field-value", file=E, expect=["R09.1", "R08.3"], old="                        variogram[i] += estimator_func(f[m, k] - f[m, j])", new="                        variogram[i] += estimator_func(f[m, k] - 0.5 * f[m, j])", accept_undecided=True),
    dict(name="dirtest-absolute-position", file=E, expect="R09.1", old="        s_prod += (pos[k, i] - pos[k, j]) * direction[d, k]", new="        s_prod += pos[k, i] * direction[d, k]"),
    dict(name="subsample-field-only", file=V, expect="R09.2", old="        field = field[:, sampled_idx]\n        pos = pos[:, sampled_idx]", new="        field = field[:, sampled_idx]\n        pos = pos[:, : len(sampled_idx)]"),
    dict(name="mask-select-pos-only", file=V, expect="R09.2", old="        field = field[:, select].filled()  # convert to ndarray", new="        field = field.filled()[:, : np.sum(select)]  # convert to ndarray"),
    dict(name="pnt-cnt-not-refreshed", file=V, expect="R09.2", old="        pnt_cnt = len(pos[0])  # pnt cnt reduced now\n", new=""),
    dict(name="masked-filled-with-zero", file=V, expect="R09.2", old="        field.fill_value = np.nan  # use no-data val. for remaining masked vals", new="        field.fill_value = 0.0  # use no-data val. for remaining masked vals"),
    dict(name="common-mask-any", file=V, expect="R09.2", old="            select = np.invert(np.all(field.mask, axis=0))", new="            select = np.invert(np.any(field.mask, axis=0))"),
    dict(name="no-copy", file=V, expect="R09.2", old="    field = np.ma.array(field, ndmin=2, dtype=np.double, copy=True)", new="    field = np.ma.array(field, ndmin=2, dtype=np.double)"),
    dict(name="normalise-before-sampling", file=V, expect="R09.2",
         old="""    # prepare sampled variogram
    if sampling_size is not None and sampling_size < pnt_cnt:""",
         new="""    field = remove_trend_norm_mean(*(pos, field, mean, None, trend), check_shape=False, stacked=True)
    # prepare sampled variogram
    if sampling_size is not None and sampling_size < pnt_cnt:""", accept_undecided=True),
    dict(name="struct-no-grid", file=V, expect="R09.2", old="        pos = generate_grid(pos)\n    else:\n        pos, __, dim = format_unstruct_pos_shape(", new="        pos = np.asarray(pos)\n    else:\n        pos, __, dim = format_unstruct_pos_shape("),
    dict(name="sampling-with-replacement", file=V, expect="R09.3", old="            np.arange(pnt_cnt), sampling_size, replace=False", new="            np.arange(pnt_cnt), sampling_size, replace=True"),
    dict(name="sampling-unseeded", file=V, expect="R09.3", old="        sampled_idx = np.random.RandomState(sampling_seed).choice(", new="        sampled_idx = np.random.choice("),
    dict(name="sampling-seed-ignored", file=V, expect="R09.3", old="        sampled_idx = np.random.RandomState(sampling_seed).choice(", new="        sampled_idx = np.random.RandomState(None).choice("),
    dict(name="directions-not-normalised", file=V, expect="R09.4", old="        direction = np.divide(direction, norms[:, np.newaxis])\n", new=""),
    dict(name="bandwidth-default-zero", file=V, expect="R09.4", old="        bandwidth = float(bandwidth) if bandwidth is not None else -1.0", new="        bandwidth = float(bandwidth) if bandwidth is not None else 1.0"),
    dict(name="separated-single-tolerance", file=V, expect="R09.4", old="            separate_dirs &= np.arccos(s_prod) >= 2 * angles_tol", new="            separate_dirs &= np.arccos(s_prod) >= angles_tol"),
    dict(name="separate-flag-constant", file=V, expect="R09.4", old="            separate_dirs=_separate_dirs_test(direction, angles_tol),", new="            separate_dirs=True,"),
    dict(name="meshgrid-xy", file="tools/geometric.py", expect="R09.5", old='        np.meshgrid(*pos, indexing="ij"), dtype=np.double', new='        np.meshgrid(*pos, indexing="xy"), dtype=np.double'),
    dict(name="twin-selection-order", kind="twin", file=V, old="        field = field[:, sampled_idx]\n        pos = pos[:, sampled_idx]", new="        pos = pos[:, sampled_idx]\n        field = field[:, sampled_idx]"),
    dict(name="ang2dir-cos-index", file="tools/geometric.py", expect="R09.7", old="        vec[:, i] *= np.cos(angles[:, (i - 1)])", new="        vec[:, i] *= np.cos(angles[:, i - 2])"),
    dict(name="ang2dir-first-component-cos", file="tools/geometric.py", expect="R09.7", old="    vec[:, 0] = np.prod(np.sin(angles), axis=1)", new="    vec[:, 0] = np.prod(np.cos(angles), axis=1)"),
    dict(name="ang2dir-swap-in-4d", file="tools/geometric.py", expect="R09.7", old="    if dim in [2, 3]:\n        vec[:, [0, 1]] = vec[:, [1, 0]]", new="    if dim in [2, 3, 4]:\n        vec[:, [0, 1]] = vec[:, [1, 0]]"),
    dict(name="ang2dir-loop-from-zero", file="tools/geometric.py", expect="R09.7", old="    for i in range(1, dim):\n        vec[:, i] = np.prod(np.sin(angles[:, i:]), axis=1)", new="    for i in range(2, dim):\n        vec[:, i] = np.prod(np.sin(angles[:, i:]), axis=1)", accept_undecided=True),
    dict(name="twin-ang2dir-one-statement", kind="twin", file="tools/geometric.py",
         old="        vec[:, i] = np.prod(np.sin(angles[:, i:]), axis=1)  # empty prod = 1\n        vec[:, i] *= np.cos(angles[:, (i - 1)])",
         new="        vec[:, i] = np.prod(np.sin(angles[:, i:]), axis=1) * np.cos(angles[:, i - 1])"),
]
