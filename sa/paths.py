"""E2/E4: path-sensitive abstract interpretation of methods (predicate abstraction with exhaustive atom enumeration).

A method is walked once per feasible truth assignment of the atoms of its branch conditions (atoms are the
leaves of and/or/not; names in an atom are replaced by the identity of the value they hold, so the same
predicate tested in a caller and in an inlined callee is one atom).  Along each path the interpreter keeps

  ver[field]   the version of every object field ('entry', 'param:<p>', or a fresh write token)
  tags[field]  the (source field, version) pairs the value last stored in the field was computed from

No values are computed and no solver is used; loops are taken 0 and 1 times; calls to methods of the
object that (transitively) write fields are inlined up to a depth bound.
"""
import ast
import itertools

from .loader import AnalysisError, ClassInfo, norm_stmt

IDENT_PRESERVING = {"dcp", "deepcopy", "copy", "copy.copy", "copy.deepcopy", "int", "float", "str", "bool"}
MAX_DEPTH = 5
MAX_PATHS = 100000


class Val:
    __slots__ = ("deps", "ident")

    def __init__(self, deps=(), ident=None):
        self.deps = frozenset(deps)
        self.ident = ident

    def __repr__(self):
        return "Val(%s,%s)" % (sorted(map(str, self.deps)), self.ident)


class Path:
    """Mutable state along one path (copied at forks)."""

    def __init__(self):
        self.assign = {}  # atom -> bool
        self.ver = {}  # field -> version (missing = 'entry')
        self.tags = {}  # field -> frozenset of deps captured at the last write
        self.events = []  # (kind, name, detail, stmt_text)
        self.counter = 0
        self.decisions = []  # readable (test text, outcome)
        self.raised = False

    def copy(self):
        p = Path()
        p.assign = dict(self.assign)
        p.ver = dict(self.ver)
        p.tags = dict(self.tags)
        p.events = list(self.events)
        p.counter = self.counter
        p.decisions = list(self.decisions)
        p.raised = self.raised
        return p

    def version(self, field):
        return self.ver.get(field, "entry")

    def fresh(self, lineno):
        self.counter += 1
        return "w%d@L%s" % (self.counter, lineno)


class Frame:
    def __init__(self, fn, ci, env, selfnames, depth, qual):
        self.fn, self.ci, self.env, self.selfnames, self.depth, self.qual = fn, ci, env, selfnames, depth, qual
        self.retval = None


class Explorer:
    def __init__(self, prog, ci, pseudo=None, extra_self_funcs=None, inline_filter=None):
        """ci: class under analysis (methods resolved along its MRO).
        pseudo: {attr name: canonical field}   e.g. {'model': '_model'} for property getters returning a field
        extra_self_funcs: {function name: (module, FunctionDef)} module-level helpers receiving the object first
        """
        self.prog = prog
        self.ci = ci
        self.pseudo = dict(pseudo or {})
        self.extra = dict(extra_self_funcs or {})
        self.inline_filter = inline_filter
        self.paths_explored = 0
        self._writers = {}
        # simple getters `return self._x` are field reads
        for c in ci.mro():
            for name, g in c.getters.items():
                body = [s for s in g.body if not (isinstance(s, ast.Expr) and isinstance(s.value, ast.Constant))]
                if len(body) == 1 and isinstance(body[0], ast.Return) and isinstance(body[0].value, ast.Attribute) and isinstance(body[0].value.value, ast.Name) and body[0].value.value.id == "self":
                    self.pseudo.setdefault(name, body[0].value.attr)

    # ------------------------------------------------------------------ public API
    def explore(self, fn, qual, param_vals=None, assume=None, init_ver=None):
        """Return list of (Path, exit_kind) for all feasible paths of method `fn` ('normal' | 'raise')."""
        env = {}
        args = fn.args
        names = [a.arg for a in args.posonlyargs + args.args + args.kwonlyargs]
        selfnames = set()
        for i, n in enumerate(names):
            if i == 0 and n in ("self", "model", "cls") and (n == "self" or fn.name in self.extra):
                env[n] = Val(ident="self")
                selfnames.add(n)
            else:
                env[n] = (param_vals or {}).get(n, Val(deps=[("param", n)], ident="param:" + n))
        if args.vararg:
            env[args.vararg.arg] = Val(deps=[("param", args.vararg.arg)])
        if args.kwarg:
            env[args.kwarg.arg] = Val(deps=[("param", args.kwarg.arg)])
        frame = Frame(fn, self.ci, env, selfnames, 0, qual)
        out = []
        self.paths_explored = 0
        start = Path()
        start.assign.update(assume or {})
        start.ver.update(init_ver or {})
        for p, kind in self._block_s(fn.body, start, frame):
            out.append((p, "normal" if kind in ("fall", "return") else kind))
            self.paths_explored += 1
            if self.paths_explored > MAX_PATHS:
                raise AnalysisError("path explosion in %s" % qual)
        return out

    # ------------------------------------------------------------------ statements
    def block(self, stmts, path, frame):
        """Generator of (Path, kind) with kind in fall | return | raise | break | continue."""
        if not stmts:
            yield path, "fall"
            return
        first, rest = stmts[0], stmts[1:]
        for p, kind in self.stmt(first, path, frame):
            if kind == "fall":
                yield from self.block(rest, p, frame)
            else:
                yield p, kind

    def stmt(self, st, path, frame):
        if isinstance(st, ast.Expr) and isinstance(st.value, ast.Constant):
            yield path, "fall"
            return
        if (isinstance(st, ast.Assign) and len(st.targets) == 1 and isinstance(st.targets[0], ast.Name)
                and self.is_bool_expr(st.value)):
            # boolean local (`new_model = isinstance(model, CovModel) and self.model != model`): decide it here,
            # so later tests of the flag stay correlated with the atoms it was computed from
            for p, outcome in self.decide_test(st.value, path, frame, st):
                if p.raised:
                    yield p, "raise"
                    continue
                frame.env[st.targets[0].id] = Val(ident=("const", "True" if outcome else "False"))
                yield p, "fall"
            return
        if isinstance(st, (ast.Assign, ast.AnnAssign, ast.AugAssign, ast.Expr)):
            value = st.value
            for p, val in self.ev(value, path, frame, st):
                if p.raised:
                    yield p, "raise"
                    continue
                if isinstance(st, ast.Assign):
                    for t in st.targets:
                        self.assign(t, val, p, frame, st)
                elif isinstance(st, ast.AnnAssign) and st.value is not None:
                    self.assign(st.target, val, p, frame, st)
                elif isinstance(st, ast.AugAssign):
                    cur = list(self.ev(st.target if not isinstance(st.target, ast.Name) else ast.Name(st.target.id, ast.Load()), p, frame, st))
                    base = cur[0][1] if cur else Val()
                    self.assign(st.target, Val(val.deps | base.deps), p, frame, st)
                yield p, "fall"
            return
        if isinstance(st, ast.Return):
            if st.value is None:
                frame.retval = Val()
                yield path, "return"
            else:
                for p, val in self.ev(st.value, path, frame, st):
                    if p.raised:
                        yield p, "raise"
                        continue
                    p._ret = val
                    yield p, "return"
            return
        if isinstance(st, ast.Raise):
            yield path, "raise"
            return
        if isinstance(st, ast.If):
            for p, outcome in self.decide(st.test, path, frame, st):
                yield from self.block(st.body if outcome else st.orelse, p, frame)
            return
        if isinstance(st, (ast.For, ast.While)):
            if isinstance(st, ast.For):
                starts = list(self.ev(st.iter, path, frame, st))
            else:
                starts = [(path, Val())]
            for p0, itv in starts:
                # zero iterations
                yield p0.copy(), "fall"
                # one iteration
                p1 = p0.copy()
                if isinstance(st, ast.For):
                    self.assign(st.target, Val(itv.deps), p1, frame, st)
                for p, kind in self.block(st.body, p1, frame):
                    if kind in ("fall", "continue", "break"):
                        yield p, "fall"
                    else:
                        yield p, kind
            return
        if isinstance(st, ast.With):
            yield from self.block(st.body, path, frame)
            return
        if isinstance(st, ast.Try):
            for p, kind in self.block(st.body + st.orelse + st.finalbody, path, frame):
                yield p, kind
            return
        if isinstance(st, (ast.Pass, ast.Import, ast.ImportFrom, ast.Global, ast.Nonlocal, ast.Assert, ast.Delete, ast.FunctionDef, ast.ClassDef)):
            if isinstance(st, ast.Delete):
                for t in st.targets:
                    path.events.append(("del", ast.unparse(t), "", norm_stmt(st)))
            yield path, "fall"
            return
        if isinstance(st, ast.Break):
            yield path, "break"
            return
        if isinstance(st, ast.Continue):
            yield path, "continue"
            return
        raise AnalysisError("paths: unsupported statement %s in %s" % (type(st).__name__, frame.qual))

    @staticmethod
    def is_bool_expr(e):
        if isinstance(e, ast.BoolOp):
            return all(Explorer.is_bool_expr(v) for v in e.values)
        if isinstance(e, ast.UnaryOp) and isinstance(e.op, ast.Not):
            return True
        if isinstance(e, ast.Compare):
            return all(isinstance(op, (ast.Is, ast.IsNot, ast.Eq, ast.NotEq, ast.In, ast.NotIn)) for op in e.ops)
        if isinstance(e, ast.Call) and isinstance(e.func, ast.Name) and e.func.id in ("isinstance", "callable", "hasattr"):
            return True
        return False

    # ------------------------------------------------------------------ assignment
    def is_self(self, node, frame):
        return isinstance(node, ast.Name) and node.id in frame.env and frame.env[node.id].ident == "self"

    def assign(self, t, val, path, frame, st):
        if isinstance(t, ast.Name):
            frame.env[t.id] = val
            frame.env["#" + t.id] = Val(ident=str(getattr(frame, "_cnt", 0)))
            return
        if isinstance(t, (ast.Tuple, ast.List)):
            for tt in t.elts:
                self.assign(tt, Val(val.deps), path, frame, st)
            return
        if isinstance(t, ast.Attribute) and self.is_self(t.value, frame):
            attr = t.attr
            setter = frame.ci.find(attr, "setters")[1] if frame.ci else None
            if setter is not None and self.inline_filter is None:
                raise AnalysisError("paths: property store self.%s in an unsupported position (%s)" % (attr, frame.qual))
            self.write_field(attr, val, path, st, frame)
            return
        if isinstance(t, ast.Subscript):
            # self._opt_arg_bounds[arg] = bounds  -> write to the container field
            base = t.value
            if isinstance(base, ast.Attribute) and self.is_self(base.value, frame):
                self.write_field(base.attr, Val(val.deps | frozenset([(base.attr, path.version(base.attr))])), path, st, frame, partial=True)
            elif isinstance(base, ast.Name) and base.id in frame.env:
                cur = frame.env[base.id]
                frame.env[base.id] = Val(cur.deps | val.deps, cur.ident)
            return
        if isinstance(t, ast.Attribute):
            # store on another object (param.attr = v): event
            path.events.append(("store-other", ast.unparse(t), "", norm_stmt(st)))
            return

    def write_field(self, attr, val, path, st, frame, partial=False):
        if val.ident is not None and isinstance(val.ident, tuple) and val.ident[0] == "field" and val.ident[1] == attr and val.ident[2] == path.version(attr):
            # storing the field's own current value: no new version
            path.events.append(("write-same", attr, "", norm_stmt(st)))
            return
        if isinstance(val.ident, str) and val.ident.startswith("param:"):
            new = val.ident
        elif isinstance(val.ident, tuple) and val.ident[0] == "field":
            new = "copy-of:%s@%s" % (val.ident[1], val.ident[2])
        else:
            new = path.fresh(getattr(st, "lineno", "?"))
        path.ver[attr] = new
        path.tags[attr] = frozenset(val.deps)
        path.events.append(("write", attr, new, norm_stmt(st)))

    # ------------------------------------------------------------------ expressions (generator: may fork on IfExp / inlined calls)
    def ev(self, e, path, frame, st):
        """yield (path, Val) - usually exactly one."""
        yield from self._ev(e, path, frame, st)

    def _ev(self, e, path, frame, st):
        if e is None or isinstance(e, ast.Constant):
            yield path, Val(ident=("const", repr(getattr(e, "value", None))))
            return
        if isinstance(e, ast.Name):
            yield path, frame.env.get(e.id, Val())
            return
        if isinstance(e, ast.Attribute):
            if self.is_self(e.value, frame):
                attr = e.attr
                field = self.pseudo.get(attr)
                ci = frame.ci
                if field is None and ci is not None and ci.find(attr, "getters")[1] is not None:
                    # computed property: depends on the fields its getter reads (transitively)
                    deps = set()
                    for f in self.getter_reads(attr, ci):
                        deps.add((f, path.version(f)))
                    yield path, Val(deps)
                    return
                field = field or attr
                if ci is not None and ci.find(attr, "methods")[1] is not None and field == attr:
                    yield path, Val(ident=("method", attr))
                    return
                yield path, Val([(field, path.version(field))], ("field", field, path.version(field)))
                return
            for p, base in self._ev(e.value, path, frame, st):
                yield p, Val(base.deps, ("attr", base.ident, e.attr) if base.ident else None)
            return
        if isinstance(e, ast.IfExp):
            for p, outcome in self.decide(e.test, path, frame, st):
                yield from self._ev(e.body if outcome else e.orelse, p, frame, st)
            return
        if isinstance(e, ast.Call):
            yield from self.call(e, path, frame, st)
            return
        if isinstance(e, (ast.ListComp, ast.GeneratorExp, ast.SetComp, ast.DictComp)):
            deps = set()
            inner_env = dict(frame.env)
            saved = frame.env
            frame.env = inner_env
            try:
                p = path
                for g in e.generators:
                    res = list(self._ev(g.iter, p, frame, st))
                    p, v = res[0]
                    deps |= v.deps
                    self.assign(g.target, Val(v.deps), p, frame, st)
                    for c in g.ifs:
                        for p2, v2 in list(self._ev(c, p, frame, st))[:1]:
                            deps |= v2.deps
                elts = [e.elt] if not isinstance(e, ast.DictComp) else [e.key, e.value]
                for x in elts:
                    for p2, v2 in list(self._ev(x, p, frame, st))[:1]:
                        deps |= v2.deps
            finally:
                frame.env = saved
            yield path, Val(deps)
            return
        # generic: union of children (forks of children are combined sequentially)
        children = [c for c in ast.iter_child_nodes(e) if isinstance(c, ast.expr)]
        states = [(path, frozenset())]
        for c in children:
            nxt = []
            for p, deps in states:
                for p2, v in self._ev(c, p, frame, st):
                    nxt.append((p2, deps | v.deps))
            states = nxt
        for p, deps in states:
            yield p, Val(deps)

    def getter_reads(self, attr, ci, seen=None):
        seen = seen or set()
        if attr in seen:
            return set()
        seen.add(attr)
        c, g = ci.find(attr, "getters")
        out = set()
        if g is None:
            return out
        for n in ast.walk(g):
            if isinstance(n, ast.Attribute) and isinstance(n.value, ast.Name) and n.value.id == "self":
                if n.attr in self.pseudo:
                    out.add(self.pseudo[n.attr])
                elif ci.find(n.attr, "getters")[1] is not None:
                    out |= self.getter_reads(n.attr, ci, seen)
                elif ci.find(n.attr, "methods")[1] is not None:
                    out |= self.method_reads(n.attr, ci, seen)
                else:
                    out.add(n.attr)
        return out

    def method_reads(self, name, ci, seen=None):
        seen = seen if seen is not None else set()
        key = "m:" + name
        if key in seen:
            return set()
        seen.add(key)
        out = set()
        fns = []
        c, m = ci.find(name, "methods")
        if m is not None:
            fns.append(m)
        for sub in self.prog.subclasses(ci):
            if name in sub.methods:
                fns.append(sub.methods[name])
        for m in fns:
            for n in ast.walk(m):
                if isinstance(n, ast.Attribute) and isinstance(n.value, ast.Name) and n.value.id == "self" and isinstance(n.ctx, ast.Load):
                    if n.attr in self.pseudo:
                        out.add(self.pseudo[n.attr])
                    elif ci.find(n.attr, "getters")[1] is not None:
                        out |= self.getter_reads(n.attr, ci, seen)
                    elif ci.find(n.attr, "methods")[1] is not None:
                        out |= self.method_reads(n.attr, ci, seen)
                    else:
                        out.add(n.attr)
        return out

    # ------------------------------------------------------------------ calls
    def writes_fields(self, fn, ci, seen=None):
        """Does fn (transitively through self-calls / setters) store into an object field or call a tracked invalidator?"""
        key = id(fn)
        if key in self._writers:
            return self._writers[key]
        seen = seen or set()
        if key in seen:
            return False
        seen.add(key)
        selfn = fn.args.args[0].arg if fn.args.args else None
        res = False
        for n in ast.walk(fn):
            if isinstance(n, ast.Attribute) and isinstance(n.ctx, (ast.Store, ast.Del)) and isinstance(n.value, ast.Name) and n.value.id == selfn:
                res = True
            elif isinstance(n, ast.Call):
                if isinstance(n.func, ast.Attribute) and isinstance(n.func.value, ast.Name) and n.func.value.id == selfn and ci is not None:
                    c, m = ci.find(n.func.attr, "methods")
                    if m is not None and self.writes_fields(m, ci, seen):
                        res = True
                    if n.func.attr in ("delete_fields", "check_arg_bounds"):
                        res = True
                elif isinstance(n.func, ast.Name) and n.func.id in self.extra and n.args and isinstance(n.args[0], ast.Name) and n.args[0].id == selfn:
                    res = True
                elif isinstance(n.func, ast.Name) and n.func.id in ("setattr", "delattr") and n.args and isinstance(n.args[0], ast.Name) and n.args[0].id == selfn:
                    res = True
            elif isinstance(n, ast.Subscript) and isinstance(n.ctx, (ast.Store, ast.Del)) and isinstance(n.value, ast.Attribute) and isinstance(n.value.value, ast.Name) and n.value.value.id == selfn:
                res = True
        self._writers[key] = res
        return res

    def call(self, e, path, frame, st):
        fn_text = ast.unparse(e.func)
        # evaluate arguments first (left to right), combining forks
        arg_nodes = list(e.args) + [k.value for k in e.keywords]
        states = [(path, [])]
        for a in arg_nodes:
            nxt = []
            for p, vals in states:
                node = a.value if isinstance(a, ast.Starred) else a
                for p2, v in self._ev(node, p, frame, st):
                    nxt.append((p2, vals + [v]))
            states = nxt
        for p, vals in states:
            pos_vals = vals[: len(e.args)]
            kw_vals = {k.arg: v for k, v in zip(e.keywords, vals[len(e.args):])}
            deps = frozenset().union(*[v.deps for v in vals]) if vals else frozenset()
            target = None
            recv_is_self = False
            # --- self.method(...)
            if isinstance(e.func, ast.Attribute) and self.is_self(e.func.value, frame):
                recv_is_self = True
                name = e.func.attr
                c, m = (frame.ci.find(name, "methods") if frame.ci else (None, None))
                if m is not None:
                    target = (m, c, 1, "%s.%s" % (c.name, name))
                else:
                    p.events.append(("call", "self." + name, "", norm_stmt(st)))
            elif isinstance(e.func, ast.Attribute) and isinstance(e.func.value, ast.Call) and ast.unparse(e.func.value.func) == "super" and frame.ci is not None:
                name = e.func.attr
                # super(): next class after the one defining the current function
                mro = self.ci.mro()
                owner = None
                for k in mro:
                    if frame.fn in list(k.methods.values()) + list(k.setters.values()) + list(k.getters.values()):
                        owner = k
                idx = mro.index(owner) if owner in mro else 0
                for k in mro[idx + 1:]:
                    if name in k.methods:
                        target = (k.methods[name], k, 1, "%s.%s" % (k.name, name))
                        break
                recv_is_self = True
            elif isinstance(e.func, ast.Name) and e.func.id in self.extra and e.args and self.is_self(e.args[0], frame):
                mod, f = self.extra[e.func.id]
                target = (f, frame.ci, 0, f.name)
            elif fn_text in ("setattr", "delattr") and e.args and self.is_self(e.args[0], frame):
                key = pos_vals[1] if len(pos_vals) > 1 else Val()
                label = "DYN[%s]" % (ast.unparse(e.args[1]) if len(e.args) > 1 else "?")
                if fn_text == "setattr":
                    self.write_field(label, pos_vals[2] if len(pos_vals) > 2 else Val(), p, st, frame)
                    # a dynamic store may hit a property setter with this name: handled by callers through `dyn_setters`
                    p.events.append(("setattr", ast.unparse(e.args[1]), "", norm_stmt(st)))
                else:
                    p.events.append(("delattr", ast.unparse(e.args[1]), "", norm_stmt(st)))
                del key
                yield p, Val(deps)
                continue
            if target is not None:
                m, c, skip, qual = target
                want = self.inline_filter(qual) if self.inline_filter is not None else self.writes_fields(m, c)
                if frame.depth < MAX_DEPTH and want:
                    yield from self.inline(m, c, skip, qual, e, pos_vals, kw_vals, p, frame, st)
                    continue
                # pure w.r.t. fields: value depends on the arguments and the fields the callee reads
                reads = set()
                if recv_is_self and c is not None:
                    reads = self.method_reads(m.name, c)
                p.events.append(("call", "self." + m.name, "pure", norm_stmt(st)))
                ident = ("nonnull", m.name, getattr(st, "lineno", 0)) if m.name in getattr(self, "nonnull_methods", ()) else None
                yield p, Val(deps | frozenset((f, p.version(f)) for f in reads), ident)
                continue
            # --- calls on other objects: record event (receiver text)
            if isinstance(e.func, ast.Attribute):
                recv_vals = list(self._ev(e.func.value, p, frame, st))
                rp, rv = recv_vals[0]
                rp.events.append(("call", fn_text, "", norm_stmt(st)))
                mut = getattr(self, "mutating_calls", {}).get(fn_text)
                if mut is not None:
                    # the call changes the object held in field `mut` in place: new version of that field
                    self.write_field(mut, Val(deps | rv.deps), rp, st, frame)
                ident = None
                yield rp, Val(deps | rv.deps, ident)
                continue
            p.events.append(("call", fn_text, "", norm_stmt(st)))
            ident = None
            if fn_text in IDENT_PRESERVING and len(pos_vals) == 1:
                ident = pos_vals[0].ident
            yield p, Val(deps, ident)

    def inline(self, m, c, skip, qual, call, pos_vals, kw_vals, path, frame, st):
        args = m.args
        names = [a.arg for a in args.posonlyargs + args.args]
        env = {}
        selfnames = set()
        if skip == 1 and names:
            env[names[0]] = Val(ident="self")
            selfnames.add(names[0])
            pnames = names[1:]
        else:
            # module-level helper: first positional is the object
            pnames = names
        vals = list(pos_vals)
        if skip == 0:
            env[names[0]] = Val(ident="self")
            selfnames.add(names[0])
            pnames = names[1:]
            vals = vals[1:]
        for n, v in zip(pnames, vals):
            env[n] = v
        for k, v in kw_vals.items():
            if k is not None:
                env[k] = v
        # defaults
        dflt = args.defaults
        all_pos = args.posonlyargs + args.args
        for a, d in zip(all_pos[len(all_pos) - len(dflt):], dflt):
            if a.arg not in env:
                env[a.arg] = Val(ident=("const", ast.unparse(d)))
        for a, d in zip(args.kwonlyargs, args.kw_defaults):
            if a.arg not in env:
                env[a.arg] = Val(ident=("const", ast.unparse(d))) if d is not None else Val()
        if args.kwarg:
            env[args.kwarg.arg] = Val(frozenset().union(*[v.deps for v in kw_vals.values()]) if kw_vals else ())
        for n in pnames:
            env.setdefault(n, Val())
        sub = Frame(m, c if c is not None else frame.ci, env, selfnames, frame.depth + 1, qual)
        path.events.append(("enter", qual, "", norm_stmt(st)))
        for p, kind in self._block_s(m.body, path, sub):
            if kind == "raise":
                p.raised = True
                yield p, Val()
            else:
                p.events.append(("leave", qual, "", ""))
                yield p, getattr(p, "_ret", Val()) if kind == "return" else Val()

    def decide_test(self, test, path, frame, st):
        """Evaluate calls inside the test for their side effects (inlined writers), then decide it."""
        has_call = any(isinstance(n, ast.Call) and isinstance(n.func, ast.Attribute) and self.is_self(n.func.value, frame) for n in ast.walk(test))
        if has_call:
            for p, _ in self.ev(test, path, frame, st):
                yield from self.decide(test, p, frame, st)
        else:
            yield from self.decide(test, path, frame, st)

    def _block_s(self, stmts, path, frame):
        if not stmts:
            yield path, "fall"
            return
        first, rest = stmts[0], stmts[1:]
        for p, kind in self.stmt_s(first, path, frame):
            if kind == "fall":
                yield from self._block_s(rest, p, frame)
            else:
                yield p, kind

    def stmt_s(self, st, path, frame):
        # property stores `self.x = v` are turned into inlined setter calls
        if isinstance(st, ast.Assign) and len(st.targets) == 1 and isinstance(st.targets[0], ast.Attribute) and self.is_self(st.targets[0].value, frame):
            attr = st.targets[0].attr
            c, setter = frame.ci.find(attr, "setters") if frame.ci else (None, None)
            if setter is not None and frame.depth < MAX_DEPTH and (self.inline_filter is None or self.inline_filter("%s.%s@set" % (c.name, attr))):
                for p, val in self.ev(st.value, path, frame, st):
                    if p.raised:
                        yield p, "raise"
                        continue
                    for p2, rv in self.inline(setter, c, 1, "%s.%s@set" % (c.name, attr), None, [val], {}, p, frame, st):
                        yield (p2, "raise") if p2.raised else (p2, "fall")
                return
        if isinstance(st, ast.If):
            for p, outcome in self.decide_test(st.test, path, frame, st):
                if p.raised:
                    yield p, "raise"
                    continue
                yield from self._block_s(st.body if outcome else st.orelse, p, frame)
            return
        if isinstance(st, (ast.For, ast.While)):
            starts = list(self.ev(st.iter, path, frame, st)) if isinstance(st, ast.For) else [(path, Val())]
            for p0, itv in starts:
                yield p0.copy(), "fall"
                p1 = p0.copy()
                if isinstance(st, ast.For):
                    self.assign(st.target, Val(itv.deps), p1, frame, st)
                for p, kind in self._block_s(st.body, p1, frame):
                    yield (p, "fall") if kind in ("fall", "continue", "break") else (p, kind)
            return
        if isinstance(st, ast.With):
            yield from self._block_s(st.body, path, frame)
            return
        if isinstance(st, ast.Try):
            yield from self._block_s(st.body + st.orelse + st.finalbody, path, frame)
            return
        # statements whose expression contains an inlined call that raised
        for p, kind in self.stmt(st, path, frame):
            yield p, kind

    # ------------------------------------------------------------------ atoms
    def atom_key(self, e, frame, path=None):
        """Canonical text of an atom: names replaced by the identity of the value they hold."""
        def rec(n):
            if isinstance(n, ast.Name):
                v = frame.env.get(n.id)
                if v is not None and v.ident is not None:
                    return _ident_text(v.ident)
                if v is None:
                    return n.id  # global / builtin / class name
                return "%s@%s#%s" % (n.id, frame.qual, id(v) % 100000)
            if isinstance(n, ast.Attribute):
                if self.is_self(n.value, frame):
                    f = self.pseudo.get(n.attr, n.attr)
                    return "self.%s@%s" % (f, path.version(f) if path is not None else "?")
                return rec(n.value) + "." + n.attr
            if isinstance(n, ast.Constant):
                return repr(n.value)
            if isinstance(n, ast.Call):
                return "%s(%s)" % (rec(n.func) if not isinstance(n.func, ast.Name) else n.func.id, ", ".join(rec(a) for a in n.args))
            if isinstance(n, ast.Compare):
                parts = [rec(n.left)]
                for op, c in zip(n.ops, n.comparators):
                    parts.append(type(op).__name__)
                    parts.append(rec(c))
                return " ".join(parts)
            if isinstance(n, ast.Subscript):
                return "%s[%s]" % (rec(n.value), rec(n.slice))
            if isinstance(n, ast.BinOp):
                return "(%s %s %s)" % (rec(n.left), type(n.op).__name__, rec(n.right))
            if isinstance(n, ast.UnaryOp):
                return "(%s %s)" % (type(n.op).__name__, rec(n.operand))
            if isinstance(n, (ast.Tuple, ast.List)):
                return "[%s]" % ", ".join(rec(x) for x in n.elts)
            return ast.unparse(n)
        return rec(e)

    def canon_atom(self, e, frame, path=None):
        """Return (key, polarity): `X is not None` -> (X Is None, False); `A != B` -> (A Eq B, False)."""
        pol = True
        if isinstance(e, ast.Compare) and len(e.ops) == 1:
            op = e.ops[0]
            if isinstance(op, ast.IsNot):
                e = ast.Compare(e.left, [ast.Is()], e.comparators)
                pol = False
            elif isinstance(op, ast.NotEq):
                e = ast.Compare(e.left, [ast.Eq()], e.comparators)
                pol = False
            elif isinstance(op, ast.NotIn):
                e = ast.Compare(e.left, [ast.In()], e.comparators)
                pol = False
        return self.atom_key(e, frame, path), pol

    def eval3(self, e, path, frame):
        """3-valued evaluation: True / False / None (unknown); also returns first undecided atom key."""
        if isinstance(e, ast.BoolOp):
            unknown = None
            for v in e.values:
                r, u = self.eval3(v, path, frame)
                if isinstance(e.op, ast.And):
                    if r is False:
                        return False, None
                    if r is None:
                        return None, u  # short-circuit order: decide this atom first
                else:
                    if r is True:
                        return True, None
                    if r is None:
                        return None, u
            del unknown
            return (True, None) if isinstance(e.op, ast.And) else (False, None)
        if isinstance(e, ast.UnaryOp) and isinstance(e.op, ast.Not):
            r, u = self.eval3(e.operand, path, frame)
            return (None if r is None else (not r)), u
        if isinstance(e, ast.Constant):
            return bool(e.value), None
        # value known by identity: constants passed as defaults (`info=True`)
        if isinstance(e, ast.Name):
            v = frame.env.get(e.id)
            if v is not None and isinstance(v.ident, tuple) and v.ident[0] == "const":
                try:
                    return bool(ast.literal_eval(v.ident[1])), None
                except Exception:
                    pass
        if isinstance(e, ast.Compare) and len(e.ops) == 1 and isinstance(e.ops[0], (ast.Is, ast.IsNot)) and isinstance(e.comparators[0], ast.Constant) and e.comparators[0].value is None:
            if isinstance(e.left, ast.Name):
                v = frame.env.get(e.left.id)
                if v is not None and isinstance(v.ident, tuple) and v.ident[0] == "const":
                    is_none = v.ident[1] == "None"
                    return (is_none if isinstance(e.ops[0], ast.Is) else not is_none), None
                if v is not None and isinstance(v.ident, tuple) and v.ident[0] == "nonnull":
                    return (False if isinstance(e.ops[0], ast.Is) else True), None
        if isinstance(e, ast.Call) and len(e.args) >= 1 and isinstance(e.args[0], ast.Name):
            v = frame.env.get(e.args[0].id)
            if v is not None and isinstance(v.ident, tuple) and v.ident[0] == "const":
                fn = ast.unparse(e.func)
                if fn == "isinstance" and v.ident[1] in ("None", "np.nan", "True", "False"):
                    t = ast.unparse(e.args[1]) if len(e.args) > 1 else ""
                    if v.ident[1] == "None" or t not in ("bool", "float", "int", "(int, float)"):
                        return False, None
                if fn == "np.isnan":
                    return v.ident[1] in ("np.nan", "nan", "float('nan')"), None
        key, pol = self.canon_atom(e, frame, path)
        if key in path.assign:
            r = path.assign[key]
            return (r if pol else not r), None
        return None, key

    def decide(self, test, path, frame, st):
        """yield (path, outcome) for every feasible outcome of `test`."""
        r, atom = self.eval3(test, path, frame)
        if r is not None:
            path.decisions.append((ast.unparse(test)[:80], r))
            yield path, r
            return
        for val in (True, False):
            p = path.copy()
            p.assign[atom] = val
            if not self.apply_implications(p, atom, val):
                continue
            yield from self.decide(test, p, frame, st)

    def apply_implications(self, p, atom, val):
        """isinstance(X, T) => X is not None ; np.isnan(X) => X is not None.  Returns False if contradictory."""
        def setk(k, v):
            if k in p.assign and p.assign[k] != v:
                return False
            p.assign[k] = v
            return True
        # class invariant established by the constructor: a field that holds an instance of T on entry of every public method
        for f_, t_ in getattr(self, "field_types", {}).items():
            if atom == "isinstance(self.%s@entry, %s)" % (f_, t_) and val is False:
                return False
        # documented parameter types: `X is None or isinstance(X, T)`
        for x, t in getattr(self, "type_assumptions", {}).items():
            k_none, k_inst = "param:%s Is None" % x, "isinstance(param:%s, %s)" % (x, t)
            if atom == k_none and val is False and not setk(k_inst, True):
                return False
            if atom == k_inst and val is False and not setk(k_none, True):
                return False
        if val and (atom.startswith("isinstance(") or atom.startswith("np.isnan(")):
            inner = atom[atom.index("(") + 1:]
            x = inner.split(",")[0].rstrip(")") if atom.startswith("isinstance(") else inner[:-1]
            return setk("%s Is None" % x, False)
        if val and atom.endswith(" Is None"):
            x = atom[: -len(" Is None")]
            for k in list(p.assign):
                if (k.startswith("isinstance(%s," % x) or k == "np.isnan(%s)" % x) and p.assign[k]:
                    return False
        return True



def _ident_text(ident):
    if isinstance(ident, tuple):
        if ident[0] == "field":
            return "self.%s@%s" % (ident[1], ident[2])
        if ident[0] == "attr":
            return "%s.%s" % (_ident_text(ident[1]), ident[2])
        if ident[0] == "const":
            return ident[1]
        return ":".join(str(x) for x in ident)
    return str(ident)


def describe(path):
    return "; ".join("%s=%s" % (t, "T" if r else "F") for t, r in path.decisions[-8:])
