"""C16 Incompressible vector fields: projector index agreement, mean-velocity term."""
import ast

from .. import prange as PR
from ..loader import AnalysisError, norm_stmt
from ..small import FoldError, fold

SUM = "field/summator.pyx"
GEN = "field/generator.py"


def factors(e):
    """Flatten a product/quotient into (numerator factor texts, denominator factor texts)."""
    num, den = [], []

    def rec(x, inv):
        if isinstance(x, ast.BinOp) and isinstance(x.op, ast.Mult):
            rec(x.left, inv)
            rec(x.right, inv)
        elif isinstance(x, ast.BinOp) and isinstance(x.op, ast.Div):
            rec(x.left, inv)
            rec(x.right, not inv)
        else:
            (den if inv else num).append(ast.unparse(x))

    rec(e, False)
    return sorted(num), sorted(den)


def signed_factors(e):
    """Product/quotient -> (sign, numerator factors, denominator factors); unary minus anywhere is pulled out."""
    sign = [1]
    num, den = [], []

    def rec(x, inv):
        if isinstance(x, ast.BinOp) and isinstance(x.op, ast.Mult):
            rec(x.left, inv)
            rec(x.right, inv)
        elif isinstance(x, ast.BinOp) and isinstance(x.op, ast.Div):
            rec(x.left, inv)
            rec(x.right, not inv)
        elif isinstance(x, ast.UnaryOp) and isinstance(x.op, ast.USub):
            sign[0] = -sign[0]
            rec(x.operand, inv)
        elif isinstance(x, ast.UnaryOp) and isinstance(x.op, ast.UAdd):
            rec(x.operand, inv)
        else:
            (den if inv else num).append(ast.unparse(x))

    rec(e, False)
    return sign[0], sorted(num), sorted(den)


def terms(e):
    """Flatten a sum into [(sign, node)]."""
    out = []

    def rec(x, sgn):
        if isinstance(x, ast.BinOp) and isinstance(x.op, ast.Add):
            rec(x.left, sgn)
            rec(x.right, sgn)
        elif isinstance(x, ast.BinOp) and isinstance(x.op, ast.Sub):
            rec(x.left, sgn)
            rec(x.right, -sgn)
        elif isinstance(x, ast.UnaryOp) and isinstance(x.op, ast.USub):
            rec(x.operand, -sgn)
        else:
            out.append((sgn, x))

    rec(e, 1)
    return out


def vector_frame(ctx, rule="R16.3"):
    """The generator evaluates the solenoidal field v at the ISOMETRIZED positions x' = D x (Field.pre_pos; D = derotation for an
    isotropic model).  u(x) = v(D x) has div u = sum_ij d_j' v_i D_ji, which vanishes for every v only if D = 1.  So either rotated
    models are refused for vector fields, or the components are rotated back (u = D^T v(D x)) before they are returned."""
    prog = ctx.prog
    srf_call = prog.func("field/srf.py", "SRF.__call__")
    pre = prog.func("field/base.py", "Field.pre_pos")
    iso = any(isinstance(n, ast.Call) and isinstance(n.func, ast.Attribute) and n.func.attr == "isometrize" for n in ast.walk(pre))
    gen_calls = [n for n in ast.walk(srf_call) if isinstance(n, ast.Call) and ast.unparse(n.func) == "self.generator"]
    if not iso or len(gen_calls) != 1:
        raise AnalysisError("anchor vanished: pre_pos isometrizes / SRF.__call__ calls the generator once")
    ctx.ok(rule, "field/srf.py::SRF.__call__", "the vector generator is evaluated at positions rotated into the model frame (pre_pos -> model.isometrize)")
    derot_names = {"matrix_rotate", "matrix_anisometrize", "anisometrize", "main_axes", "matrix_derotate"}
    fns = [srf_call, prog.func(GEN, "IncomprRandMeth.__call__"), prog.func("field/base.py", "Field.post_field")]
    derot = [ast.unparse(n)[:60] for f in fns for n in ast.walk(f) if isinstance(n, ast.Call) and (getattr(n.func, "attr", None) in derot_names or getattr(n.func, "id", None) in derot_names)]
    guards = []
    for q in ("SRF.__call__", "SRF.set_generator", "SRF.__init__"):
        f = prog.func("field/srf.py", q)
        guards += [ast.unparse(s.test) for s in ast.walk(f) if isinstance(s, ast.If) and "angles" in ast.unparse(s.test) and any(isinstance(x, ast.Raise) for x in s.body)]
    for q in ("IncomprRandMeth.__init__", "IncomprRandMeth.__call__"):
        f = prog.func(GEN, q)
        guards += [ast.unparse(s.test) for s in ast.walk(f) if isinstance(s, ast.If) and "angles" in ast.unparse(s.test) and any(isinstance(x, ast.Raise) for x in s.body)]
    if derot or guards:
        ctx.ok(rule, GEN + "::IncomprRandMeth", "rotation of the model frame is handled for vector fields (back-rotation %s / guards %s)" % (derot, guards))
    else:
        ctx.violation(rule, GEN + "::IncomprRandMeth", "an isotropic model with rotation angles is accepted for vector fields, positions are rotated into the model frame, and the vector "
                      "components are returned in that frame without being rotated back: the field is not divergence-free in the user's coordinates", "rotated-frame-vector")


PERMUTING = ("transpose", "swapaxes", "moveaxis", "rollaxis", "flip", "fliplr", "flipud", "rot90", "roll")


def position_layout(ctx, rule="R16.7"):
    """The evaluation points reach the vector-field kernel in the documented (dim, n) layout: the unstructured branch of the position
    setter stores the given array converted and reshaped to (dim, -1) only - no transposition or axis permutation anywhere in the value
    it stores, on any path (a data-dependent transposition moves the points the field is evaluated at; a square array cannot tell)."""
    from ..small import _sym_subst, expr_cases, find_ifs, sym_eval

    prog = ctx.prog
    ci = prog.cls("field/base.py", "Field")
    st = ci.setters.get("pos")
    if st is None:
        raise AnalysisError("anchor vanished: Field.pos setter")
    site = "field/base.py::Field.pos@set"
    sel = find_ifs(st.body, "self.mesh_type == 'unstructured'")
    if len(sel) != 1:
        raise AnalysisError("anchor vanished: unstructured branch of the Field.pos setter")
    arm = sel[0][1]
    stores = [x for x in ast.walk(ast.Module(arm, [])) if isinstance(x, ast.Assign) and any(ast.unparse(t) == "self._pos" for t in x.targets)]
    if not stores:
        raise AnalysisError("anchor vanished: store of self._pos in the unstructured branch")
    n = 0
    for a in stores:
        env = sym_eval(arm, stop=a)
        val = _sym_subst(a.value, env)
        for conds, txt in expr_cases(val):
            n += 1
            e = ast.parse(txt, mode="eval").body
            perm = sorted({x.attr for x in ast.walk(e) if isinstance(x, ast.Attribute) and (x.attr in PERMUTING or x.attr in ("T", "mT"))}
                          | {"[::-1]" for x in ast.walk(e) if isinstance(x, ast.Slice) and x.step is not None})
            ctx.check(not perm, rule, site, "stored positions [%s] = %s: %s" % (", ".join(sorted(conds)) or "always", txt[:90], "axis-permuting operations %s" % perm if perm else "conversion and reshape only"),
                      "permute:%s" % ",".join(perm))
            outer = e
            shp = None
            if isinstance(outer, ast.Call) and isinstance(outer.func, ast.Attribute) and outer.func.attr == "reshape":
                a_ = outer.args[1:] if ast.unparse(outer.func.value) == "np" else outer.args
                a_ = a_[0].elts if len(a_) == 1 and isinstance(a_[0], ast.Tuple) else a_
                shp = [ast.unparse(x) for x in a_]
            ok = shp in (["self.dim", "-1"], ["self._dim", "-1"])
            ctx.check(ok, rule, site, "the stored array is shaped (dim, -1): %s" % txt[:90], "shape")
    ctx.floor(rule, "stored position values (unstructured)", n, 1)


def run(ctx):
    position_layout(ctx)
    from .C11 import requested_positions

    requested_positions(ctx, rule="R16.8")  # the field is evaluated at the positions of THIS call (shared with C11): a divergence taken over two calls needs both at their own points
    from . import C15_kernels as _K

    _K.accumulator_reset(ctx, rule="R16.6")  # mode-summation kernels: phase reset per mode, every point and mode visited (shared with C15)
    _K.accumulator_complete(ctx, rule="R16.6")
    _K.build_independent(ctx, rule="R16.6")
    _K.kernel_shape(ctx, rule="R16.6")
    _K.full_extent(ctx, rule="R16.6")
    _K.zero_init(ctx, rule="R16.6")
    from . import C15_bounds

    C15_bounds.run(ctx, rule="R16.6", files=("field/summator.pyx",), floor=20)
    _K.mode_terms(ctx, rule="R16.6")  # the weight multiplies the cosine AND the sine part of every mode
    _K.double_precision(ctx, rule="R16.6")  # single-precision accumulators / phases lose the exactness the property states
    prog = ctx.prog
    fn = prog.func(SUM, "summate_incompr")
    site = SUM + "::summate_incompr"
    # unit vector: e1 = zeros(dim); e1[A] = 1
    e1_sets = [s for s in fn.body if isinstance(s, ast.Assign) and isinstance(s.targets[0], ast.Subscript) and PR.base_name(s.targets[0]) == "e1"]
    if len(e1_sets) != 1:
        raise AnalysisError("anchor vanished: single store into e1 in summate_incompr")
    A = ast.unparse(e1_sets[0].targets[0].slice)
    one = isinstance(e1_sets[0].value, ast.Constant) and e1_sets[0].value.value == 1
    e1_init = [s for s in fn.body if isinstance(s, ast.Assign) and isinstance(s.targets[0], ast.Name) and s.targets[0].id == "e1"]
    zeros = len(e1_init) == 1 and ast.unparse(e1_init[0].value.func) == "np.zeros" and ast.unparse(e1_init[0].value.args[0]) == "dim"
    ctx.check(one and zeros and A.isdigit(), "R16.1", site, "e1 is the unit vector of length dim along fixed axis a=%s" % A, "e1")
    # projector
    proj = [n for n in ast.walk(fn) if isinstance(n, ast.Assign) and isinstance(n.targets[0], ast.Subscript) and PR.base_name(n.targets[0]) == "proj"]
    if len(proj) != 1:
        raise AnalysisError("anchor vanished: projector assignment proj[d] = ...")
    p = proj[0]
    d = ast.unparse(p.targets[0].slice)
    tms = terms(p.value)
    ok = False
    detail = norm_stmt(p)
    col = None
    if len(tms) == 2:
        pos_t = [t for s, t in tms if s > 0]
        neg_t = [t for s, t in tms if s < 0]
        if len(pos_t) == 1 and len(neg_t) == 1 and ast.unparse(pos_t[0]) == "e1[%s]" % d:
            num, den = factors(neg_t[0])
            # numerator: k[d, j] * k[a, j]
            subs = [n for n in ast.walk(neg_t[0]) if isinstance(n, ast.Subscript) and PR.base_name(n) == "cov_samples"]
            cols = {ast.unparse(PR.index_elts(s)[1]) for s in subs}
            rows = sorted(ast.unparse(PR.index_elts(s)[0]) for s in subs)
            if len(cols) == 1 and len(subs) == 2 and len(num) == 2 and len(den) == 1:
                col = cols.pop()
                ok = rows == sorted([d, A]) and den == ["k_2"]
    ctx.check(ok, "R16.1", site, "projector is e1[d] - k[d,j]*k[a,j]/k2 with the fixed axis a=%s equal to the axis of e1: %s" % (A, detail), "projector")
    k2 = [n for n in ast.walk(fn) if isinstance(n, ast.Assign) and isinstance(n.targets[0], ast.Name) and n.targets[0].id == "k_2"]
    ok = len(k2) == 1 and isinstance(k2[0].value, ast.Call) and ast.unparse(k2[0].value.func) == "abs_square" and col is not None and ast.unparse(k2[0].value.args[0]) == "cov_samples[:, %s]" % col
    ctx.check(ok, "R16.1", site, "k2 is the squared norm of the same wave-vector column (%s) the projector uses, over all components" % col, "k2-column")
    sq = prog.func(SUM, "abs_square")
    body = [s for s in sq.body if isinstance(s, ast.For)]
    pv = sq.args.args[0].arg if sq.args.args else "vec"  # the helper's own name for its vector
    ok = len(body) == 1 and ast.unparse(body[0].iter) == "range(%s.shape[0])" % pv and len(body[0].body) == 1 and isinstance(body[0].target, ast.Name)
    if ok:
        iv = body[0].target.id
        acc = body[0].body[0]
        ok = isinstance(acc, ast.AugAssign) and isinstance(acc.op, ast.Add) and isinstance(acc.target, ast.Name) and ast.unparse(acc.value) in ("%s[%s] ** 2" % (pv, iv), "%s[%s] * %s[%s]" % (pv, iv, pv, iv))
        rets = [r for r in sq.body if isinstance(r, ast.Return)]
        ok = ok and len(rets) == 1 and ast.unparse(rets[0].value) == acc.target.id
    ctx.check(ok, "R16.1", SUM + "::abs_square", "abs_square sums the squares of every component (not its square root)", "abs-square")
    # k2 and proj are in the same (i, j) iteration: k_2 assigned in the loop over j that encloses the projector
    jl = [n for n in ast.walk(fn) if isinstance(n, ast.For) and isinstance(n.target, ast.Name) and n.target.id == col] if col else []
    ok = len(jl) == 1 and k2 and any(s is k2[0] for s in jl[0].body) and any(n is p for n in ast.walk(jl[0]))
    ctx.check(bool(ok), "R16.1", site, "k2 is recomputed for every mode before the projector of that mode", "k2-fresh")
    # same scalar wave factor for all components, phase over all dims
    acc = [n for n in ast.walk(fn) if isinstance(n, ast.AugAssign) and isinstance(n.target, ast.Subscript) and PR.base_name(n.target) == "summed_modes"]
    ok = len(acc) == 1
    if ok:
        num, den = factors(acc[0].value)
        ok = ("proj[%s]" % d) in num and not den and ast.unparse(PR.index_elts(acc[0].target)[0]) == d
        wave = [f for f in num if f != "proj[%s]" % d]
        ok = ok and len(wave) == 1 and d not in {n.id for n in ast.walk(ast.parse(wave[0])) if isinstance(n, ast.Name)}
    ctx.check(ok, "R16.1", site, "component d accumulates proj[d] times a wave factor that does not depend on d", "same-phase")
    ph = [n for n in ast.walk(fn) if isinstance(n, ast.AugAssign) and isinstance(n.target, ast.Name) and n.target.id == "phase"]
    ok = len(ph) == 1
    if ok:
        loop = [n for n in ast.walk(fn) if isinstance(n, ast.For) and any(s is ph[0] for s in n.body)]
        ok = len(loop) == 1 and ast.unparse(loop[0].iter) == "range(dim)"
        num, den = factors(ph[0].value)
        dv = loop[0].target.id if ok else "?"
        ok = ok and num == sorted(["cov_samples[%s, %s]" % (dv, col), "pos[%s, i]" % dv]) and not den
    ctx.check(ok, "R16.1", site, "phase is the scalar product <k_j, x_i> over all dim components", "phase")

    # ---------------------------------------------------------------- R16.2 generator side
    cls = prog.cls(GEN, "IncomprRandMeth")
    call = prog.func(GEN, "IncomprRandMeth.__call__")
    site = GEN + "::IncomprRandMeth.__call__"
    rets = [s for s in ast.walk(call) if isinstance(s, ast.Return)]
    if len(rets) != 1:
        raise AnalysisError("anchor: single return in IncomprRandMeth.__call__")
    tms = terms(rets[0].value)
    tf = [(s, factors(t)) for s, t in tms]
    want = {
        (1, (("e1", "self.mean_u"), ())),
        (1, (("np.sqrt(self.model.var / self._mode_no)", "self.mean_u", "summed_modes"), ())),
        (1, (("nugget",), ())),
    }
    got = {(s, (tuple(n), tuple(dn))) for s, (n, dn) in tf}
    ctx.check(got == want, "R16.2", site, "field = mean_u*e1 + mean_u*sqrt(var/N)*modes + nugget : %s" % sorted(got), "return-form")
    e1a = [n for n in ast.walk(call) if isinstance(n, ast.Assign) and ast.unparse(n.targets[0]) == "e1"]
    ok = len(e1a) == 1 and isinstance(e1a[0].value, ast.Call) and ast.unparse(e1a[0].value.func) == "self._create_unit_vector"
    axis_arg = None
    if ok:
        kw = {k.arg: k.value for k in e1a[0].value.keywords}
        axis_arg = kw.get("axis") or (e1a[0].value.args[1] if len(e1a[0].value.args) > 1 else None)
    cuv = prog.func(GEN, "IncomprRandMeth._create_unit_vector")
    dflt = cuv.args.defaults[-1] if cuv.args.defaults else None
    axis_val = ast.unparse(axis_arg) if axis_arg is not None else (ast.unparse(dflt) if dflt is not None else "?")
    ctx.check(ok and axis_val == A, "R16.2", site, "mean velocity acts along axis %s, the same fixed axis a=%s as the kernel's projector" % (axis_val, A), "axis")
    st = [n for n in ast.walk(cuv) if isinstance(n, ast.Assign) and isinstance(n.targets[0], ast.Subscript)]
    ok = any(norm_stmt(s) == "e1[axis] = 1.0" for s in st) and any(norm_stmt(s) == "shape[0] = self.model.dim" for s in st)
    ctx.check(ok, "R16.2", GEN + "::IncomprRandMeth._create_unit_vector", "unit vector has model.dim components with a single 1 at `axis`", "unit-vector")
    # dim restriction
    init = prog.func(GEN, "IncomprRandMeth.__init__")
    guard = [s for s in init.body if isinstance(s, ast.If) and any(isinstance(x, ast.Raise) for x in s.body)]
    ok = False
    if guard:
        try:
            allowed = [dm for dm in range(0, 7) if not fold(guard[0].test, {"model.dim": dm})]
            ok = allowed == [2, 3]
        except FoldError:
            ok = False
    ctx.check(ok, "R16.2", GEN + "::IncomprRandMeth.__init__", "construction raises unless dim in {2, 3} (folded over dim 0..6)", "dim-guard")
    # kernel call passes the generator's own modes
    kc = [n for n in ast.walk(call) if isinstance(n, ast.Call) and getattr(n.func, "id", "") == "_summate_incompr"]
    ok = len(kc) == 1 and [ast.unparse(a) for a in kc[0].args][:4] == ["self._cov_sample", "self._z_1", "self._z_2", "pos"]
    ctx.check(ok, "R16.2", site, "kernel receives (wave vectors, z_1, z_2, positions) of this generator", "kernel-args")
    ctx.check(cls.bases and cls.bases[0].name == "RandMeth" and "reset_seed" not in cls.methods and "update" not in cls.methods, "R16.2", GEN + "::IncomprRandMeth",
              "mode sampling / update logic is inherited unchanged from RandMeth (C11 rules apply)", "inherits")
    vector_frame(ctx)
    from .C11 import generator_coherence, private_copy

    generator_coherence(ctx, rule="R16.4")  # stale wave vectors (e.g. a third row left over from a 3-D model) break k.p(k) = 0: shared with C11
    private_copy(ctx, rule="R16.5")
    ctx.floor("R16", "obligations", len(ctx.records), 12)
    return (
        "Decides the index/shape clauses behind incompressibility: the projector in summate_incompr is e1[d] - k[d,j]*k[a,j]/|k_j|^2 with |k_j|^2 the "
        "squared norm of the same column j and a the axis at which e1 is 1 (so sum_d k_d p_d = k_a - k_a = 0 identically), the same wave factor multiplies all "
        "components, the generator adds the mean velocity along the same axis, dim is restricted to {2,3}. NOT decided: divergence values, variance split."
    )
