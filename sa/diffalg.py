"""E11 DIFF: formula-level differentiation and a normal form for power / log / exp expressions in one variable.

The normalizers state a transformation and, separately, its derivative.  Both are short closed formulas built from +, -, *, /, **,
np.power, np.log, np.log1p, np.exp, np.expm1, np.abs, np.sign over the data `x`, the parameters (`self.lmbda` -> L, `self.shift` -> S)
and numbers.  This module
  * converts such an expression tree (never executed) into a small algebra tree, with np.abs / np.sign resolved for one sign of x,
  * differentiates it by the textbook rules,
  * brings an algebra tree into a canonical sum of power products  sum_i c_i * prod_j base_ij ** exponent_ij  (exponents are themselves
    canonical sums, equal bases are merged by adding exponents, a factor with exponent 0 disappears, numeric powers are folded),
so that "the reported derivative is the derivative of the transformation" is an equality of two canonical forms, decided for every
parameter value at once (a special-value branch `np.isclose(self.lmbda, c)` is compared at L = c).
"""
import ast
from fractions import Fraction


class DiffError(Exception):
    pass


# ------------------------------------------------------------------ algebra trees
def num(v):
    return ("num", Fraction(v))


def sym(n):
    return ("sym", n)


def add(a, b):
    return ("add", a, b)


def mul(a, b):
    return ("mul", a, b)


def pw(a, b):
    return ("pow", a, b)


def neg(a):
    return ("mul", num(-1), a)


def log(a):
    return ("log", a)


def exp(a):
    return ("exp", a)


SYMBOLS = {"self.lmbda": "L", "self.shift": "S", "self._lmbda": "L", "self._shift": "S", "self.len_rescaled": "l", "np.pi": "PI", "math.pi": "PI"}
FUNCS = {"np.sin": "sin", "np.arcsin": "asin", "np.arctan": "atan", "np.tan": "tan", "sps.erf": "erf", "sps.erfinv": "erfinv", "sps.gamma": "gamma", "math.atan": "atan", "math.tan": "tan"}
INVERSE = {"atan": "tan", "tan": "atan", "erf": "erfinv", "erfinv": "erf", "sin": "asin", "asin": "sin"}


def from_ast(e, x_names, sign, subst=None):
    """algebra tree of an expression; x_names: spellings of the data variable (e.g. {'data', 'data[pos]'}); sign: +1 for x > 0, -1 for x < 0"""
    subst = subst or {}
    t = ast.unparse(e)
    if t in x_names:
        return sym("x")
    if t in subst:
        return subst[t]
    if t in SYMBOLS:
        return sym(SYMBOLS[t])
    if isinstance(e, ast.Constant) and isinstance(e.value, (int, float)) and not isinstance(e.value, bool):
        return num(Fraction(str(e.value)))
    rec = lambda z: from_ast(z, x_names, sign, subst)  # noqa: E731
    if isinstance(e, ast.UnaryOp) and isinstance(e.op, ast.USub):
        return neg(rec(e.operand))
    if isinstance(e, ast.UnaryOp) and isinstance(e.op, ast.UAdd):
        return rec(e.operand)
    if isinstance(e, ast.BinOp):
        a, b = rec(e.left), rec(e.right)
        if isinstance(e.op, ast.Add):
            return add(a, b)
        if isinstance(e.op, ast.Sub):
            return add(a, neg(b))
        if isinstance(e.op, ast.Mult):
            return mul(a, b)
        if isinstance(e.op, ast.Div):
            return mul(a, pw(b, num(-1)))
        if isinstance(e.op, ast.Pow):
            return pw(a, b)
    if isinstance(e, ast.Call):
        fn = ast.unparse(e.func)
        args = [rec(a) for a in e.args]
        if fn in ("np.power", "pow") and len(args) == 2:
            return pw(args[0], args[1])
        if fn in ("np.multiply",) and len(args) == 2:
            return mul(args[0], args[1])
        if fn in ("np.add",) and len(args) == 2:
            return add(args[0], args[1])
        if fn in ("np.subtract",) and len(args) == 2:
            return add(args[0], neg(args[1]))
        if fn in ("np.divide", "np.true_divide") and len(args) == 2:
            # `out=` / `where=` only say what to store where the quotient is not defined (documented limit value): the formula is the quotient
            return mul(args[0], pw(args[1], num(-1)))
        if fn in ("np.log", "math.log") and len(args) == 1:
            return log(args[0])
        if fn in ("np.log1p",) and len(args) == 1:
            return log(add(num(1), args[0]))
        if fn in ("np.exp", "math.exp") and len(args) == 1:
            return exp(args[0])
        if fn in ("np.expm1",) and len(args) == 1:
            return add(exp(args[0]), num(-1))
        if fn in ("np.sqrt",) and len(args) == 1:
            return pw(args[0], num(Fraction(1, 2)))
        if fn in FUNCS and len(args) == 1:
            return ("fn", FUNCS[fn], args[0])
        if fn in ("np.maximum", "np.minimum") and len(args) == 2 and not depends(args[1]) and depends(args[0]):
            # clamping to a constant bound is the identity inside the bound (the caller states the domain it argues for)
            return args[0]
        if fn in ("np.abs", "np.absolute", "abs") and len(args) == 1:
            if args[0] == sym("x"):
                return sym("x") if sign > 0 else neg(sym("x"))
            raise DiffError("absolute value of %s" % ast.unparse(e.args[0]))
        if fn == "np.sign" and len(args) == 1:
            if args[0] == sym("x"):
                return num(1 if sign > 0 else -1)
            raise DiffError("sign of %s" % ast.unparse(e.args[0]))
        if fn in ("np.asanyarray", "np.asarray", "np.array", "float", "np.double") and len(args) >= 1:
            return args[0]
    raise DiffError("expression outside the formula algebra: %s" % t[:60])


def depends(t, name="x"):
    if t[0] == "sym":
        return t[1] == name
    if t[0] == "num":
        return False
    if t[0] == "fn":
        return depends(t[2], name)
    return any(depends(c, name) for c in t[1:])


def substitute(t, name, value):
    if t[0] == "sym":
        return value if t[1] == name else t
    if t[0] == "num":
        return t
    if t[0] == "fn":
        return ("fn", t[1], substitute(t[2], name, value))
    return (t[0],) + tuple(substitute(c, name, value) for c in t[1:])


def diff(t):
    """d/dx"""
    k = t[0]
    if k == "num":
        return num(0)
    if k == "sym":
        return num(1 if t[1] == "x" else 0)
    if k == "add":
        return add(diff(t[1]), diff(t[2]))
    if k == "mul":
        return add(mul(diff(t[1]), t[2]), mul(t[1], diff(t[2])))
    if k == "log":
        return mul(diff(t[1]), pw(t[1], num(-1)))
    if k == "exp":
        return mul(t, diff(t[1]))
    if k == "fn":
        f, u = t[1], t[2]
        if not depends(u):
            return num(0)
        if f == "atan":
            return mul(diff(u), pw(add(num(1), pw(u, num(2))), num(-1)))
        if f == "tan":
            return mul(diff(u), add(num(1), pw(t, num(2))))
        if f == "erf":
            return mul(mul(mul(num(2), pw(sym("PI"), num(Fraction(-1, 2)))), exp(neg(pw(u, num(2))))), diff(u))
        raise DiffError("cannot differentiate %s" % f)
    if k == "pow":
        a, b = t[1], t[2]
        if not depends(b):
            if not depends(a):
                return num(0)
            return mul(mul(b, pw(a, add(b, num(-1)))), diff(a))
        if not depends(a):
            return mul(mul(t, log(a)), diff(b))
        return mul(t, add(mul(diff(b), log(a)), mul(mul(b, diff(a)), pw(a, num(-1)))))
    raise DiffError("cannot differentiate %s" % k)


# ------------------------------------------------------------------ canonical sums of power products
# Value: {term key: Fraction}; term key: tuple(sorted((base key, exponent key))) ; exponent key: key of a Value
def vkey(v):
    return tuple(sorted((k, str(c)) for k, c in v.items() if c != 0))


def vconst(c):
    c = Fraction(c)
    return {(): c} if c != 0 else {}


def _flatten(v):
    """a term that is just c * (atomic sum) ** 1 is the sum itself"""
    out = {}
    again = False
    for k, c in v.items():
        if len(k) == 1 and k[0][0] in _ATOM and as_const(_EXP[k[0][1]]) == 1:
            for k2, c2 in _ATOM[k[0][0]].items():
                out[k2] = out.get(k2, Fraction(0)) + c * c2
            again = True
        else:
            out[k] = out.get(k, Fraction(0)) + c
    out = {k: c for k, c in out.items() if c != 0}
    return _flatten(out) if again else out


def vadd(a, b):
    out = dict(a)
    for k, c in b.items():
        out[k] = out.get(k, Fraction(0)) + c
        if out[k] == 0:
            del out[k]
    return _flatten(out)


_EXP = {}  # exponent key -> Value (exponents are stored by key inside term keys)
_ATOM = {}  # key of an atomic (multi-term) base -> its Value
_LOG = {}  # key of a logarithm factor -> Value of its argument
_FN = {}  # key of a function factor (atan, tan, erf, erfinv, gamma) -> (function, Value of its argument)


def _ekey(v):
    k = vkey(v)
    _EXP[k] = v
    return k


def _wrap(v):
    """a sum entering a product stays one factor (so that it can cancel against its own inverse); single terms multiply term-wise"""
    if len(v) <= 1:
        return v
    sg = _lead_sign(v)
    if sg < 0:
        v = {k: -c for k, c in v.items()}
    key = "(%s)" % vtext(v)
    _ATOM[key] = v
    return {((key, _ekey(vconst(1))),): Fraction(sg)}


DOMAIN = [None]  # (lo, hi) of the variable x as Fractions / None for unbounded; set by the rule for the branch it examines


def set_domain(lo=None, hi=None):
    DOMAIN[0] = (None if lo is None else Fraction(lo), None if hi is None else Fraction(hi))


def _lead_sign(v):
    """Orientation of an atomic sum, so that (2 - L) and (L - 2) share one atom.  A sum that is affine in x with numeric coefficients is
    oriented to be POSITIVE on the domain of x when it has one sign there (the identities (A**2)**(1/2) = A, log/exp and power merging
    are those of positive bases); otherwise the coefficient of its first term (in key order) is made positive."""
    dom = DOMAIN[0]
    if dom is not None:
        c0, c1, affine = Fraction(0), Fraction(0), True
        for k, c in v.items():
            if k == ():
                c0 = c
            elif len(k) == 1 and k[0][0] == "x" and as_const(_EXP[k[0][1]]) == 1:
                c1 = c
            else:
                affine = False
        if affine and c1 != 0:
            lo, hi = dom
            ends = []
            for e_, at_inf in ((lo, -1), (hi, 1)):
                if e_ is None:
                    ends.append(1 if c1 * at_inf > 0 else -1)
                else:
                    val = c0 + c1 * e_
                    ends.append(0 if val == 0 else (1 if val > 0 else -1))
            if all(e_ >= 0 for e_ in ends) and any(e_ > 0 for e_ in ends):
                return 1
            if all(e_ <= 0 for e_ in ends) and any(e_ < 0 for e_ in ends):
                return -1
    k0 = sorted(v, key=str)[0]
    return 1 if v[k0] > 0 else -1


def _term_mul(k1, k2):
    f = {}
    for b, e in list(k1) + list(k2):
        f[b] = vadd(f.get(b, {}), _EXP[e])
    return tuple(sorted((b, _ekey(e)) for b, e in f.items() if e))


def vmul(a, b):
    a, b = _wrap(a), _wrap(b)
    out = {}
    for k1, c1 in a.items():
        for k2, c2 in b.items():
            k = _term_mul(k1, k2)
            out[k] = out.get(k, Fraction(0)) + c1 * c2
            if out[k] == 0:
                del out[k]
    return _flatten(out)


def expand(v, depth=4):
    """distribute every atomic sum that carries a small positive integer exponent (used only to compare two Values)"""
    if depth == 0:
        return v
    out = {}
    changed = False
    for k, c in v.items():
        cur = {(): c}
        for base, e in k:
            ce = as_const(_EXP[e])
            if base in _ATOM and ce is not None and ce.denominator == 1 and 1 <= ce <= 4:
                changed = True
                for _ in range(int(ce)):
                    cur = _raw_mul(cur, expand(_ATOM[base], depth - 1))
            else:
                cur = _raw_mul(cur, {((base, e),): Fraction(1)})
        for k2, c2 in cur.items():
            out[k2] = out.get(k2, Fraction(0)) + c2
    out = {k: c for k, c in out.items() if c != 0}
    return expand(out, depth - 1) if changed else out


def _raw_mul(a, b):
    out = {}
    for k1, c1 in a.items():
        for k2, c2 in b.items():
            k = _term_mul(k1, k2)
            out[k] = out.get(k, Fraction(0)) + c1 * c2
    return {k: c for k, c in out.items() if c != 0}


def as_const(v):
    if not v:
        return Fraction(0)
    if len(v) == 1 and () in v:
        return v[()]
    return None


def vpow(a, b):
    """a ** b for Values"""
    cb = as_const(b)
    if cb is not None and cb == 0:
        return vconst(1)
    if cb is not None and cb == 1:
        return a
    if not a:
        if cb is not None and cb > 0:
            return {}
        raise DiffError("0 ** non-positive")
    if len(a) == 1:
        (k, c), = a.items()
        # (c * prod base^e) ** b = c**b * prod base^(e*b)
        out_k = tuple(sorted((base, _ekey(vmul(_EXP[e], b))) for base, e in k if vmul(_EXP[e], b)))
        res = {out_k: Fraction(1)}
        if c != 1:
            if cb is not None and cb.denominator == 1:
                res = {out_k: Fraction(c) ** int(cb)}
            elif c > 0:
                res = vmul(res, {(("#%s" % c, _ekey(b)),): Fraction(1)})
            else:
                # (negative coefficient * factors) ** non-integer: one atomic base (e.g. sqrt(-log(1 - u)))
                key = "(%s)" % vtext(a)
                _ATOM[key] = a
                return {((key, _ekey(b)),): Fraction(1)}
        return res
    coef = Fraction(1)
    if cb is not None and cb.denominator == 1 and _lead_sign(a) < 0:
        a = {k: -c for k, c in a.items()}
        coef = Fraction(-1) ** int(cb)
    key = "(%s)" % vtext(a)
    _ATOM[key] = a
    return {((key, _ekey(b)),): coef}


def clear_denominators(a, b):
    """Multiply both Values by the atomic multi-term bases that occur with negative integer exponents, expanded, so that
    `(2*u - L*u) * (2 - L)**(-1)` and `u` compare equal.  Returns the two multiplied Values."""
    for _ in range(6):
        worst = {}
        for v in (a, b):
            for k in v:
                for base, e in k:
                    ce = as_const(_EXP[e])
                    if base in _ATOM and ce is not None and ce.denominator == 1 and ce < 0:
                        worst[base] = max(worst.get(base, 0), int(-ce))
        if not worst:
            break
        base, kmax = sorted(worst.items())[0]

        def times(v):
            out = {}
            for k, c in v.items():
                have = 0
                rest = []
                for bb, e in k:
                    ce = as_const(_EXP[e])
                    if bb == base and ce is not None and ce.denominator == 1 and ce < 0:
                        have = int(-ce)
                    else:
                        rest.append((bb, e))
                m = {tuple(rest): c}
                for _i in range(kmax - have):
                    m = _raw_mul(m, expand(_ATOM[base]))
                for k2, c2 in m.items():
                    out[k2] = out.get(k2, Fraction(0)) + c2
            out = {k2: c2 for k2, c2 in out.items() if c2 != 0}
            return out

        a, b = times(a), times(b)
    return a, b


def canon(t):
    k = t[0]
    if k == "num":
        return vconst(t[1])
    if k == "sym":
        return {((t[1], _ekey(vconst(1))),): Fraction(1)}
    if k == "add":
        return vadd(canon(t[1]), canon(t[2]))
    if k == "mul":
        return vmul(canon(t[1]), canon(t[2]))
    if k == "pow":
        return vpow(canon(t[1]), canon(t[2]))
    if k == "exp":
        a = canon(t[1])
        if not a:
            return vconst(1)
        # exp(c * log(V)) = V ** c   (V > 0 is what the logarithm already needs)
        if len(a) == 1:
            (tk, c), = a.items()
            if len(tk) == 1 and tk[0][0] in _LOG and as_const(_EXP[tk[0][1]]) == 1:
                return vpow(_LOG[tk[0][0]], vconst(c))
        return {(("e", _ekey(a)),): Fraction(1)}
    if k == "log":
        a = canon(t[1])
        if as_const(a) == 1:
            return {}
        # log(exp(E)) = E
        if len(a) == 1:
            (tk, c), = a.items()
            if c == 1 and len(tk) == 1 and tk[0][0] == "e":
                return dict(_EXP[tk[0][1]])
        key = "log(%s)" % vtext(a)
        _LOG[key] = a
        return {((key, _ekey(vconst(1))),): Fraction(1)}
    if k == "fn":
        f, a = t[1], canon(t[2])
        if f == "gamma":
            c = as_const(a)
            if c is not None and c > 0 and (2 * c).denominator == 1:
                # Gamma at positive integers and half-integers, in closed form
                if c.denominator == 1:
                    v = Fraction(1)
                    for i in range(1, int(c)):
                        v *= i
                    return vconst(v)
                v = Fraction(1)
                x = Fraction(1, 2)
                while x < c:
                    v *= x
                    x += 1
                return vmul(vconst(v), vpow(canon(sym("PI")), vconst(Fraction(1, 2))))
        if f in ("atan", "tan", "erf", "erfinv", "sin", "asin") and not a:
            return {}  # f(0) = 0 for all four
        # f(f^-1(A)) = A
        if len(a) == 1:
            (tk, c), = a.items()
            if c == 1 and len(tk) == 1 and tk[0][0] in _FN and _FN[tk[0][0]][0] == INVERSE.get(f) and as_const(_EXP[tk[0][1]]) == 1:
                return dict(_FN[tk[0][0]][1])
        key = "%s(%s)" % (f, vtext(a))
        _FN[key] = (f, a)
        return {((key, _ekey(vconst(1))),): Fraction(1)}
    raise DiffError("canon %s" % k)


def vtext(v):
    """deterministic text of a Value"""
    if not v:
        return "0"
    parts = []
    for k in sorted(v, key=lambda kk: str(kk)):
        c = v[k]
        fs = []
        for base, e in k:
            ev = _EXP[e]
            ce = as_const(ev)
            fs.append(base if ce == 1 else "%s**(%s)" % (base, vtext(ev)))
        body = "*".join(fs)
        if not body:
            parts.append(str(c))
        elif c == 1:
            parts.append(body)
        elif c == -1:
            parts.append("-" + body)
        else:
            parts.append("%s*%s" % (c, body))
    return " + ".join(parts).replace("+ -", "- ")


def same(v1, v2):
    """equality of two Values, modulo clearing polynomial denominators"""
    if vkey(v1) == vkey(v2):
        return True
    a, b = expand(v1), expand(v2)
    if vkey(a) == vkey(b):
        return True
    a, b = clear_denominators(a, b)
    a, b = expand(a), expand(b)
    return vkey(a) == vkey(b)


def equal(t1, t2):
    return same(canon(t1), canon(t2))


def sign_on(v, xsign, positive=("S",), positive_sums=()):
    """sign (+1 / -1 / None = unknown) of a single power product on the half line x > 0 (xsign = 1) or x < 0 (xsign = -1); an atomic sum has
    a sign when all its terms, which must be numbers or first powers of x (or of a symbol assumed positive), have the same sign there"""
    if len(v) != 1:
        return None
    (k, c), = v.items()
    s = 1 if c > 0 else -1
    for base, e in k:
        ce = as_const(_EXP[e])
        if base == "e" or base.startswith("#"):
            continue
        if base == "x":
            bs = xsign
        elif base in positive:
            bs = 1
        elif base in _ATOM and vkey(_ATOM[base]) in positive_sums:
            bs = 1
        elif base in _ATOM:
            signs = set()
            for tk, tc in _ATOM[base].items():
                ts = 1 if tc > 0 else -1
                for b2, e2 in tk:
                    if as_const(_EXP[e2]) != 1:
                        return None
                    if b2 == "x":
                        ts *= xsign
                    elif b2 not in positive:
                        return None
                signs.add(ts)
            if len(signs) != 1:
                return None
            bs = signs.pop()
        else:
            return None
        if bs < 0:
            if ce is None or ce.denominator != 1:
                return None
            if int(ce) % 2:
                s = -s
    return s
