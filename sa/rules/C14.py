"""C14 Model parameters form a consistent state: check-after-write, normalised stores, comparator truth tables,
no cached derived quantities, dimension-dependent state."""
import ast

from .. import ordtype as O
from .. import paths, state
from ..loader import AnalysisError, norm_stmt
from ..small import FoldError, fold, elementwise_stores
from ..state import Edge as E

BASE = "covmodel/base.py"
TOOLS = "covmodel/tools.py"
PARAM_FIELDS = {"_var", "_nugget", "_len_scale", "_anis", "_angles", "_dim"}
WRITER_SETTERS = ["dim", "var", "var_raw", "nugget", "len_scale", "anis", "angles", "integral_scale"]
# normaliser each parameter field must be stored from (R14.2)
NORMALISER = {
    "_len_scale": ("set_len_anis",),
    "_anis": ("set_len_anis",),
    "_angles": ("set_model_angles",),
    "_dim": ("int",),
    "_var": ("float",),
    "_nugget": ("float",),
}


# invariant of a constructed model (established by __init__, which raises otherwise): these fields are not None
CONSTRUCTED = {"self._dim@entry Is None": False, "self._anis@entry Is None": False, "self._angles@entry Is None": False, "self._hankel_kw@entry Is None": False}


def explorer(prog):
    cm = prog.cls(BASE, "CovModel")
    tools = prog.mod(TOOLS)
    extra = {n: (tools, tools.functions[n]) for n in ("set_dim", "set_arg_bounds", "set_opt_args") if n in tools.functions}
    if len(extra) != 3:
        raise AnalysisError("anchor vanished: set_dim/set_arg_bounds/set_opt_args in covmodel/tools.py")
    return cm, paths.Explorer(prog, cm, extra_self_funcs=extra), extra


def check_after_write(ctx, rule="R14.1"):
    prog = ctx.prog
    cm, ex, extra = explorer(prog)
    entries = [("CovModel.%s@set" % s, prog.func(BASE, "CovModel.%s@set" % s)) for s in WRITER_SETTERS]
    # __init__ (too many loop/branch combinations to enumerate usefully): top-level ordering check
    init = prog.func(BASE, "CovModel.__init__")
    last_store = -1
    check_idx = -1
    for i, st_ in enumerate(init.body):
        txt = ast.unparse(st_)
        stores = [t for n_ in ast.walk(st_) if isinstance(n_, ast.Assign) for t in n_.targets for t2 in ([t] if not isinstance(t, ast.Tuple) else t.elts)
                  if isinstance(t2, ast.Attribute) and isinstance(t2.value, ast.Name) and t2.value.id == "self" and (t2.attr in PARAM_FIELDS or t2.attr in WRITER_SETTERS)]
        if stores or "set_opt_args(self" in txt:
            last_store = i
        if txt == "self.check_arg_bounds()":
            check_idx = i
    ctx.check(check_idx > last_store >= 0, rule, BASE + "::CovModel.__init__", "the constructor's final check_arg_bounds() comes after its last parameter store (statement %d > %d)" % (check_idx, last_store), "init-order")
    entries.append(("set_arg_bounds", extra["set_arg_bounds"][1]))
    entries.append(("set_dim", extra["set_dim"][1]))
    total = 0
    for qual, fn in entries:
        res = ex.explore(fn, qual)
        normal = [p for p, k in res if k == "normal"]
        total += len(res)
        bad = []
        for p in normal:
            last_w = -1
            last_c = -1
            wtext = ""
            for i, ev in enumerate(p.events):
                if ev[0] == "write" and ev[1] in PARAM_FIELDS:
                    last_w, wtext = i, ev[3]
                elif (ev[0] == "enter" and ev[1].endswith("check_arg_bounds")) or (ev[0] == "call" and ev[1] == "self.check_arg_bounds"):
                    last_c = i
                elif ev[0] == "setattr":
                    # setattr(model, name, v) on a CovModel runs the property setter / __setattr__, both of which end with
                    # check_arg_bounds (their own obligations below): counts as a checked write
                    last_c = i
            if last_w >= 0 and last_c < last_w:
                bad.append((wtext, paths.describe(p)))
        site = "%s::%s" % (BASE if "CovModel" in qual else TOOLS, qual)
        if bad:
            for wtext in sorted({b[0] for b in bad}):
                ex_path = [b[1] for b in bad if b[0] == wtext][0]
                ctx.violation(rule, site, "parameter store `%s` is not followed by check_arg_bounds() before a normal exit; e.g. path [%s]" % (wtext[:80], ex_path), "unchecked:" + wtext)
        else:
            ctx.ok(rule, site, "every parameter-field store is followed by check_arg_bounds() on all %d normal-exit paths" % len(normal))
    # __setattr__: optional arguments are re-checked
    sa = prog.func(BASE, "CovModel.__setattr__")
    # on every path on which the name is an optional argument, the store is followed by a bounds check (plain or through the restoring helper)
    from ..small import call_paths

    watched = ("super().__setattr__", "self.check_arg_bounds", "self._check_or_restore")
    pths = call_paths(sa, lambda c: ast.unparse(c.func) in watched)
    ok = bool(pths)
    n_opt = 0
    for conds, evs, kind in pths:
        names_ = [next(w for w in watched if e.startswith(w + "(")) for e in evs]
        if kind == "raise":
            continue
        ok = ok and names_.count("super().__setattr__") == 1
        is_opt = any("name in self._opt_arg" in c and not c.startswith("not ") for c in conds)
        if is_opt:
            n_opt += 1
            k = names_.index("super().__setattr__") if "super().__setattr__" in names_ else -1
            ok = ok and k >= 0 and any(x in ("self.check_arg_bounds", "self._check_or_restore") for x in names_[k + 1:])
    ok = ok and n_opt >= 1
    ctx.check(ok, rule, BASE + "::CovModel.__setattr__", "storing an optional argument is followed by check_arg_bounds()", "setattr")
    # check_arg_bounds iterates all bounded arguments incl. optional ones
    cab = prog.func(TOOLS, "check_arg_bounds")
    loops = [s for s in cab.body if isinstance(s, ast.For)]
    ok = len(loops) == 1 and ast.unparse(loops[0].iter) == "model.arg_bounds"
    ab = prog.func(BASE, "CovModel.arg_bounds@get")
    keys = sorted(k.value for n in ast.walk(ab) if isinstance(n, ast.Dict) for k in n.keys if isinstance(k, ast.Constant))
    upd = any(isinstance(n, ast.Call) and ast.unparse(n.func) == "res.update" and ast.unparse(n.args[0]) == "self.opt_arg_bounds" for n in ast.walk(ab))
    ctx.check(ok and keys == ["anis", "len_scale", "nugget", "var"] and upd, rule, TOOLS + "::check_arg_bounds",
              "the check visits var, len_scale, nugget, anis and every optional argument: %s + opt_arg_bounds" % keys, "coverage")
    m = prog.func(BASE, "CovModel.check_arg_bounds")
    ctx.check(any(isinstance(n, ast.Call) and getattr(n.func, "id", "") == "check_arg_bounds" and ast.unparse(n.args[0]) == "self" for n in ast.walk(m)), rule,
              BASE + "::CovModel.check_arg_bounds", "method delegates to tools.check_arg_bounds(self)", "delegate")
    ctx.note(rule, "`rescale` has no bounds and the *_bounds setters validate the bound triple only: not counted as parameter writers")
    ctx.floor(rule, "paths explored", total, 40)


def normalised_writes(ctx, rule="R14.2"):
    prog = ctx.prog
    cm = prog.cls(BASE, "CovModel")
    tools = prog.mod(TOOLS)
    sites = []
    for name, fn, rel in [(q, f, BASE) for kind in ("methods", "setters", "getters") for q, f in getattr(cm, kind).items()] + [(q, f, TOOLS) for q, f in tools.functions.items()]:
        objs = {"self", "model"}
        for node in ast.walk(fn):
            if not isinstance(node, ast.Assign):
                continue
            tgts = []
            for t in node.targets:
                tgts += list(t.elts) if isinstance(t, ast.Tuple) else [t]
            for t in tgts:
                if isinstance(t, ast.Attribute) and isinstance(t.value, ast.Name) and t.value.id in objs and t.attr in NORMALISER:
                    sites.append((rel, name, t.attr, node))
    for rel, name, attr, node in sites:
        v = node.value
        site = "%s::%s" % (rel, name)
        if isinstance(v, ast.Constant) and v.value is None and name == "__init__":
            ctx.ok(rule, site, "initialiser %s" % norm_stmt(node))
            continue
        if isinstance(v, ast.Name):
            # local bound by unpacking the normaliser's result in the same function
            fn_node = [f for q, f in list(tools.functions.items()) + [(q2, f2) for kind in ("methods", "setters") for q2, f2 in getattr(cm, kind).items()] if any(x is node for x in ast.walk(f))]
            for a in ast.walk(fn_node[0]) if fn_node else []:
                if isinstance(a, ast.Assign) and isinstance(a.value, ast.Call) and any(isinstance(t, ast.Tuple) and any(isinstance(e, ast.Name) and e.id == v.id for e in t.elts) for t in a.targets):
                    v = a.value
        src = ast.unparse(v.func) if isinstance(v, ast.Call) else None
        ok = src in NORMALISER[attr]
        # `float(x) / self.var_factor()` for the raw variance
        if not ok and attr == "_var" and isinstance(v, ast.BinOp) and isinstance(v.op, ast.Div) and isinstance(v.left, ast.Call) and ast.unparse(v.left.func) == "float" and ast.unparse(v.right) == "self.var_factor()":
            ok = True
        ctx.check(ok, rule, site, "store to %s comes from its normaliser %s: %s" % (attr, "/".join(NORMALISER[attr]), norm_stmt(node)[:90]), "%s:%s" % (attr, norm_stmt(node)))
    ctx.floor(rule, "parameter-field store sites", len(sites), 18)
    # the normaliser call in setters passes the model's own dim / latlon / temporal
    for s, want in (("len_scale", ["self.dim", "len_scale", "self.anis", "self.latlon"]), ("anis", ["self.dim", "self.len_scale", "anis", "self.latlon"]), ("angles", ["self.dim", "angles", "self.latlon", "self.temporal"])):
        fn = prog.func(BASE, "CovModel.%s@set" % s)
        calls = [n for n in ast.walk(fn) if isinstance(n, ast.Call) and getattr(n.func, "id", "") in ("set_len_anis", "set_model_angles")]
        ok = len(calls) == 1 and [ast.unparse(a) for a in calls[0].args] == want
        ctx.check(ok, rule, BASE + "::CovModel.%s@set" % s, "normaliser receives (%s)" % ", ".join(want), "args")


# ---------------------------------------------------------------------------------------- R14.3
def _interp_check_arg_in_bounds(fn, btype, xpos, two_element=False):
    """Interpret check_arg_in_bounds for bound type `btype`, value at order position xpos w.r.t. (bnd[0], bnd[1])."""
    env = {"error_case": None, "bt": None if two_element else btype}

    def test(e):
        if isinstance(e, ast.BoolOp):
            if isinstance(e.op, ast.And):
                return all(test(v) for v in e.values)
            return any(test(v) for v in e.values)
        if isinstance(e, ast.UnaryOp) and isinstance(e.op, ast.Not):
            return not test(e.operand)
        if isinstance(e, ast.IfExp):
            return test(e.body) if test(e.test) else test(e.orelse)
        if isinstance(e, ast.Call) and ast.unparse(e.func) in ("np.any", "np.all", "bool") and len(e.args) == 1 and isinstance(e.args[0], (ast.IfExp, ast.BoolOp)):
            return test(e.args[0])
        t = ast.unparse(e)
        if t == "len(bnd) == 2":
            return two_element
        if t.startswith("bnd[2][") and isinstance(e, ast.Compare):
            idx = int(t[len("bnd[2]["):].split("]")[0])
            if env["bt"] is None:
                raise FoldError("2-element bound: interval type never appended")
            return fold(ast.Compare(ast.Constant(env["bt"][idx]), e.ops, e.comparators), {})
        if t == "arg not in model.arg_bounds":
            return False
        if t == "val is None":
            return False
        return O.eval_ord(e, "val", ["bnd[0]", "bnd[1]"], xpos)

    def walk(stmts):
        for st in stmts:
            if isinstance(st, ast.If):
                r = walk(st.body if test(st.test) else st.orelse)
                if r is not None:
                    return r
            elif isinstance(st, ast.Assign) and ast.unparse(st.targets[0]) == "error_case":
                v = st.value
                while isinstance(v, ast.IfExp):
                    v = v.body if test(v.test) else v.orelse
                env["error_case"] = v.value
            elif isinstance(st, ast.Return):
                return ("ret", env["error_case"] if ast.unparse(st.value) == "error_case" else ast.unparse(st.value))
            elif isinstance(st, ast.Expr) and isinstance(st.value, ast.Call) and ast.unparse(st.value.func) == "bnd.append" and isinstance(st.value.args[0], ast.Constant):
                if env["bt"] is None:
                    env["bt"] = st.value.args[0].value
            elif isinstance(st, ast.Raise):
                return ("raise", None)
        return None

    return walk(fn.body)


def comparator_tables(ctx, rule="R14.3"):
    prog = ctx.prog
    fn = prog.func(TOOLS, "check_arg_in_bounds")
    site = TOOLS + "::check_arg_in_bounds"
    n = 0
    for bt in ("cc", "co", "oc", "oo"):
        want = O.interval_table(bt)
        got = ""
        codes = []
        for x in range(5):
            try:
                r = _interp_check_arg_in_bounds(fn, bt, x)
            except (O.NotOrd, FoldError, Exception) as e:  # noqa: BLE001
                ctx.undecided(rule, site, "cannot interpret comparator for type %s: %s" % (bt, e))
                got = None
                break
            n += 1
            codes.append(r[1] if r else None)
            got += "T" if (r and r[0] == "ret" and r[1] == 0) else "F"
        if got is None:
            continue
        ctx.check(got == want, rule, site, "bound type '%s': value accepted (code 0) exactly on %s over the 5 order types; documented interval gives %s; codes %s" % (bt, got, want, codes), "table:" + bt)
        # error codes distinguish lower / upper violation
        okc = codes[0] in (1, 2) and codes[4] in (3, 4) and (codes[1] in (0, 2)) and (codes[3] in (0, 4))
        ctx.check(okc, rule, site, "bound type '%s': codes 1/2 signal the lower, 3/4 the upper bound: %s" % (bt, codes), "codes:" + bt)
    got2 = ""
    for x in range(5):
        try:
            r = _interp_check_arg_in_bounds(fn, "cc", x, two_element=True)
        except FoldError:
            r = None
        got2 += "T" if (r and r[1] == 0) else "F"
    ctx.check(got2 == "FTTTF", rule, site, "a 2-element bound is a closed interval: %s" % got2, "two-element")
    ctx.floor(rule, "comparator cases evaluated", n, 20)
    # check_arg_bounds raises for every non-zero code
    cab = prog.func(TOOLS, "check_arg_bounds")
    raised = {}
    for node in ast.walk(cab):
        if isinstance(node, ast.If) and isinstance(node.test, ast.Compare) and ast.unparse(node.test.left) == "error_case" and any(isinstance(s, ast.Raise) for s in node.body):
            code = node.test.comparators[0].value
            msg = ast.unparse(node.body[0])
            raised[code] = msg
    ok = sorted(raised) == [1, 2, 3, 4] and all("ValueError" in m for m in raised.values())
    ops = {1: ">=", 2: "> ", 3: "<=", 4: "< "}
    ok_txt = ok and all(("needs to be %s" % ops[c].strip()) in raised[c] for c in raised)
    ctx.check(ok, rule, TOOLS + "::check_arg_bounds", "every violation code 1-4 raises ValueError", "raise-all")
    ctx.check(ok_txt, rule, TOOLS + "::check_arg_bounds", "message operators match the codes (>=, >, <=, <)", "messages")
    ec = [n for n in ast.walk(cab) if isinstance(n, ast.Assign) and ast.unparse(n.targets[0]) == "error_case"]
    ctx.check(len(ec) == 1 and ast.unparse(ec[0].value) == "check_arg_in_bounds(model, arg)", rule, TOOLS + "::check_arg_bounds", "codes come from check_arg_in_bounds(model, arg)", "source")
    # check_bounds
    cb = prog.func(TOOLS, "check_bounds")
    tests = [s for s in cb.body if isinstance(s, ast.If)]
    tab = ""
    try:
        for x in range(3):
            rej = False
            for t in tests:
                if "bounds[1]" in ast.unparse(t.test) and "bounds[0]" in ast.unparse(t.test):
                    rej = O.eval_ord(t.test, "bounds[1]", ["bounds[0]"], x)
            tab += "F" if rej else "T"
    except O.NotOrd as e:
        ctx.undecided(rule, TOOLS + "::check_bounds", str(e))
        tab = None
    if tab is not None:
        ctx.check(tab == "FFT", rule, TOOLS + "::check_bounds", "bounds are accepted only if upper > lower (table over upper vs lower: %s)" % tab, "order")
    txt = ast.unparse(cb)
    ctx.check("len(bounds) not in (2, 3)" in txt and "('oo', 'oc', 'co', 'cc')" in txt, rule, TOOLS + "::check_bounds", "length 2 or 3 and a known interval type are required", "shape")
    # every *_bounds setter validates through check_bounds
    cm = prog.cls(BASE, "CovModel")
    for s in ("var_bounds", "len_scale_bounds", "nugget_bounds", "anis_bounds"):
        fn = cm.setters[s]
        first = fn.body[0]
        ok = isinstance(first, ast.If) and ast.unparse(first.test) == "not check_bounds(bounds)" and any(isinstance(x, ast.Raise) for x in first.body)
        ctx.check(ok, rule, BASE + "::CovModel.%s@set" % s, "bounds are validated before they are stored", "validate")
    sab = prog.func(TOOLS, "set_arg_bounds")
    ok = any(isinstance(s, ast.If) and ast.unparse(s.test) == "not check_bounds(bounds)" for s in ast.walk(sab))
    ctx.check(ok, rule, TOOLS + "::set_arg_bounds", "set_arg_bounds validates every bound triple first", "validate")


def no_cached_derived(ctx, rule="R14.4"):
    prog = ctx.prog
    cm = prog.cls(BASE, "CovModel")
    allowed = {"integral_scale": {"_integral_scale"}}
    n = 0
    for name, g in cm.getters.items():
        stores = {t.attr for node in ast.walk(g) if isinstance(node, ast.Assign) for t in node.targets if isinstance(t, ast.Attribute) and isinstance(t.value, ast.Name) and t.value.id == "self"}
        n += 1
        ctx.check(stores <= allowed.get(name, set()), rule, BASE + "::CovModel.%s" % name, "derived quantity is computed on access, nothing cached: stores %s" % sorted(stores), "cache:%s" % sorted(stores))
    ctx.floor(rule, "CovModel properties inspected", n, 40)
    want = {
        "sill": "self.var + self.nugget",
        "len_rescaled": "self._len_scale / self._rescale",
        "var": "self._var * self.var_factor()",
        "field_dim": "2 + int(self.temporal) if self.latlon else self.dim",
        "spatial_dim": "2 if self.latlon else self.dim - int(self.temporal)",
    }
    for name, txt in want.items():
        g = cm.getters.get(name)
        if g is None:
            raise AnalysisError("anchor vanished: CovModel.%s" % name)
        rets = [ast.unparse(s.value) for s in g.body if isinstance(s, ast.Return)]
        ctx.check(rets == [txt], rule, BASE + "::CovModel.%s" % name, "%s = %s" % (name, txt), "form:" + name)
    # len_scale_vec
    g = cm.getters["len_scale_vec"]
    fills = elementwise_stores(g, "res", {"self.anis", "self._anis"})
    ok = (fills in ([("0", "0", "self.len_scale"), ("1", "self._dim", "self.anis[i - 1] * self.len_scale")],
                    [("0", "0", "self.len_scale"), ("1", "self.dim", "self.anis[i - 1] * self.len_scale")],
                    [("0", "0", "self.len_scale"), ("1", None, "self.anis[i - 1] * self.len_scale")])
          and any(norm_stmt(s_) in ("res = np.zeros(self.dim, dtype=np.double)", "res = np.empty(self.dim, dtype=np.double)") for s_ in g.body))
    ctx.check(ok, rule, BASE + "::CovModel.len_scale_vec", "per-axis scale i = len_scale * anis[i-1] for i = 1..dim-1", "lsv")
    # the cache `_integral_scale` is only read right after being written in the same function
    for c in prog.subclasses(cm, strict=False):
        for kind in ("methods", "getters", "setters"):
            for name, fn in getattr(c, kind).items():
                reads = [n for n in ast.walk(fn) if isinstance(n, ast.Attribute) and n.attr == "_integral_scale" and isinstance(n.ctx, ast.Load)]
                if not reads:
                    continue
                writes = [n for n in ast.walk(fn) if isinstance(n, ast.Attribute) and n.attr == "_integral_scale" and isinstance(n.ctx, ast.Store)]
                ok = bool(writes) and min(w._ord for w in writes) <= min(r._ord for r in reads)
                ctx.check(ok, rule, "%s::%s.%s" % (c.module.relpath, c.name, name), "cached integral scale is read only after it was just recomputed", "stale-cache")
    # _sft follows dim and hankel_kw
    cmx, ex, extra = explorer(prog)
    edges = [E("_sft", "_dim"), E("_sft", "_hankel_kw")]
    entries = [("CovModel.dim@set", cm.setters["dim"], cm), ("CovModel.hankel_kw@set", cm.setters["hankel_kw"], cm)]
    state.coherence(ctx, rule, cm, edges, entries=entries, extra=extra, rel=BASE, assume=CONSTRUCTED, raise_exits=True)


def dim_dependent(ctx, rule="R14.5"):
    """A writer of _dim refreshes / re-validates every field whose initial value was computed from dim."""
    prog = ctx.prog
    cm = prog.cls(BASE, "CovModel")
    cmx, ex, extra = explorer(prog)
    # (a) anisotropy ratios and angles are re-normalised for the new dimension
    edges = [E("_anis", "_dim"), E("_angles", "_dim"), E("_len_scale", "_dim")]
    entries = [("CovModel.dim@set", cm.setters["dim"], cm)]
    # _anis/_angles are only rewritten when already set (not None): decide those atoms as 'set' - on a constructed model they are
    state.coherence(ctx, rule, cm, edges, entries=entries, extra=extra, rel=BASE, assume=CONSTRUCTED, raise_exits=True)
    # (b) dimension-dependent default bounds of optional arguments
    n = 0
    sd = extra["set_dim"][1]
    refresh = any(
        (isinstance(node, ast.Call) and ast.unparse(node.func).endswith(("default_opt_arg_bounds", "set_arg_bounds")))
        or (isinstance(node, ast.Attribute) and node.attr == "_opt_arg_bounds" and isinstance(node.ctx, ast.Store))
        for node in ast.walk(sd)
    )
    for c in prog.subclasses(cm):
        fn = c.methods.get("default_opt_arg_bounds")
        if fn is None:
            continue
        n += 1
        reads_dim = any(isinstance(x, ast.Attribute) and x.attr in ("dim", "_dim") and isinstance(x.value, ast.Name) and x.value.id == "self" for x in ast.walk(fn))
        site = "%s::%s.default_opt_arg_bounds" % (c.module.relpath, c.name)
        if not reads_dim:
            ctx.ok(rule, site, "default bounds do not depend on the dimension")
        else:
            ctx.check(refresh, rule, site,
                      "default bounds depend on dim, but set_dim neither refreshes _opt_arg_bounds nor re-validates against freshly evaluated defaults: bounds evaluated at construction survive `model.dim = n`",
                      "stale-bounds:%s" % c.name)
    ctx.floor(rule, "default_opt_arg_bounds overrides inspected", n, 8)


PARAM_FIELDS = {"_var", "_len_scale", "_nugget", "_anis", "_angles", "_rescale", "_dim", "OPTARG[*]"}


def no_shared_fields(ctx, rule, rel, cls_name, fields, floor=1):
    """Fields of `cls_name` that hold input data must not share memory with the caller's arrays (a later in-place change of the caller's
    array would silently change the object's state behind every derived quantity computed from it)."""
    from .. import alias
    from .C20 import public_entries

    prog = ctx.prog
    an = alias.analyzed(prog)
    cls = prog.cls(rel, cls_name)
    entries = public_entries(prog, an)
    n = 0
    for fq in sorted(entries):
        m, fn, ci, kind = an.funcs[fq]
        if ci is None or not ci.is_subclass_of(cls):
            continue
        for attr, labs in sorted(an.summ[fq].store.items()):
            if attr in fields:
                n += 1
                ps = sorted(l for l in labs if l.startswith("P:"))
                ctx.check(not ps, rule, fq, "self.%s does not share memory with an argument (may alias: %s)" % (attr, ps), "shared:%s:%s" % (attr, ",".join(ps)))
    ctx.floor(rule, "input-data field stores by public entry points of %s" % cls_name, n, floor)


def no_subclass_caches(ctx, rule="R14.11"):
    """The shipped model classes compute everything from the current parameters: no method of a CovModel subclass (outside __init__) stores
    an attribute on the instance - such a value would survive the next parameter change (only setters of CovModel itself write state)."""
    prog = ctx.prog
    cm = prog.cls(BASE, "CovModel")
    n = 0
    for c in prog.subclasses(cm):
        for kind in ("methods", "getters"):
            for name, fn in getattr(c, kind).items():
                if name == "__init__":
                    continue
                n += 1
                st = sorted({ast.unparse(t) for node in ast.walk(fn) if isinstance(node, (ast.Assign, ast.AugAssign, ast.AnnAssign))
                             for t in (node.targets if isinstance(node, ast.Assign) else [node.target]) for t in [t]
                             if isinstance(t, ast.Attribute) and isinstance(t.value, ast.Name) and t.value.id == "self"}
                            | {"setattr(self, ...)" for node in ast.walk(fn) if isinstance(node, ast.Call) and getattr(node.func, "id", "") == "setattr" and node.args and ast.unparse(node.args[0]) == "self"})
                ctx.check(not st, rule, "%s::%s.%s" % (c.module.relpath, c.name, name), "method keeps no state on the instance (stores: %s)" % st, "subclass-store:%s" % ",".join(st))
    ctx.floor(rule, "methods of model subclasses inspected", n, 60)


def no_shared_parameter_arrays(ctx, rule="R14.8"):
    """A parameter field that shares memory with an array of the caller can be changed from outside without any check running
    (and in-place normalisation inside the model writes into the caller's data)."""
    from .. import alias
    from .C20 import public_entries

    prog = ctx.prog
    an = alias.analyzed(prog)
    cm = prog.cls(BASE, "CovModel")
    entries = public_entries(prog, an)
    n = 0
    for fq in sorted(entries):
        m, fn, ci, kind = an.funcs[fq]
        if ci is None or not ci.is_subclass_of(cm):
            continue
        for attr, labs in sorted(an.summ[fq].store.items()):
            ps = sorted(l for l in labs if l.startswith("P:"))
            if attr in PARAM_FIELDS:
                n += 1
                ctx.check(not ps, rule, fq, "self.%s does not share memory with an argument (may alias: %s)" % (attr, ps), "shared:%s:%s" % (attr, ",".join(ps)))
            elif ps:
                ctx.note(rule, "%s keeps a reference to its argument in self.%s (%s): not a parameter value, recorded only" % (fq, attr, ps))
    ctx.floor(rule, "parameter-field stores by public entry points", n, 8)


def constructor_var_last(ctx, rule="R14.10"):
    """var = var_raw * var_factor(), and var_factor depends on the length scale (TPL models).  Every statement of the constructor that can
    change the length scale - `self.len_scale = ...`, `self.integral_scale = ...` (its setter rescales len_scale) - must be FOLLOWED by a
    (re-)assignment of the variance, otherwise the reported variance belongs to the provisional length scale."""
    init = ctx.prog.func(BASE, "CovModel.__init__")
    site = BASE + "::CovModel.__init__"

    def stores(attr):
        return [n for n in ast.walk(init) if isinstance(n, ast.Assign) and any(isinstance(t, ast.Attribute) and isinstance(t.value, ast.Name) and t.value.id == "self" and t.attr == attr for t in n.targets)]

    var_sets = stores("var")
    scale_sets = stores("integral_scale") + stores("len_scale") + [n for n in ast.walk(init) if isinstance(n, ast.Assign) and any(isinstance(t, ast.Attribute) and t.attr == "_len_scale" for tt in n.targets for t in ast.walk(tt))]
    if not var_sets or not scale_sets:
        raise AnalysisError("anchor vanished: var / length-scale assignments in CovModel.__init__")
    last_scale = max(scale_sets, key=lambda n: n._ord)
    ok = any(v._ord > last_scale._ord for v in var_sets)
    ctx.check(ok, rule, site, "the variance is (re)assigned after the last statement that can change the length scale (`%s`)" % norm_stmt(last_scale)[:60], "var-after-scale")
    # both branches (var given / var_raw given) are handled wherever the variance is set
    raw_sets = [n for n in ast.walk(init) if isinstance(n, ast.Assign) and ast.unparse(n.targets[0]) == "self._var" and "var_raw" in ast.unparse(n.value)]
    ctx.check(any(r._ord > last_scale._ord for r in raw_sets), rule, site, "a given var_raw is stored after the length scale is final as well", "var-raw-after-scale")


def reject_restores(ctx, rule="R14.12"):
    """"Values outside their bounds are always rejected": a setter that stores first and checks afterwards must put the old value back when
    the check raises, otherwise the caller who catches the ValueError is left with a model holding the rejected value.  Every setter of
    CovModel that stores a parameter field and then has the bounds checked does so through `_check_or_restore(<field>=<value read before
    the store>, ...)` covering every field it stored; the helper restores all of them in its ValueError handler and re-raises."""
    prog = ctx.prog
    cm = prog.cls(BASE, "CovModel")
    helper = cm.methods.get("_check_or_restore")
    n = 0
    fns = [("CovModel.%s@set" % k, v) for k, v in sorted(cm.setters.items())]
    for qual, fn in fns:
        stores = []
        for st in ast.walk(fn):
            if isinstance(st, ast.Assign):
                for t in st.targets:
                    for t2 in (t.elts if isinstance(t, ast.Tuple) else [t]):
                        # only fields that have bounds: a rejected angle does not exist (the check after the angles store can only re-confirm the other fields)
                        if isinstance(t2, ast.Attribute) and isinstance(t2.value, ast.Name) and t2.value.id == "self" and t2.attr in ("_var", "_nugget", "_len_scale", "_anis"):
                            stores.append((t2.attr, st))
        checks = [c for c in ast.walk(fn) if isinstance(c, ast.Call) and ast.unparse(c.func) in ("self.check_arg_bounds", "self._check_or_restore")]
        if not stores or not checks:
            continue
        site = "%s::%s" % (BASE, qual)
        first_store = min(st._ord for _, st in stores)
        for c in checks:
            if c._ord < first_store:
                continue
            n += 1
            if ast.unparse(c.func) == "self.check_arg_bounds":
                ctx.violation(rule, site, "stores %s and then calls check_arg_bounds(): when the value is rejected the ValueError leaves it stored (the model keeps a value outside its bounds)"
                              % sorted({f for f, _ in stores}), "kept-on-reject:" + ",".join(sorted({f for f, _ in stores})))
                continue
            kws = {k.arg: k.value for k in c.keywords if k.arg}
            missing = sorted({f for f, _ in stores} - set(kws))
            okv = True
            for f, v in kws.items():
                # the restored value was read from the field before the first store
                src = None
                if isinstance(v, ast.Name):
                    defs = [a for a in ast.walk(fn) if isinstance(a, ast.Assign) and len(a.targets) == 1 and isinstance(a.targets[0], ast.Name) and a.targets[0].id == v.id]
                    if len(defs) == 1 and defs[0]._ord < first_store:
                        src = defs[0].value
                elif isinstance(v, ast.Subscript) and isinstance(v.value, ast.Name) and isinstance(v.slice, ast.Constant):
                    defs = [a for a in ast.walk(fn) if isinstance(a, ast.Assign) and len(a.targets) == 1 and isinstance(a.targets[0], ast.Name) and a.targets[0].id == v.value.id]
                    if len(defs) == 1 and defs[0]._ord < first_store and isinstance(defs[0].value, ast.Tuple) and v.slice.value < len(defs[0].value.elts):
                        src = defs[0].value.elts[v.slice.value]
                okv = okv and src is not None and ast.unparse(src) == "self.%s" % f
            ctx.check(not missing and okv, rule, site, "the fields stored (%s) are handed to _check_or_restore with the values they had before the store%s"
                      % (sorted({f for f, _ in stores}), (": missing %s" % missing) if missing else ""), "restore:" + ",".join(sorted({f for f, _ in stores})))
    ctx.floor(rule, "setters that store a parameter field and have it checked", n, 5)
    if helper is None:
        ctx.violation(rule, BASE + "::CovModel", "no restoring helper: rejected values stay stored", "no-helper")
        return
    tr = [t for t in helper.body if isinstance(t, ast.Try)]
    ok = False
    if len(tr) == 1:
        t = tr[0]
        body_ok = any(isinstance(x, ast.Call) and ast.unparse(x.func) == "self.check_arg_bounds" for st in t.body for x in ast.walk(st))
        h = [hh for hh in t.handlers if hh.type is not None and ast.unparse(hh.type) in ("ValueError", "Exception")]
        if body_ok and len(h) == 1:
            loops = [l for l in h[0].body if isinstance(l, ast.For) and ast.unparse(l.iter) == "%s.items()" % (helper.args.kwarg.arg if helper.args.kwarg else "?")]
            restores = bool(loops) and any(isinstance(x, ast.Call) and ast.unparse(x.func) in ("super().__setattr__", "setattr", "object.__setattr__") for x in ast.walk(loops[0]))
            reraises = bool(h[0].body) and isinstance(h[0].body[-1], ast.Raise) and h[0].body[-1].exc is None
            ok = restores and reraises
    ctx.check(ok, rule, BASE + "::CovModel._check_or_restore", "runs check_arg_bounds(); on ValueError puts every given old value back and re-raises", "helper")
    # optional arguments (stored through __setattr__): an already present value is restored as well
    sa = prog.func(BASE, "CovModel.__setattr__")
    calls = [c for c in ast.walk(sa) if isinstance(c, ast.Call) and ast.unparse(c.func) == "self._check_or_restore"]
    okk = False
    if calls:
        c = calls[0]
        star = [k.value for k in c.keywords if k.arg is None]
        if star and isinstance(star[0], ast.Dict) and len(star[0].keys) == 1 and ast.unparse(star[0].keys[0]) == "name" and isinstance(star[0].values[0], ast.Name):
            oldn = star[0].values[0].id
            store = [x for x in ast.walk(sa) if isinstance(x, ast.Expr) and ast.unparse(x) == "super().__setattr__(name, value)"]
            defs = [a for a in ast.walk(sa) if isinstance(a, ast.Assign) and isinstance(a.targets[0], ast.Name) and a.targets[0].id == oldn]
            okk = len(store) == 1 and len(defs) == 1 and defs[0]._ord < store[0]._ord and "getattr(self, name)" in ast.unparse(defs[0].value)
    ctx.check(okk, rule, BASE + "::CovModel.__setattr__", "an optional argument that already had a value gets it back when the new one is rejected", "restore-opt-arg")


def run(ctx):
    reject_restores(ctx)
    no_subclass_caches(ctx)
    constructor_var_last(ctx)
    from .C12 import bookkeeping

    bookkeeping(ctx, rule="R14.9")  # len_scale / anis bookkeeping of set_len_anis, set_anis, set_angles (shared with C12)
    no_shared_parameter_arrays(ctx)
    from ..small import none_default_rule

    none_default_rule(ctx, "R14.7", ["covmodel/"], 20)
    check_after_write(ctx)
    normalised_writes(ctx)
    comparator_tables(ctx)
    no_cached_derived(ctx)
    dim_dependent(ctx)
    from .. import flagfwd

    n = flagfwd.run(ctx, "R14.6")
    ctx.floor("R14.6", "call sites with an unbound configuration flag available in the caller", n, 3)
    return (
        "Decides the structural clauses of C14: (R14.1) on every feasible path of every parameter writer (8 setters, __init__, set_arg_bounds, set_dim, __setattr__) the last "
        "parameter store is followed by check_arg_bounds(); (R14.2) parameter fields are stored only from their normalisers; (R14.3) check_arg_in_bounds accepts a value exactly on the "
        "documented interval for each of the four bound types, evaluated over all 5 order types, and every violation code raises; (R14.4) derived quantities are computed, not cached; "
        "(R14.5) dimension-dependent state is refreshed by set_dim; (R14.6) no call drops a configuration flag (latlon/temporal/geo_scale/mesh_type/value_type) the caller has in scope. NOT decided: equality with a directly constructed model as a whole (values)."
        ' (R14.12) a setter that stores before it checks puts the old values back when the check raises (rejected values are not kept).'
    )
