"""C20 Operations never modify caller arrays or stored results: may-alias analysis over all public entry points."""
import ast

from .. import alias
from ..loader import ClassInfo

SKIP_MODULES = {"field/plot.py", "covmodel/plot.py"}  # matplotlib front ends, no array results
# documented output parameters (one named symbol each, with the reason)
EXEMPT_PARAMS = {
    ("field/tools.py::generate_on_mesh", "mesh"): "documented: 'will store the field in the given mesh'",
    ("field/base.py::Field.mesh", "mesh"): "documented: 'will store the field in the given mesh'",
}
NON_ARRAY_PARAMS = {"init_guess", "curve_fit_kwargs", "kwargs", "std_bins", "opt_arg", "para_select", "bounds"}  # mappings: reported as notes


def exported_names(mod):
    names = []
    for st in mod.tree.body:
        tgt = None
        if isinstance(st, ast.Assign) and any(isinstance(t, ast.Name) and t.id == "__all__" for t in st.targets):
            tgt = st.value
        elif isinstance(st, ast.AugAssign) and isinstance(st.target, ast.Name) and st.target.id == "__all__":
            tgt = st.value
        if isinstance(tgt, (ast.List, ast.Tuple)):
            names += [e.value for e in tgt.elts if isinstance(e, ast.Constant) and isinstance(e.value, str)]
    return names


def public_entries(prog, an):
    entries = {}
    classes = set()
    for mod in prog.modules.values():
        if mod.relpath in SKIP_MODULES:
            continue
        for nm in exported_names(mod):
            obj = prog.resolve_expr(mod, ast.Name(nm, ast.Load()))
            if isinstance(obj, ast.FunctionDef):
                fq = an.fq_of(obj)
                if fq and fq.split("::")[0] not in SKIP_MODULES:
                    entries[fq] = "function %s" % nm
            elif isinstance(obj, ClassInfo):
                classes.add(obj)
    # exported classes, their bases (inherited public methods) and subclasses
    closure = set()
    for c in classes:
        for k in c.mro():
            closure.add(k)
    for c in closure:
        if c.module.relpath in SKIP_MODULES:
            continue
        for kind, suffix in (("methods", ""), ("setters", "@set")):
            for name, fn in getattr(c, kind).items():
                if kind == "methods" and name.startswith("_") and name not in ("__call__", "__init__", "__setattr__", "__getitem__", "__delitem__"):
                    continue
                fq = "%s::%s.%s%s" % (c.module.relpath, c.name, name, suffix)
                if fq in an.funcs:
                    entries[fq] = "method of exported class %s" % c.name
    return entries


ARRAYISH = alias.ARRAY_ROLE


def closure_rule(ctx, an=None, rule="R20c", prefix=None, floor=2):
    """Closures handed out as callables (drift functions, curve functions): their arguments are arrays of whoever calls them."""
    if an is None:
        an = alias.analyzed(ctx.prog)
    n_clos = 0
    for fq in sorted(an.escaping_closures):
        if prefix is not None and not fq.startswith(prefix):
            continue
        n_clos += 1
        s = an.summ[fq]
        bad = {p: t for p, t in s.mut.items() if t and ARRAYISH.match(p.lstrip("*"))}
        for p, terms in sorted(bad.items()):
            for term in sorted(terms):
                ctx.violation(rule, term[0], "the callable returned by %s writes in place into its argument `%s`: `%s` (%s)" % (fq.split(".<locals>.")[0], p, term[1][:90], term[2]), "closure:%s:%s" % (p, term[1]))
        if not bad:
            ctx.ok(rule, fq, "returned callable does not write into its arguments")
    ctx.floor(rule, "returned closures analysed", n_clos, floor)


def run(ctx):
    prog = ctx.prog
    an = alias.analyzed(prog)
    entries = public_entries(prog, an)
    ctx.floor("R20", "public entry points analysed", len(entries), 250)
    ctx.floor("R20", "function definitions summarised", len(an.funcs), 500)
    for fq, why in an.undecided:
        ctx.undecided("R20", fq, why)

    # ---- caller arrays
    found = {}  # terminal -> [(entry, param, chain)]
    n_params = 0
    for fq in sorted(entries):
        m, fn, ci, kind = an.funcs[fq]
        s = an.summ[fq]
        params = [a.arg for a in fn.args.posonlyargs + fn.args.args + fn.args.kwonlyargs]
        for p in params:
            if p in ("self", "cls"):
                continue
            n_params += 1
            terms = s.mut.get(p, {})
            if not terms:
                continue
            if (fq, p) in EXEMPT_PARAMS:
                ctx.note("R20", "%s(%s): documented output parameter, exempt: %s" % (fq, p, EXEMPT_PARAMS[(fq, p)]))
                continue
            if p in NON_ARRAY_PARAMS:
                ctx.note("R20", "%s(%s): mapping argument is modified (not an array; note only)" % (fq, p))
                continue
            for term, chain in terms.items():
                found.setdefault(term, []).append((fq, p, chain))
    for term in sorted(found):
        tfq, text, how = term
        hits = found[term]
        entry_list = sorted({"%s(%s)" % (f, p) for f, p, _ in hits})
        shortest = min(hits, key=lambda h: (len(h[2]), h[0]))
        ctx.violation(
            "R20",
            tfq,
            "caller array reaches in-place write `%s` (%s); %d public entry point/argument pairs, e.g. %s; chain: %s"
            % (text[:90], how, len(entry_list), ", ".join(entry_list[:4]), "  =>  ".join(shortest[2])),
            text,
        )
    closure_rule(ctx, an)
    ok_entries = 0
    for fq in sorted(entries):
        s = an.summ[fq]
        if not any(p for p in s.mut if (fq, p) not in EXEMPT_PARAMS and p not in NON_ARRAY_PARAMS):
            ok_entries += 1
            ctx.ok("R20", fq, "no parameter of this public entry point reaches an in-place write through view-preserving operations")

    # ---- stored results
    stored_sites = 0
    for fq in sorted(an.funcs):
        s = an.summ[fq]
        for lab, terms in s.mut_labels.items():
            if lab != "STORED":
                continue
            for term, chain in sorted(terms.items()):
                tfq, text, how = term
                ctx.violation("R20s", tfq, "a stored result obtained in %s reaches in-place write `%s` (%s); chain: %s" % (fq, text[:90], how, "  =>  ".join(chain)),
                              "stored:%s:%s" % (fq.split("::")[1], text))
    for fq in sorted(an.funcs):
        m, fn, ci, kind = an.funcs[fq]
        uses = any(isinstance(n, ast.Subscript) and isinstance(n.value, ast.Name) and n.value.id in ("fld", "self", "srf") for n in ast.walk(fn))
        if uses and "STORED" not in an.summ[fq].mut_labels:
            src = [n for n in ast.walk(fn) if isinstance(n, ast.Subscript) and isinstance(n.value, ast.Name) and n.value.id in ("fld", "srf") and n.value.id in [a.arg for a in fn.args.args]]
            if src:
                stored_sites += 1
                ctx.ok("R20s", fq, "stored result read here never reaches an in-place write")
    ctx.floor("R20s", "functions reading stored results", stored_sites + sum(1 for r in ctx.records if r["rule"] == "R20s" and r["status"] == "violation"), 3)

    # ---- arrays kept in object fields: a public entry stores a caller alias into self.<attr> and some method writes it in place
    store_by_attr = {}
    for fq in entries:
        m, fn, ci, kind = an.funcs[fq]
        for attr, labs in an.summ[fq].store.items():
            ps = sorted(l for l in labs if l.startswith("P:"))
            if ps:
                store_by_attr.setdefault((ci.name if ci else "?", attr), []).append((fq, ps))
    n_field = 0
    for fq in sorted(an.funcs):
        m, fn, ci, kind = an.funcs[fq]
        for lab, terms in an.summ[fq].mut_labels.items():
            if not lab.startswith("F:") or ci is None:
                continue
            attr = lab[2:]
            holders = [(k, v) for k, v in store_by_attr.items() if k[1] == attr and any(c.name == k[0] for c in ci.mro() + prog.subclasses(ci))]
            for term, chain in sorted(terms.items()):
                n_field += 1
                if holders:
                    ctx.violation("R20f", term[0], "self.%s may hold a caller's array (stored by %s) and is written in place by `%s`" % (attr, holders[0][1][0][0], term[1][:80]),
                                  "field:%s:%s" % (attr, term[1]))
                else:
                    ctx.ok("R20f", term[0], "in-place write on self.%s: no public entry point stores a caller array alias there" % attr)
    # ---- module-level mutable defaults: never mutated, never stored by reference into an object that later mutates them
    n_glob = 0
    glob_store = {}
    for fq in sorted(an.funcs):
        m, fn, ci, kind = an.funcs[fq]
        for lab, where in an.summ[fq].cmut.items():
            if lab.startswith("G:"):
                n_glob += 1
                ctx.violation("R20g", fq, "module-level default object %s is mutated in place: %s" % (lab[2:], where), "global-mutated:%s" % lab[2:])
        for attr, labs in an.summ[fq].store.items():
            for lab in labs:
                if lab.startswith("G:"):
                    glob_store.setdefault((ci.name if ci else "?", attr), []).append((fq, lab))
    for (cname, attr), holders in sorted(glob_store.items()):
        muts = []
        for fq in sorted(an.funcs):
            m, fn, ci, kind = an.funcs[fq]
            if ci is None:
                continue
            fam = {c.name for c in ci.mro()} | {c.name for c in prog.subclasses(ci)}
            if cname in fam:
                for lab, where in an.summ[fq].cmut.items():
                    if lab == "F:" + attr:
                        muts.append(where)
                for lab, terms in an.summ[fq].mut_labels.items():
                    if lab == "F:" + attr:
                        muts.append(sorted(terms)[0][0] + ": " + sorted(terms)[0][1][:60])
        n_glob += 1
        if muts:
            ctx.violation("R20g", holders[0][0], "the shared module-level object %s is stored by reference in self.%s (no copy) and that field is mutated in place (%s): every other user of the default sees the change"
                          % (holders[0][1][2:], attr, muts[0]), "global-aliased:%s:%s" % (holders[0][1][2:], attr))
        else:
            ctx.ok("R20g", holders[0][0], "module-level object %s is stored in self.%s, which is never mutated in place" % (holders[0][1][2:], attr))
    mutable_globals = sorted("%s::%s" % (m.relpath, k) for m in prog.modules.values() for k, v in m.assigns.items() if isinstance(v, (ast.Dict, ast.List, ast.Set)) and k != "__all__")
    ctx.ok("R20g", "src/gstools", "%d module-level mutable literals tracked (%s ...): none is mutated in place or aliased into mutated object state" % (len(mutable_globals), ", ".join(mutable_globals[:5])))
    ctx.floor("R20g", "module-level mutable literals", len(mutable_globals), 5)
    ctx.note("R20", "fixpoint in %d rounds; %d parameters of %d public entry points; %d clean entry points; fields holding caller aliases: %s"
             % (an.rounds, n_params, len(entries), ok_entries, sorted("%s.%s" % k for k in store_by_attr)))
    for n in sorted(set(an.notes))[:40]:
        ctx.note("R20", n)
    return (
        "Decides C20 at may-alias level: for every public entry point (names in __all__, public methods/setters/__call__/__init__ of exported classes) and every "
        "parameter, no value that may share memory with the argument (through the frozen table of view-preserving NumPy operations, container packing, "
        "in-repo function summaries computed to a fixpoint) reaches an in-place sink (subscript store/update, op= on an array, out=, in-place methods, .mask "
        "assignment); the same for arrays obtained from a Field's stored results. Over-approximate w.r.t. the op table; does not execute code."
    )
