"""Show the normal form of a function, optionally under a patch: python3 -m sa.shownorm <rel> <qualname> [patch.diff]"""
import ast
import sys

from .loader import Program
from .norm import function_table
from .selftest import _apply

if __name__ == "__main__":
    rel, q = sys.argv[1], sys.argv[2]
    ov = _apply("/repo", dict(patch=sys.argv[3])) if len(sys.argv) > 3 else None
    prog = Program("/repo", overrides=ov)
    mod = prog.mod(rel)
    print("norm_info:", prog.norm_info.get(rel))
    ft = function_table(mod.tree)
    for k in ft:
        if k == q or k.startswith(q + ".<locals>"):
            print("#", k)
            print(ast.unparse(ft[k]))
