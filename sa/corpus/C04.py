M = "covmodel/models.py"
B = "covmodel/base.py"
T = "covmodel/tools.py"
G = "field/generator.py"
S = "tools/special.py"
CASES = [
    dict(name="gaussian-dim-minus-1", file=M, expect="R04.1", old="        return (self.len_rescaled / 2.0 / np.sqrt(np.pi)) ** self.dim * np.exp(", new="        return (self.len_rescaled / 2.0 / np.sqrt(np.pi)) ** (self.dim - 1) * np.exp("),
    dict(name="gaussian-k-over-len", file=M, expect="R04.1", old="            -((k * self.len_rescaled / 2.0) ** 2)\n        )\n\n    def spectral_rad_cdf", new="            -((k / self.len_rescaled / 2.0) ** 2)\n        )\n\n    def spectral_rad_cdf"),
    dict(name="exponential-missing-len-power", file=M, expect="R04.1", old="            self.len_rescaled**self.dim\n            * sps.gamma((self.dim + 1) / 2.0)", new="            self.len_rescaled\n            * sps.gamma((self.dim + 1) / 2.0)"),
    dict(name="gaussian-cdf3-extra-len", file=M, expect="R04.1", old="            ) - r * self.len_rescaled / np.sqrt(np.pi) * np.exp(", new="            ) - r / np.sqrt(np.pi) * np.exp("),
    dict(name="gaussian-ppf-len-wrong-side", file=M, expect="R04.1", old="            return 2.0 / self.len_rescaled * sps.erfinv(u)", new="            return 2.0 * self.len_rescaled * sps.erfinv(u)"),
    dict(name="exp-ppf2-no-len", file=M, expect="R04.1", old="            return np.sqrt(u_power - 1.0) / self.len_rescaled", new="            return np.sqrt(u_power - 1.0)"),
    dict(name="matern-approx-branch-units", file=M, expect="R04.1", old="                * np.sqrt(1 + x / self.nu) ** (-self.dim)\n", new="                * np.sqrt(1 + k / self.nu) ** (-self.dim)\n"),
    dict(name="hyperspherical-origin-units", file=M, expect="R04.1", old="            (self.len_rescaled / 4) ** self.dim\n            / sps.gamma(self.dim / 2 + 1)", new="            (self.len_rescaled / 4) ** 2\n            / sps.gamma(self.dim / 2 + 1)"),
    dict(name="jbessel-cutoff-units", file=M, expect="R04.1", old="        k_ll = k < 1.0 / self.len_rescaled", new="        k_ll = k < self.len_rescaled"),
    dict(name="radfac-3d-power", file=T, expect="R04.1", old="        fac = 4 * np.pi * r**2", new="        fac = 4 * np.pi * r**3"),
    dict(name="radfac-general-power", file=T, expect="R04.1", old="            * r ** (dim - 1)", new="            * r ** dim"),
    dict(name="spectrum-times-var-squared", file=B, expect=["R04.1", "R04.3"], old="        return self.spectral_density(k) * self.var", new="        return self.spectral_density(k) * self.var**2"),
    dict(name="tpl-exp-fac-units", file=S, expect="R04.1", old="        fac = len_scale**dim * hurst * sps.gamma(d) / (np.pi**d * a)", new="        fac = len_scale * hurst * sps.gamma(d) / (np.pi**d * a)"),
    dict(name="tpl-gau-weights-mixed", file=S, expect="R04.1", old="    fac_low = len_low ** (2 * hurst)\n    spec_low = tpl_gau_spec_dens(k, dim, len_low, hurst)", new="    fac_low = len_low ** (hurst)\n    spec_low = tpl_gau_spec_dens(k, dim, len_low, hurst)"),
    dict(name="randmeth-amplitude-no-sqrt", file=G, expect="R04.1", old="        return np.sqrt(self.model.var / self._mode_no) * summed_modes + nugget", new="        return self.model.var / self._mode_no * summed_modes + nugget"),
    dict(name="fourier-no-prod-delta-k", file=G, expect="R04.1g", old="            self._model.spectrum(k_norm) * np.prod(self._delta_k)", new="            self._model.spectrum(k_norm)"),
    dict(name="fourier-delta-k-times-period", file=G, expect="R04.1g", old="            self._delta_k = 2.0 * np.pi / self._period * anis", new="            self._delta_k = 2.0 * np.pi * self._period * anis"),
    dict(name="sample-around-len", file=G, expect="R04.1g", old="                sample_around=1.0 / self.model.len_rescaled,", new="                sample_around=self.model.len_rescaled,"),
    dict(name="has-ppf-dim3", file=M, expect="R04.2", old="    def _has_ppf(self):\n        return self.dim in [1, 2]\n\n    def calc_integral_scale(self):  # noqa: D102\n        return self.len_rescaled * np.sqrt(np.pi) / 2.0", new="    def _has_ppf(self):\n        return self.dim in [1, 2, 3]\n\n    def calc_integral_scale(self):  # noqa: D102\n        return self.len_rescaled * np.sqrt(np.pi) / 2.0"),
    dict(name="has-cdf-too-narrow", file=M, expect="R04.2", old="    def _has_cdf(self):\n        return self.dim in [1, 2, 3]\n\n    def _has_ppf(self):\n        return self.dim in [1, 2]\n\n    def calc_integral_scale(self):  # noqa: D102\n        return self.len_rescaled\n", new="    def _has_cdf(self):\n        return self.dim in [1, 2]\n\n    def _has_ppf(self):\n        return self.dim in [1, 2]\n\n    def calc_integral_scale(self):  # noqa: D102\n        return self.len_rescaled\n"),
    dict(name="dist-func-ppf-unconditional", file=B, expect="R04.2", old="        if self.has_ppf:\n            ppf = self.spectral_rad_ppf", new="        ppf = getattr(self, \"spectral_rad_ppf\", None)"),
    dict(name="spectrum-times-sill", file=B, expect="R04.3", old="        return self.spectral_density(k) * self.var", new="        return self.spectral_density(k) * self.sill"),
    dict(name="rad-pdf-wrong-dim", file=T, expect="R04.3", old="        res = rad_fac(model.dim, r) * np.abs(model.spectral_density(r))", new="        res = rad_fac(model.dim - 1, r) * np.abs(model.spectral_density(r))"),
    dict(name="rad-pdf-no-clamp", file=T, expect="R04.3", old="    res = np.maximum(res, 0.0)\n    return res", new="    return res"),
    dict(name="sft-fixed-dim", file=T, expect="R04.3", old="    model._sft = SFT(ndim=model.dim, **model.hankel_kw)", new="    model._sft = SFT(ndim=3, **model.hankel_kw)"),
    dict(name="twin-gaussian-density-rewritten", kind="twin", file=M,
         old="        return (self.len_rescaled / 2.0 / np.sqrt(np.pi)) ** self.dim * np.exp(\n            -((k * self.len_rescaled / 2.0) ** 2)\n        )",
         new="        fac = (0.5 * self.len_rescaled / np.sqrt(np.pi)) ** self.dim\n        arg = 0.25 * (self.len_rescaled * k) ** 2\n        return fac * np.exp(-arg)"),
    dict(name="twin-radfac-sphere-formula", kind="twin", file=T, old="        fac = 4 * np.pi * r**2", new="        fac = 2 * np.pi * r * 2 * r"),
    # the state before the repair 4156808: the 2D ppf of the Exponential model inverts 1 - cdf
    dict(name="revert-exponential-ppf-2d", file="covmodel/models.py", expect="R04.9", edits=[
        dict(file="covmodel/models.py", old="            v = 1.0 - u\n", new="            v = u\n")]),
    dict(name="gaussian-cdf-3d-wrong-factor", file="covmodel/models.py", expect="R04.9", old="            ) - r * self.len_rescaled / np.sqrt(np.pi) * np.exp(\n", new="            ) - r * self.len_rescaled / np.pi * np.exp(\n"),
    dict(name="exponential-ppf-1d-missing-half", file="covmodel/models.py", expect="R04.9", old="            return np.tan(np.pi / 2 * u) / self.len_rescaled\n", new="            return np.tan(np.pi * u) / self.len_rescaled\n"),
    dict(name="twin-exponential-cdf-1d-reordered", kind="twin", file="covmodel/models.py", old="            return np.arctan(r * self.len_rescaled) * 2.0 / np.pi\n", new="            return 2.0 / np.pi * np.arctan(self.len_rescaled * r)\n"),
    # the state of 4156808 (first version of repair #24): the limit at u = 1 guarded by np.isclose(u, 1), which has a relative band
    dict(name="ppf-limit-relative-band", file="covmodel/models.py", expect="R04.10", edits=[
        dict(file="covmodel/models.py", old="            v = 1.0 - u\n", new=""),
        dict(file="covmodel/models.py", old="                v**2,\n                out=np.full_like(v, np.inf),\n                where=np.logical_not(np.isclose(v, 0)),\n",
             new="                (1 - u) ** 2,\n                out=np.full_like(u, np.inf),\n                where=np.logical_not(np.isclose(u, 1)),\n")]),
]
