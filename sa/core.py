"""Obligation bookkeeping, evidence, known findings, exit codes."""
import json
import os
import time

VERIF = os.path.dirname(os.path.dirname(os.path.abspath(__file__)))
REPO = os.environ.get("VERIF_REPO", "/repo")

TRUSTED_BASE = [
    "CPython ast module (parser) and this checker's Cython-subset front end (sa/pyxfront.py)",
    "NumPy view/copy/in-place semantics as tabulated in sa/alias.py",
    "class-hierarchy resolution of sa/loader.py (single inheritance, all bases in tree or ABC/rv_continuous)",
]
ASSUMPTIONS = [
    "no monkey-patching / dynamic code beyond the setattr idioms modelled",
    "the optional gstools_core backend is out of tree and not analysed",
    "compiled .so artefacts are assumed to be built from the .pyx sources analysed (Cython is not available to re-generate them)",
    "the check decides the named structural clauses (necessary conditions), not numerical behaviour",
]


class Ctx:
    """Collects obligations for one property run."""

    def __init__(self, prop, prog, tier="quick"):
        self.prop = prop
        self.prog = prog
        self.tier = tier
        self.records = []  # dict(rule, site, status, detail, key)
        self.floors = []  # (rule, what, count, floor)
        self.notes = []
        self.t0 = time.time()

    # status in ok | violation | undecided
    def ok(self, rule, site, detail=""):
        self.records.append(dict(rule=rule, site=site, status="ok", detail=detail))

    def violation(self, rule, site, detail, construct=""):
        key = "%s::%s::%s" % (rule, site, " ".join(str(construct).split()))
        self.records.append(dict(rule=rule, site=site, status="violation", detail=detail, key=key))

    def undecided(self, rule, site, detail):
        self.records.append(dict(rule=rule, site=site, status="undecided", detail=detail))

    def check(self, cond, rule, site, detail, construct=""):
        if cond:
            self.ok(rule, site, detail)
        else:
            self.violation(rule, site, detail, construct)
        return cond

    def note(self, rule, text):
        self.notes.append("%s: %s" % (rule, text))

    def floor(self, rule, what, count, floor):
        self.floors.append((rule, what, count, floor))

    def count(self, rule=None, status=None):
        return sum(
            1
            for r in self.records
            if (rule is None or r["rule"] == rule) and (status is None or r["status"] == status)
        )


def load_known(path=None):
    path = path or os.path.join(VERIF, "known_findings.json")
    if not os.path.exists(path):
        return {"findings": [], "fixed": []}
    with open(path) as fh:
        return json.load(fh)


def finish(ctx, explanation, level="other", extra_cov=None, selftest=None, seed=0, write=True):
    """Print the report, write evidence, return exit code (0 / 1 / 2)."""
    known = load_known()
    kf = {f["key"]: f for f in known.get("findings", []) if f.get("property") == ctx.prop}
    viol = [r for r in ctx.records if r["status"] == "violation"]
    und = [r for r in ctx.records if r["status"] == "undecided"]
    oks = [r for r in ctx.records if r["status"] == "ok"]
    new_viol = [r for r in viol if r["key"] not in kf]
    known_hit = [r for r in viol if r["key"] in kf]
    floor_fail = [f for f in ctx.floors if f[2] < f[3]]

    rules = sorted({r["rule"] for r in ctx.records})
    print("== %s (%s) : %d obligations over rules %s" % (ctx.prop, ctx.tier, len(ctx.records), ", ".join(rules)))
    for rule in rules:
        rs = [r for r in ctx.records if r["rule"] == rule]
        print(
            "   %-7s %3d obligations: %d ok, %d violation, %d undecided"
            % (rule, len(rs), sum(r["status"] == "ok" for r in rs), sum(r["status"] == "violation" for r in rs), sum(r["status"] == "undecided" for r in rs))
        )
    for f in ctx.floors:
        print("   floor %-7s %-40s measured=%d floor=%d%s" % (f[0], f[1], f[2], f[3], "  BELOW FLOOR" if f[2] < f[3] else ""))
    for n in ctx.notes:
        print("   NOTE " + n)
    for r in known_hit:
        print("KNOWN-FINDING: property=%s %s [%s] %s" % (ctx.prop, kf[r["key"]].get("what", r["detail"]), r["rule"], r["site"]))
    stale = [k for k in kf if k not in {r["key"] for r in viol}]
    for k in stale:
        print("   NOTE known finding no longer reproduced by the checker (fixed?): %s" % k)

    rc = 0
    replay = None
    if new_viol:
        rc = 1
        os.makedirs(os.path.join(VERIF, "reports"), exist_ok=True)
        replay = os.path.join(VERIF, "reports", "%s-violations.json" % ctx.prop)
        with open(replay, "w") as fh:
            json.dump(new_viol, fh, indent=1)
        for r in new_viol:
            print("   VIOLATION-DETAIL rule=%s site=%s :: %s\n      key=%s" % (r["rule"], r["site"], r["detail"], r["key"]))
        print("VIOLATION property=%s replay=%s" % (ctx.prop, replay))
    if und or floor_fail or (selftest and selftest.get("missed")):
        for r in und:
            print("ANALYSIS-ERROR undecided rule=%s site=%s :: %s" % (r["rule"], r["site"], r["detail"]))
        for f in floor_fail:
            print("ANALYSIS-ERROR instance count below floor: %s %s %d < %d" % f)
        if selftest and selftest.get("missed"):
            for m in selftest["missed"]:
                print("ANALYSIS-ERROR self-test miss: %s" % m)
        if rc == 0:
            rc = 2

    samples = []
    seen_rules = set()
    for r in ctx.records:
        if r["rule"] not in seen_rules or len(samples) < 6:
            if sum(1 for s in samples if s["rule"] == r["rule"]) < 2:
                samples.append({k: r[k] for k in ("rule", "site", "status", "detail")})
                seen_rules.add(r["rule"])
    distinct = len({(r["rule"], r["site"], r["detail"]) for r in ctx.records})
    cov = dict(
        explanation=explanation,
        obligations=len(ctx.records),
        discharged=len(oks),
        evaluations=max(len(ctx.records), 1),
        distinct_nontrivial=distinct,
        rule="one obligation per (rule, resolved construct in /repo/src/gstools); non-trivial = the construct was found and the rule evaluated on it; distinct by (rule, site, detail)",
        samples=samples[:24],
        checker_cmd="./check %s --tier %s" % (ctx.prop, ctx.tier),
        trusted_base=TRUSTED_BASE,
        rules={rule: sum(1 for r in ctx.records if r["rule"] == rule) for rule in rules},
        floors=[dict(rule=f[0], what=f[1], measured=f[2], floor=f[3]) for f in ctx.floors],
        notes=ctx.notes,
        known_findings=[dict(key=r["key"], what=kf[r["key"]].get("what", "")) for r in known_hit],
        new_violations=[dict(key=r["key"], detail=r["detail"]) for r in new_viol],
        undecided=len(und),
        analysed=dict(
            modules=len(ctx.prog.modules),
            functions=sum(1 for _ in ctx.prog.all_functions()),
            classes=sum(1 for _ in ctx.prog.all_classes()),
        ),
        exhaustive=True,
    )
    if selftest is not None:
        cov["selftest"] = selftest
    if extra_cov:
        cov.update(extra_cov)
    ev = dict(
        property_id=ctx.prop,
        tier=ctx.tier,
        seed=int(seed),
        level=level,
        coverage=cov,
        assumptions=ASSUMPTIONS,
        wall_s=round(time.time() - ctx.t0, 3),
        violations=len(new_viol),
    )
    if write:
        os.makedirs(os.path.join(VERIF, "evidence"), exist_ok=True)
        path = os.path.join(VERIF, "evidence", "%s.json" % ctx.prop)
        with open(path, "w") as fh:
            json.dump(ev, fh, indent=1, sort_keys=True)
        _validate(path)
    print("== %s: exit %d (%d ok, %d known, %d new violations, %d undecided) in %.2fs" % (ctx.prop, rc, len(oks), len(known_hit), len(new_viol), len(und), time.time() - ctx.t0))
    return rc


def _validate(path):
    try:
        import jsonschema  # present in python3-vt
    except Exception:
        return
    schema_path = "/root/.vp/EVIDENCE.schema.json"
    local = os.path.join(VERIF, "sa", "EVIDENCE.schema.json")
    sp = schema_path if os.path.exists(schema_path) else local
    if not os.path.exists(sp):
        return
    with open(sp) as fh:
        schema = json.load(fh)
    with open(path) as fh:
        jsonschema.validate(json.load(fh), schema)
