B = "covmodel/base.py"
T = "covmodel/tools.py"
CASES = [
    dict(name="revert-len-scale-latlon", file=B, expect="R14.2",
         old="""        self._len_scale, self._anis = set_len_anis(
            self.dim, len_scale, self.anis, self.latlon
        )
        self._check_or_restore(_len_scale=old[0], _anis=old[1])

    @property
    def rescale(self):""",
         new="""        self._len_scale, anis = set_len_anis(
            self.dim, len_scale, self.anis, self.latlon
        )
        if self.latlon:
            self._anis = np.array((self.dim - 1) * [1], dtype=np.double)
        else:
            self._anis = anis
        self.check_arg_bounds()

    @property
    def rescale(self):"""),
    dict(name="nugget-setter-no-check", file=B, expect="R14.1", old="        self._nugget = float(nugget)\n        self._check_or_restore(_nugget=old)\n", new="        self._nugget = float(nugget)\n"),
    dict(name="var-setter-check-before-store", file=B, expect="R14.1",
         old="        self._var = float(var) / self.var_factor()\n        self._check_or_restore(_var=old)\n", new="        self._check_or_restore(_var=old)\n        self._var = float(var) / self.var_factor()\n"),
    dict(name="angles-setter-no-check", file=B, expect="R14.1",
         old="""            self.dim, angles, self.latlon, self.temporal
        )
        self.check_arg_bounds()

    @property
    def integral_scale(self):""",
         new="""            self.dim, angles, self.latlon, self.temporal
        )

    @property
    def integral_scale(self):"""),
    dict(name="set-dim-no-check", file=T, expect="R14.1",
         old="""            model.dim, model._angles, model.latlon, model.temporal
        )
    model.check_arg_bounds()""",
         new="""            model.dim, model._angles, model.latlon, model.temporal
        )"""),
    dict(name="setattr-no-check", file=B, expect="R14.1",
         old="""            if had_value:
                self._check_or_restore(**{name: old})
            else:
                self.check_arg_bounds()""",
         new="""            pass"""),
    dict(name="init-check-too-early", file=B, expect="R14.1",
         old="""        # final check for parameter bounds
        self.check_arg_bounds()
        # additional checks for the optional arguments (provided by user)
        self.check_opt_arg()""",
         new="""        # additional checks for the optional arguments (provided by user)
        self.check_opt_arg()"""),
    dict(name="check-skips-optargs", file=B, expect="R14.1", old="        res.update(self.opt_arg_bounds)\n        return res", new="        return res"),
    dict(name="nugget-unnormalised", file=B, expect="R14.2", old="        self._nugget = float(nugget)\n        self._check_or_restore(_nugget=old)\n", new="        self._nugget = nugget\n        self._check_or_restore(_nugget=old)\n"),
    dict(name="anis-setter-bypasses-normaliser", file=B, expect="R14.2",
         old="""        self._len_scale, self._anis = set_len_anis(
            self.dim, self.len_scale, anis, self.latlon
        )
        self._check_or_restore(_len_scale=old[0], _anis=old[1])""",
         new="""        self._anis = np.atleast_1d(anis)
        self.check_arg_bounds()"""),
    dict(name="anis-setter-forgets-latlon", file=B, expect="R14.2",
         old="""        self._len_scale, self._anis = set_len_anis(
            self.dim, self.len_scale, anis, self.latlon
        )
        self._check_or_restore(_len_scale=old[0], _anis=old[1])""",
         new="""        self._len_scale, self._anis = set_len_anis(
            self.dim, self.len_scale, anis
        )
        self.check_arg_bounds()"""),
    dict(name="comparator-open-accepts-boundary", file=T, expect="R14.3", old="        if np.any(val <= bnd[0]):\n            error_case = 2", new="        if np.any(val < bnd[0]):\n            error_case = 2"),
    dict(name="comparator-closed-rejects-boundary", file=T, expect="R14.3", old="        if np.any(val > bnd[1]):\n            error_case = 3", new="        if np.any(val >= bnd[1]):\n            error_case = 3"),
    dict(name="comparator-swapped-type-index", file=T, expect="R14.3", old='    if bnd[2][1] == "c":\n        if np.any(val > bnd[1]):', new='    if bnd[2][0] == "c":\n        if np.any(val > bnd[1]):'),
    dict(name="two-element-open", file=T, expect="R14.3", old='        bnd.append("cc")  # use closed intervals by default', new='        bnd.append("oo")  # use closed intervals by default'),
    dict(name="code-3-not-raised", file=T, expect="R14.3",
         old="""        if error_case == 3:
            raise ValueError(f"{arg} needs to be <= {bnd[1]}, got: {val}")
""", new=""),
    dict(name="check-bounds-accepts-equal", file=T, expect="R14.3", old="    if bounds[1] <= bounds[0]:\n        return False", new="    if bounds[1] < bounds[0]:\n        return False"),
    dict(name="bounds-setter-unvalidated", file=B, expect="R14.3",
         old="""        if not check_bounds(bounds):
            raise ValueError(
                f"Given bounds for 'nugget' are not valid, got: {bounds}"
            )
        self._nugget_bounds = bounds""", new="""        self._nugget_bounds = bounds"""),
    dict(name="sill-cached", file=B, expect="R14.4",
         old="        return self.var + self.nugget\n", new="        self._sill = self.var + self.nugget\n        return self._sill\n"),
    dict(name="sill-uses-raw-var", file=B, expect="R14.4", old="        return self.var + self.nugget\n", new="        return self._var + self.nugget\n"),
    dict(name="hankel-setter-no-sft", file=B, expect="R14.4",
         old="        if self.dim is not None:\n            self._sft = SFT(ndim=self.dim, **self.hankel_kw)\n", new=""),
    dict(name="set-dim-no-sft", file=T, expect="R14.4", old="    model._sft = SFT(ndim=model.dim, **model.hankel_kw)\n", new=""),
    dict(name="set-dim-keeps-angles", file=T, expect="R14.5",
         old="""    if model._angles is not None:
        model._angles = set_model_angles(
            model.dim, model._angles, model.latlon, model.temporal
        )
""", new=""),
    dict(name="field-dim-wrong", file=B, expect="R14.4", old="        return 2 + int(self.temporal) if self.latlon else self.dim\n", new="        return 2 if self.latlon else self.dim\n"),
    # twins
    dict(name="twin-check-via-local", kind="twin", file=B,
         old="        self._nugget = float(nugget)\n        self._check_or_restore(_nugget=old)\n", new="        new_nugget = float(nugget)\n        self._nugget = float(new_nugget)\n        self._check_or_restore(_nugget=old)\n"),
    dict(name="twin-comparator-rewritten", kind="twin", file=T,
         old="        if np.any(val <= bnd[0]):\n            error_case = 2", new="        if np.any(np.logical_not(val > bnd[0])):\n            error_case = 2"),
    # the state before the repair 749293a: store, check, and keep the rejected value
    dict(name="revert-var-restore", file="covmodel/base.py", expect="R14.12",
         old="        old = self._var\n        self._var = float(var) / self.var_factor()\n        self._check_or_restore(_var=old)\n",
         new="        self._var = float(var) / self.var_factor()\n        self.check_arg_bounds()\n"),
    dict(name="restore-wrong-field", file="covmodel/base.py", expect="R14.12",
         old="        old = self._nugget\n        self._nugget = float(nugget)\n        self._check_or_restore(_nugget=old)\n",
         new="        old = self._var\n        self._nugget = float(nugget)\n        self._check_or_restore(_nugget=old)\n"),
    dict(name="old-value-read-after-store", file="covmodel/base.py", expect="R14.12",
         old="        old = self._nugget\n        self._nugget = float(nugget)\n        self._check_or_restore(_nugget=old)\n",
         new="        self._nugget = float(nugget)\n        old = self._nugget\n        self._check_or_restore(_nugget=old)\n"),
    dict(name="helper-swallows-error", file="covmodel/base.py", expect="R14.12",
         old="            for name, value in old.items():\n                super().__setattr__(name, value)\n            raise\n",
         new="            for name, value in old.items():\n                super().__setattr__(name, value)\n"),
    dict(name="len-scale-restores-only-one-field", file="covmodel/base.py", expect="R14.12",
         old="        self._check_or_restore(_len_scale=old[0], _anis=old[1])\n\n    @property\n    def rescale(self):",
         new="        self._check_or_restore(_len_scale=old[0])\n\n    @property\n    def rescale(self):"),
]
