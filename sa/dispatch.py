"""Dispatch interpreter: which callee does a string-keyed dispatch function select for a given key?

Interprets (never executes) the small statement set such functions are written in: literal dict / tuple tables, `key == "c"`,
`key in TABLE`, `key.endswith("c")`, `key.startswith("c")`, loops over literal tuples of (pattern, callee) pairs, `return callee(...)`,
`return TABLE[key](...)`, `raise`.  Result: the callee's name, "<raise>" or None (fell through)."""
import ast


class DispatchError(Exception):
    pass


def module_tables(tree):
    """{name: value node} of the module-level `NAME = <literal dict / tuple / list>` assignments (lookup tables)"""
    out = {}
    for st in tree.body:
        if isinstance(st, ast.Assign) and len(st.targets) == 1 and isinstance(st.targets[0], ast.Name) and isinstance(st.value, (ast.Dict, ast.Tuple, ast.List, ast.Constant)):
            out[st.targets[0].id] = st.value
    return out


def select(fn, key_param, key, tables=None, want="callee"):
    """want="callee": name of the function whose call is returned; want="value": the (literal) value returned."""
    env = {key_param: key}
    tables = tables or {}

    def val(e):
        if isinstance(e, ast.Constant):
            return e.value
        if isinstance(e, ast.Name):
            if e.id in env:
                return env[e.id]
            if e.id in tables:
                return val(tables[e.id])
            return ("fn", e.id)
        if isinstance(e, (ast.Tuple, ast.List)):
            return [val(x) for x in e.elts]
        if isinstance(e, ast.Dict):
            return {val(k): val(v) for k, v in zip(e.keys, e.values)}
        if isinstance(e, ast.Subscript):
            base, idx = val(e.value), val(e.slice)
            try:
                return base[idx]
            except (KeyError, IndexError, TypeError):
                raise DispatchError("lookup %s failed for key %r" % (ast.unparse(e), key))
        if isinstance(e, ast.Call) and isinstance(e.func, ast.Attribute) and e.func.attr in ("endswith", "startswith", "lower", "strip") and isinstance(val(e.func.value), str):
            recv = val(e.func.value)
            args = [val(a) for a in e.args]
            return getattr(recv, e.func.attr)(*args)
        if isinstance(e, ast.Call) and getattr(e.func, "id", "") == "dict" and not e.args:
            return {k.arg: val(k.value) for k in e.keywords}
        raise DispatchError("expression %s" % ast.unparse(e))

    def test(t):
        if isinstance(t, ast.Compare) and len(t.ops) == 1:
            l, r = val(t.left), val(t.comparators[0])
            op = t.ops[0]
            if isinstance(op, ast.Eq):
                return l == r
            if isinstance(op, ast.NotEq):
                return l != r
            if isinstance(op, ast.In):
                return l in r
            if isinstance(op, ast.NotIn):
                return l not in r
        if isinstance(t, ast.BoolOp):
            vals = [test(v) for v in t.values]
            return all(vals) if isinstance(t.op, ast.And) else any(vals)
        if isinstance(t, ast.UnaryOp) and isinstance(t.op, ast.Not):
            return not test(t.operand)
        v = val(t)
        if isinstance(v, bool):
            return v
        raise DispatchError("test %s" % ast.unparse(t))

    class Done(Exception):
        pass

    result = [None]

    def run(stmts):
        for s in stmts:
            if isinstance(s, ast.Expr) and isinstance(s.value, ast.Constant):
                continue
            if isinstance(s, ast.Assign) and len(s.targets) == 1:
                t = s.targets[0]
                if isinstance(t, ast.Subscript) and isinstance(t.value, ast.Name) and t.value.id not in env:
                    continue  # filling the keyword dict that is forwarded: not part of the selection
                if isinstance(s.value, ast.Call) and getattr(s.value.func, "id", "") == "str" and len(s.value.args) == 1 and isinstance(t, ast.Name) and ast.unparse(s.value.args[0]) == t.id:
                    continue  # key = str(key)
                v = val(s.value)
                if isinstance(t, ast.Name):
                    env[t.id] = v
                elif isinstance(t, (ast.Tuple, ast.List)) and isinstance(v, list) and len(v) == len(t.elts):
                    for tt, vv in zip(t.elts, v):
                        env[tt.id] = vv
                else:
                    raise DispatchError("assignment %s" % ast.unparse(s)[:60])
            elif isinstance(s, ast.If):
                run(s.body if test(s.test) else s.orelse)
            elif isinstance(s, ast.For):
                for item in val(s.iter):
                    if isinstance(s.target, ast.Name):
                        env[s.target.id] = item
                    elif isinstance(s.target, (ast.Tuple, ast.List)) and len(s.target.elts) == len(item):
                        for tt, vv in zip(s.target.elts, item):
                            env[tt.id] = vv
                    else:
                        raise DispatchError("loop target %s" % ast.unparse(s.target))
                    run(s.body)
            elif isinstance(s, ast.Return):
                if want == "value" and s.value is not None:
                    result[0] = val(s.value)
                    raise Done()
                if isinstance(s.value, ast.Call):
                    f = val(s.value.func)
                    if isinstance(f, tuple) and f[0] == "fn":
                        result[0] = f[1]
                        raise Done()
                raise DispatchError("return %s" % ast.unparse(s)[:60])
            elif isinstance(s, ast.Raise):
                result[0] = "<raise>"
                raise Done()
            else:
                raise DispatchError("statement %s" % type(s).__name__)

    try:
        run(fn.body)
    except Done:
        pass
    return result[0]
