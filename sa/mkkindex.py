"""Regenerate kernel/mutants/INDEX.json: for every kernel mutant, the properties whose quick check reports a new violation for it.
python3 -m sa.mkkindex   (prints mutants that no check reports, and mutants not reported by the property they were written for)"""
import json
import multiprocessing as mp
import os
import sys

from . import core
from .loader import AnalysisError, Program
from .selftest import _apply, _keys

PROPS = ["C%02d" % i for i in range(2, 21)]
KM = os.path.join(core.VERIF, "kernel", "mutants")


def _base(prop):
    from .check import run_rules

    ctx, _ = run_rules(prop, Program("/repo"), "quick")
    return prop, sorted(_keys(ctx))


def _job(a):
    name, prop, base = a
    from .check import run_rules

    try:
        prog = Program("/repo", overrides=_apply("/repo", dict(patch=os.path.join(KM, name + ".diff"))))
        ctx, _ = run_rules(prop, prog, "quick")
    except AnalysisError:
        return name, prop, False
    return name, prop, bool(_keys(ctx) - set(base[prop]))


def main():
    names = sorted(f[:-5] for f in os.listdir(KM) if f.endswith(".diff"))
    with mp.get_context("fork").Pool(16) as pool:
        base = dict(pool.map(_base, PROPS))
        res = pool.map(_job, [(n, p, base) for n in names for p in PROPS], chunksize=1)
    idx = {n: [] for n in names}
    for n, p, hit in res:
        if hit:
            idx[n].append(p)
    written_for = {}
    for f in os.listdir(KM):
        if f.endswith(".json") and f != "INDEX.json":
            for i, m in enumerate(json.load(open(os.path.join(KM, f))), 1):
                written_for["%s_%d" % (f[:-5], i)] = m.get("property")
    for n in names:
        if not idx[n]:
            print("NOT CAUGHT", n)
        elif written_for.get(n) and written_for[n] not in idx[n]:
            print("not by its own property", n, written_for[n], idx[n])
    json.dump(idx, open(os.path.join(KM, "INDEX.json"), "w"), indent=1, sort_keys=True)
    print("INDEX.json: %d mutants" % len(idx))
    return 0


if __name__ == "__main__":
    sys.exit(main())
