"""Regenerates /verif/MANIFEST.json from the table below:  python3 -m sa.manifest_gen"""
import json
import os

VERIF = os.path.dirname(os.path.dirname(os.path.abspath(__file__)))

NOTE = (
    "Static analysis of /repo/src/gstools (ast + purpose-built Cython-subset front end); decides the named structural "
    "clauses only (necessary conditions), not numerical behaviour. Trusted: CPython ast, the NumPy op tables and frozen "
    "instance tables listed in DESIGN.md sections 3/6 and Appendix A."
)

CLAIMED = {
    "C15": dict(
        technique="static loop-ownership/privatisation analysis of prange regions + interval analysis of kernel indices + wrapper/kernel signature agreement (AST)",
        text="Every prange/parallel region of the three Cython kernels is shown race-free and free of cross-iteration scalar accumulation "
        "(so the summation order per output element is fixed for every thread count), every index is shown in bounds under the wrapper "
        "contract, and the 9 Python wrappers are shown to pass the kernels' parameters in the kernels' order. Exhaustive over the loops/sites "
        "in the tree; does not decide numerical equality with the defining sums nor compiled-artefact-vs-source agreement.",
        ref="DESIGN.md section 4 C15, section 3 E9",
    ),
}

CLAIMED.update({
    "C08": dict(
        technique="order-type evaluation of bin/NaN/mask guards (truth tables over path conditions), symbolic loop-bound analysis, dispatch-table agreement (AST over the Cython kernels)",
        text="The bin-membership guard of both pair kernels is evaluated over all 5 order types of the distance against the two edges and must equal the documented "
        "half-open interval; loop bounds are shown to enumerate each unordered pair / (cell, lag) once; count and value are updated together under a guard that "
        "excludes a pair iff either value is missing; dispatch tables of estimator, normalisation and distance agree between Python and the kernels. "
        "Exhaustive over the guard's order types and all accumulation sites; does not decide numerical constants or geometry formulas.",
        ref="DESIGN.md section 4 C08, section 3 E5/E10",
    ),
    "C16": dict(
        technique="AST dataflow/index-agreement check of the solenoidal projector in summate_incompr and of IncomprRandMeth.__call__; coordinate-frame rule for the vector components",
        text="Shows the projector is e1[d] - k[d,j]k[a,j]/|k_j|^2 with |k_j|^2 taken from the same mode column and `a` equal to the axis carrying the mean velocity in both the "
        "kernel and the generator, which makes k.p(k)=0 an identity of the code shape; dim restricted to {2,3}; the vector components must be returned in the user's frame "
        "when positions were rotated into the model frame (one recorded known finding: rotated isotropic models). Does not decide divergence values or the variance split.",
        ref="DESIGN.md section 4 C16",
    ),
})

CLAIMED.update({
    "C20": dict(
        technique="interprocedural may-alias / in-place-mutation dataflow analysis (flow-sensitive abstract interpretation per function, summaries to a fixpoint) over a frozen NumPy view/copy/in-place table",
        text="For every public entry point (294 signatures, 662 parameters) no value that may share memory with an argument - through view-preserving NumPy "
        "conversions, container packing, property getters and in-repo calls - reaches an in-place write; likewise for arrays read back from a Field's stored results "
        "and for caller arrays kept in object fields. Covers every aliasing layout at once (over-approximation: every op that can return a view is taken to return one). "
        "Four genuine defects found this way were repaired in /repo (fix: commits) and are re-introduced by the self-test corpus.",
        ref="DESIGN.md section 4 C20, section 3 E3",
    ),
})

CLAIMED.update({
    "C11": dict(
        technique="path-sensitive derived-state (typestate-like) analysis: predicate abstraction over branch atoms with exhaustive path enumeration and callee inlining; identity-comparison lint; set comparison of setter write-sets vs compare() read-set; kernel locality lint",
        text="Every feasible path (308 on today's tree) of every public method and property setter of RandMeth, IncomprRandMeth and Fourier is enumerated; on each, every "
        "derived field must be recomputed after the last write of each of its sources (frozen, reviewed dependency table) - this quantifies over all call histories because "
        "coherence is an inductive invariant of single calls. Plus: no identity comparison of non-singletons anywhere, generators hold a deep copy of the model, CovModel.__eq__ "
        "reads every field a setter writes (and must be exact: known finding), kernels read positions only at the output index, no global RNG, update precedes generation. "
        "Two genuine defects were repaired (fix: commits), one is a recorded known finding.",
        ref="DESIGN.md section 4 C11, section 3 E2/E4",
    ),
    "C17": dict(
        technique="same path-sensitive derived-state analysis for the Fourier generator + must-precede guard check (parity) + skeleton match of the mode-grid construction",
        text="After every change of period, mode_no or model (all feasible paths of Fourier.update and its setters) delta_k, the mode mesh, amplitudes and spectrum factors are "
        "recomputed in dependency order; odd mode numbers raise before a mesh is built; the mesh is arange(-n/2 dk, n/2 dk, dk) per axis with dk = 2 pi/period*[1, anis] and the phase "
        "is <k, x> over all components entering through sin/cos only. These are necessary conditions of exact periodicity; floating-point exactness is not decided.",
        ref="DESIGN.md section 4 C17",
    ),
})

CLAIMED.update({
    "C14": dict(
        technique="path-sensitive must-follow analysis (check_arg_bounds after the last parameter store on every feasible path), def-use check of parameter stores against their normalisers, abstract interpretation of the bound comparator over order types, derived-state analysis",
        text="All feasible paths of the 8 parameter setters, set_arg_bounds, set_dim and __setattr__ end with a bounds check after the last parameter store; every store to a parameter "
        "field comes from its normaliser with the model's own dim/latlon/temporal; check_arg_in_bounds is interpreted for all 4 interval types x 5 order types and accepts exactly the "
        "documented interval; derived quantities have no backing store; set_dim refreshes dimension-dependent state (three classes with dimension-dependent optional-argument bounds are "
        "recorded known findings). One genuine defect (lat-lon len_scale setter dropping the time ratio) was repaired.",
        ref="DESIGN.md section 4 C14",
    ),
    "C07": dict(
        technique="path-sensitive must-follow analysis (invalidation after every write of a cache source), structural check of the reuse branch, exactness lint of the change detector",
        text="For every writer of a source of the cached kriging results (set_condition, model/mean/normalizer/trend setters as inherited by Krige, CondSRF.set_pos / pos / mesh_type) every "
        "feasible normal-exit path must invalidate the stored results after the last source write; the reuse branch must read exactly what it tested and require unchanged positions. "
        "Decides clause (b) (stale reuse) structurally; the conditioning formula only by its shape. set_condition was repaired; the un-invalidated setters and the tolerance-based "
        "position detector are recorded known findings with concrete failing histories.",
        ref="DESIGN.md section 4 C07",
    ),
})

CLAIMED.update({
    "C18": dict(
        technique="domain derivation from partial operations + constant folding over the order types of the parameters (sign classes), compared with the declared *_range; stage-sequence (mirror) comparison of the two pipelines; order-type evaluation of the range test",
        text="For each of the 6 normalizers, both directions and every sign class of every parameter (order types against the special values and coefficient sign changes), the "
        "declared open range must equal the interval on which the transform's log/log1p/non-integer-power operands (affine in the data) are positive - this is what makes out-of-range "
        "input NaN and in-range values invertible; apply/remove pipelines must be mirror images with paired inverse functions and reciprocal exponents per special-value branch; the "
        "NaN template and open-interval test are evaluated over all order types. Does not decide monotonicity, derivative correctness or likelihood/fit. Two genuine defects repaired.",
        ref="DESIGN.md section 4 C18",
    ),
})

CLAIMED.update({
    "C19": dict(
        technique="order-type evaluation of the class masks of array_discrete for 1-4 thresholds (bounded instantiation of the class loop), sibling agreement of the 9 Field-level wrappers, skeleton match of documented compositions",
        text="The class masks are evaluated over every order type of a value against 1-4 ascending thresholds: each value receives exactly the documented class (t_{k-1}, t_k] and none is "
        "left unassigned; threshold construction per mode; the wrappers agree on mean (0 iff removed by processing) / variance (sill) arguments, normality guards and forwarding, and `apply` "
        "reaches every exported transformation; binary = discrete with two values; default bounds of arcsine/U-quadratic are the variance-preserving half-widths. Target distributions as such are not decided.",
        ref="DESIGN.md section 4 C19",
    ),
})

CLAIMED.update({
    "C02": dict(
        technique="must-precede path analysis of the dimension gate + constant folding of check_dim / default bounds over dim 1-5 against a frozen literature validity table (containment by value) + call-shape check of the Yadrenko variants",
        text="On every path of set_dim the final dimension is validated before it is stored and a rejection warns; for all 17 shipped classes check_dim (folded over dim 1-5) accepts only valid "
        "dimensions and the declared bounds of every shape parameter (folded at dim 1-4) are contained in the validity interval known from the literature, defaults inside bounds; Yadrenko variants use the "
        "chordal lag with the model's geo_scale. These are necessary conditions of 'valid where validity is claimed'; the sign of the spectra themselves is not decided.",
        ref="DESIGN.md section 4 C02",
    ),
})

CLAIMED.update({
    "C12": dict(
        technique="inverse-pair (sibling) agreement over normalised ASTs, coordinate-frame typestate dataflow over the SRF/Krige/CondSRF pipelines, constant folding, swapped-argument lint over resolved call sites",
        text="isometrize/anisometrize and the matrix builders are shown to be inverse pairs by construction (reversed order of paired inverse factors; diag(1,1/anis) vs diag(1,anis); Givens products on "
        "opposite sides with negated angles over identical planes and alternating signs; proper plane rotations); every generator/distance/drift/trend sink in the pipelines receives coordinates in the frame it "
        "expects and positions are isometrized exactly once; padding conventions of ratios/angles; no swapped arguments at 185 resolved call sites. Numerical orthogonality / pipeline equality are not decided.",
        ref="DESIGN.md section 4 C12, section 3 E7/E8",
    ),
    "C13": dict(
        technique="who-passes-what dataflow over all sphere-conversion call sites, forward/inverse sibling agreement, forcing-site checks (AST)",
        text="Every one of the 8 call sites of latlon2pos/pos2latlon/chordal<->great-circle passes the caller's geo_scale; geo_scale and the latlon flag are forwarded along vario_estimate -> standard_bins and "
        "Krige.set_condition -> vario_estimate; forward and inverse conversions agree on keywords, time handling (last ratio, divide/multiply, appended last), row conventions and inverse elementary functions; "
        "lat-lon forcing sites (dim, spatial ratios, angles, chordal lags, radian bins, refused cases) are in place; ratios are only stored via set_len_anis. Round-trip identity as a value is not decided.",
        ref="DESIGN.md section 4 C13",
    ),
})

CLAIMED.update({
    "C05": dict(
        technique="writer/reader layout agreement between the kriging matrix and its right-hand sides (block stores with their path conditions), mirrored-store check, frame typestate, chunk-slice structure, kernel index structure (AST)",
        text="Kriging matrix and right-hand sides use the same row layout under the same guards; sizes and paddings agree; every off-diagonal block has its mirrored block (symmetric system by construction), "
        "the constraint block is zeroed last, measurement error only on the data diagonal; both sides use the same model's covariance family on distances between isometrized positions and the same drift functions; "
        "chunks are disjoint contiguous slices each written from its own right-hand sides; kernel computes c^T M v and v^T M v; the 5 variants forward their parameters unchanged. Numerical equality with a direct "
        "solve is not decided.",
        ref="DESIGN.md section 4 C05",
    ),
    "C06": dict(
        technique="def-use dominance of the variance clamp over all exits, wiring checks of exact mode, exhaustiveness of pseudo-inverse selection (AST)",
        text="Every kriging variance returned or stored passes through max(sill - k^T K^-1 k, 0) followed only by shape-preserving operations (so it is never negative); the nugget-aware covariance is used on the "
        "right-hand side iff exact, explicit errors are refused in exact mode, the default error is the model's nugget, exactness is immutable, sill / 0 are written exactly at zero lag; pseudo-inverse type validated "
        "and dispatched exhaustively; the assembly of the kriging system and its derived state (rules shared with C05) are checked because exactness at the data presupposes them. "
        "Interpolation exactness, the sill bound and duplicate-point behaviour as values are not decided.",
        ref="DESIGN.md section 4 C06",
    ),
})

CLAIMED.update({
    "C09": dict(
        technique="parent-shape dataflow over the kernels (positions/fields only enter through differences), paired-selection and stage-order checks over vario_estimate with reaching definitions, parity/symmetry abstract interpretation",
        text="Every read of a position in the variogram kernels sits inside a difference of one coordinate at two points (cos(lat) for great-circle distances) and every read of a field value inside a difference or NaN test, "
        "so translations of positions / additive constants cannot change any output; every sub-selection is applied to positions and values alike with the point count refreshed; masked / no-data values become NaN; the "
        "field is copied first; stages run in the documented order; down-sampling is seeded and without replacement; directions reaching the kernel and the separated-directions test are the normalised ones; 'ij' grids; "
        "estimator even and distance symmetric. Rotation covariance / quadratic scaling as values are not decided.",
        ref="DESIGN.md section 4 C09",
    ),
})

CLAIMED.update({
    "C10": dict(
        technique="writer/reader agreement of the fit parameter vector (packer vs residual closure vs post-processing), path-condition comparison of closure writes against post-processing writes, order-type table of the start-value test (AST)",
        text="The optimiser's vector is packed and unpacked with one layout at all three sites; bounds come from the parameters' own bounds; start values are kept only strictly inside their bounds; every model attribute the "
        "residual function sets during optimisation is re-established from the optimum (or restored) afterwards under an implied condition with the variance written last; dictionary entries equal what was just written to "
        "the model; the four sill cases keep var + nugget = sill by construction. One genuine bookkeeping defect was repaired. Recovery of parameters / optimiser behaviour is not decided.",
        ref="DESIGN.md section 4 C10",
    ),
})

CLAIMED.update({
    "C03": dict(
        technique="abstract evaluation of _init_subclass over all 16 subsets of defining functions, sibling (skeleton) agreement of the variant methods, units-of-measure type inference with symbolic exponents, cross-site agreement of TPL weights, belief-contradiction lint (rounding vs truncation)",
        text="For every way a subclass can define a model (16 subsets) the four functions end up bound acyclically and the derived bodies are the stated identities; axis/spatial/Yadrenko/nugget variants differ from each other "
        "only in the base function; cor/correlation/integral-scale/TPL formulas are dimensionally homogeneous; formula switches on shape parameters are paired between cor and spectral_density; integer orders of special "
        "functions are rounded under an is-nearly-integer guard; truncated-power-law weights len**(2 hurst) agree at all six sites. These are necessary conditions; equality with the documented closed forms as values is not decided.",
        ref="DESIGN.md section 4 C03",
    ),
    "C04": dict(
        technique="units-of-measure type inference (L^e V^c with linear-form exponents over dim/hurst/..., per dim-branch path) over every analytic spectral formula and the generator amplitude/weight/wave-number expressions; constant folding of cdf/ppf offers; composition checks; alias check of the Hankel defaults",
        text="Every analytic spectral density, radial cdf/ppf, surface factor, radial pdf, spectrum and the generators' amplitude, weight, wave-number and phase expressions are dimensionally homogeneous with the contract "
        "(k: 1/L, density: L^dim, spectrum: V L^dim, pdf: L, cdf: 1, ppf: 1/L, amplitudes sqrt(V), phases 1); a radial cdf/ppf is offered exactly where implemented; spectrum = var x density, pdf = surface x |density| clamped, "
        "default density = Hankel transform for the current dimension with per-model settings. A wrong numeric factor keeps units: that the density IS the Fourier transform of the correlation is not decided.",
        ref="DESIGN.md section 4 C04, section 3 E6",
    ),
})

NOT_APPLICABLE = {
    "C01": "distributional property over seeds (ensemble mean/covariance at Monte-Carlo rate); no code-shape clause beyond those decided under C04/C11/C12 - needs sampling or quadrature, a different technique family",
}

PENDING = "designed in DESIGN.md, check not built yet (work in progress) - not claimed until the rule module exists and passes its self-test"


def main():
    props = [json.loads(l) for l in open(os.path.join(VERIF, "properties.jsonl"))]
    checks = []
    na = []
    for p in props:
        pid = p["id"]
        if pid in CLAIMED:
            c = CLAIMED[pid]
            checks.append(
                dict(
                    property_id=pid,
                    quick_cmd="./check %s --tier quick" % pid,
                    thorough_cmd="./check %s --tier thorough" % pid,
                    evidence_file="evidence/%s.json" % pid,
                    replay_cmd_template="cat {path}",
                    engine="sa",
                    level_claimed=dict(category="other", text=c["text"], design_ref=c["ref"]),
                    level_note=NOTE + (" " + c["note"] if c.get("note") else ""),
                    technique=c["technique"],
                )
            )
        else:
            na.append(dict(property_id=pid, reason=NOT_APPLICABLE.get(pid, PENDING)))
    man = dict(
        version=1,
        setup_cmd="true",
        hooks=dict(
            guard="GSTOOLS_VERIF",
            enable="none needed: static checks read the sources, no instrumentation is compiled in (guard declared but unused)",
            baseline_off_cmd="cd /repo && /venv/bin/python -m pytest -ra -q -p no:cacheprovider --timeout=900 --continue-on-collection-errors",
            source_commits=SOURCE_COMMITS,
            add_only=True,
        ),
        engines=[
            dict(name="sa", path="sa/", serves_properties=sorted(CLAIMED), kind_free_text="repository-specific static analysis (Python ast, stdlib only): resolved class/call model, CFG/path enumeration, may-alias, derived-state, order-type, units, frame, sibling and prange engines"),
        ],
        checks=checks,
        notes="All checks: ./check <id> [--tier quick|thorough]; exit 0 holds / 1 VIOLATION / 2 ANALYSIS-ERROR (fail-closed). Thorough adds the in-memory self-test corpus (seeded mutants must be caught, benign twins must stay silent). Known findings: known_findings.json.",
        not_applicable=na,
    )
    with open(os.path.join(VERIF, "MANIFEST.json"), "w") as fh:
        json.dump(man, fh, indent=1)
    print("MANIFEST.json: %d checks, %d not_applicable" % (len(checks), len(na)))


SOURCE_COMMITS = ["c203823", "0fd70cf", "8261140", "84533cc", "edeae19", "d657645", "566cb9d", "703cc68", "c388d81", "c08711b", "759d47b", "5c1e00f", "eb5eb1e", "0401e81", "a654d56", "6590ce1", "22c1aeb", "5bf918c", "695412e", "4156808", "749293a", "b710a26"]

if __name__ == "__main__":
    main()
