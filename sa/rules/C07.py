"""C07 Conditioned fields never reuse stale kriging results: cache coherence of the stored kriging results."""
import ast

from .. import paths
from .. import ordtype as O
from ..loader import AnalysisError, norm_stmt
from .C16 import signed_factors, terms

KB = "krige/base.py"
CS = "field/cond_srf.py"
FB = "field/base.py"

# frozen table (1) of DESIGN section 3/E4: sources of the cached results STORED[krige_var] / STORED[raw_krige]
KRIGE_SOURCES = {"_cond_pos", "_cond_val", "_cond_err", "_cond_ext_drift", "_krige_pos", "_krige_mat", "_drift_functions"}
FIELD_SOURCES = {"_model", "_mean", "_normalizer", "_trend", "_pos", "_mesh_type"}
INVALIDATORS = ("self.delete_fields", "self.krige.delete_fields", "Field.delete_fields", "Krige.delete_fields", "CondSRF.delete_fields")


def _invalidates(ev):
    return (ev[0] == "call" and ev[1] in INVALIDATORS) or (ev[0] == "enter" and ev[1].endswith("delete_fields"))


def writer_rule(ctx, rule="R07.1"):
    prog = ctx.prog
    krige = prog.cls(KB, "Krige")
    cond = prog.cls(CS, "CondSRF")
    total = 0
    # (class explored, entry kind, name, source fields, forwarded-to-krige?)
    table = [
        (krige, "methods", "set_condition", KRIGE_SOURCES),
        (krige, "setters", "model", FIELD_SOURCES),
        (krige, "setters", "mean", FIELD_SOURCES),
        (krige, "setters", "normalizer", FIELD_SOURCES),
        (krige, "setters", "trend", FIELD_SOURCES),
        (cond, "methods", "set_pos", FIELD_SOURCES),
        (cond, "setters", "pos", FIELD_SOURCES),
        (cond, "setters", "mesh_type", FIELD_SOURCES),
    ]
    for ci, kind, name, sources in table:
        owner, fn = ci.find(name, kind)
        if fn is None:
            raise AnalysisError("anchor vanished: %s.%s" % (ci.name, name))
        qual = "%s.%s%s" % (ci.name, name, "@set" if kind == "setters" else "")
        site = "%s::%s" % (ci.module.relpath, qual) + ("" if owner is ci else " (inherited from %s)" % owner.name)
        forwards_to_krige = ci is cond
        # no inlining of Field machinery for the CondSRF entries except its own super().set_pos
        flt = (lambda q: q.endswith(".set_pos") or q.endswith("pos@set") or q.endswith("mesh_type@set")) if forwards_to_krige else None
        ex = paths.Explorer(prog, ci, inline_filter=flt)
        res = ex.explore(fn, qual)
        total += len(res)
        normal = [p for p, k in res if k == "normal"]
        bad = {}
        for p in normal:
            last_w, wtext, last_inv = -1, "", -1
            deleted_false = any(k.endswith("['deleted']") and not v for k, v in p.assign.items())
            for i, ev in enumerate(p.events):
                if ev[0] == "write" and ev[1] in sources:
                    last_w, wtext = i, ev[3]
                elif ev[0] == "store-other" and forwards_to_krige and ev[1].startswith("self.krige."):
                    last_w, wtext = i, ev[3]
                elif _invalidates(ev):
                    last_inv = i
            if last_w < 0:
                continue
            if forwards_to_krige and name == "set_pos":
                # set_pos invalidates exactly when the inherited set_pos reports a change (info['deleted'])
                if deleted_false:
                    continue
                inv_self = any(_invalidates(ev) and "krige" not in ev[1] for ev in p.events)
                inv_krige = any(ev[0] == "call" and ev[1] == "self.krige.delete_fields" for ev in p.events)
                changed = any(k.startswith("old_type") or "_pos_equal" in k for k in p.assign)
                if inv_krige or not changed:
                    continue
                del inv_self
            elif last_inv > last_w:
                continue
            bad.setdefault(wtext, []).append(paths.describe(p))
        if bad:
            for wtext in sorted(bad):
                ctx.violation(rule, site, "source of the cached kriging results is written (`%s`) and the stored results are not invalidated before a normal exit (%d path(s); e.g. [%s])"
                              % (wtext[:80], len(bad[wtext]), bad[wtext][0]), "no-invalidate:%s" % qual)
        else:
            ctx.ok(rule, site, "every write of a cache source is followed by delete_fields() on all %d normal-exit paths" % len(normal))
    ctx.floor(rule, "paths explored", total, 20)
    ctx.note(rule, "Krige.set_drift_functions changes _drift_functions without rebuilding the kriging matrix; the documented refresh is set_condition(), which invalidates")
    # Field.set_pos deletes own fields when type or positions changed
    sp = prog.func(FB, "Field.set_pos")
    from ..small import _sym_subst, sym_eval, sym_text

    ifs = [s for s in sp.body if isinstance(s, ast.If) and any("delete_fields" in ast.unparse(x) for x in s.body)]
    want_test = "old_type != self.mesh_type or not _pos_equal(old_pos, self.pos)"
    ok = len(ifs) == 1 and sym_text(_sym_subst(ifs[0].test, sym_eval(sp.body, stop=ifs[0], opaque=("old_type", "old_pos")))) == want_test
    if ok:
        # the deletion is reported: either the info dict is updated in the same arm, or the returned dict carries the very same condition
        reported = any(norm_stmt(x) == "info_ret['deleted'] = True" for x in ifs[0].body)
        for r in [x for x in ast.walk(sp) if isinstance(x, ast.Return) and x.value is not None]:
            val = _sym_subst(r.value, sym_eval(sp.body, stop=r, opaque=("old_type", "old_pos")))
            for d in [x for x in ast.walk(val) if isinstance(x, ast.Dict)]:
                for k_, v_ in zip(d.keys, d.values):
                    if isinstance(k_, ast.Constant) and k_.value == "deleted" and sym_text(v_) == want_test:
                        reported = True
        ok = reported
    ctx.check(ok, rule, FB + "::Field.set_pos", "stored fields are deleted and reported as deleted whenever mesh type or positions changed", "set-pos")
    olds = {ast.unparse(n.targets[0]): ast.unparse(n.value) for n in sp.body if isinstance(n, ast.Assign)}
    idx = {ast.unparse(s): i for i, s in enumerate(sp.body)}
    ok = olds.get("old_pos") == "copy(self.pos)" and olds.get("old_type") == "copy(self.mesh_type)" and idx.get("old_pos = copy(self.pos)", 99) < idx.get("self.pos = pos", -1)
    ctx.check(ok, rule, FB + "::Field.set_pos", "the comparison uses copies of type/positions taken before the new ones are stored", "snapshot")


def reuse_rule(ctx, rule="R07.2"):
    prog = ctx.prog
    fn = prog.func(CS, "CondSRF.__call__")
    site = CS + "::CondSRF.__call__"
    reuse_if = [s for s in fn.body if isinstance(s, ast.If) and any(norm_stmt(x) == "reuse = True" for x in s.body)]
    if len(reuse_if) != 1:
        raise AnalysisError("anchor vanished: reuse branch in CondSRF.__call__")
    ri = reuse_if[0]
    conj = [ast.unparse(v) for v in ri.test.values] if isinstance(ri.test, ast.BoolOp) and isinstance(ri.test.op, ast.And) else []
    tested = sorted(c for c in conj if " in " in c)
    loads = [s for s in ri.body if isinstance(s, ast.Assign) and isinstance(s.value, ast.Tuple)]
    ok = False
    read = []
    if len(loads) == 1:
        read = [ast.unparse(v) for v in loads[0].value.elts]
        ok = read == ["self[name[2]]", "self.krige[krige_name[1]]"] and tested == sorted(["name[2] in self.field_names", "krige_name[1] in self.krige.field_names"])
    ctx.check(ok, rule, site, "the reuse branch reads exactly the two cached results whose presence it tested: tested %s, read %s" % (tested, read), "tested-read")
    ctx.check("not info['deleted']" in conj, rule, site, "reuse additionally requires that set_pos did not report a change of positions", "not-deleted")
    els = [s for s in ri.orelse if isinstance(s, ast.Assign)]
    ok = any(norm_stmt(s) == "rawkrige, krige_var = self.krige(**kwargs)" for s in els) and any(norm_stmt(s) == "reuse = False" for s in els)
    ctx.check(ok, rule, site, "otherwise both results are recomputed by the kriging call", "recompute")
    kw = {}
    for s in fn.body:
        if isinstance(s, ast.Assign) and isinstance(s.targets[0], ast.Subscript) and ast.unparse(s.targets[0].value) == "kwargs":
            kw[s.targets[0].slice.value] = ast.unparse(s.value)
    ok = kw.get("only_mean") == "False" and kw.get("return_var") == "True" and kw.get("post_process") == "False" and kw.get("store") == "[False, krige_name[1] if krige_save[1] else False]" and kw.get("mesh_type") == "mesh_type"
    ctx.check(ok, rule, site, "the kriging call is forced to return the raw field and variance and stores the variance under the tested name: %s" % kw, "kwargs")
    # info comes from pre_pos(pos, mesh_type, info=True)
    pp = [s for s in fn.body if isinstance(s, ast.Assign) and "self.pre_pos" in ast.unparse(s.value)]
    ok = len(pp) == 1 and ast.unparse(pp[0].value) == "self.pre_pos(pos, mesh_type, info=True)" and ast.unparse(pp[0].targets[0]) == "(iso_pos, shape, info)"
    ctx.check(ok, rule, site, "position change information comes from pre_pos(pos, mesh_type, info=True)", "info")
    # raw kriging field is stored only when it was recomputed
    st = [s for s in fn.body if isinstance(s, ast.If) and ast.unparse(s.test) == "not reuse"]
    stb = [norm_stmt(x) for x in st[0].body] if len(st) == 1 else []
    store_forms = ("self.post_field(rawkrige, name[2], False, save[2])", "stored = self.post_field(rawkrige, name[2], False, save[2])")
    ok = any(x in store_forms for x in stb) and all(x in store_forms or x.startswith("self._krige_var_ref = ") or x.startswith("self._raw_krige_ref = ") for x in stb)
    ctx.check(ok, rule, site, "the raw kriging field is stored unprocessed under the name the reuse test looks for", "store-raw")
    # pre_pos -> set_pos(info=True) plumbing
    pre = prog.func(FB, "Field.pre_pos")
    ok = any(norm_stmt(s) == "info_ret = self.set_pos(pos, mesh_type, info=True)" for s in ast.walk(pre) if isinstance(s, ast.Assign))
    ctx.check(ok, rule, FB + "::Field.pre_pos", "pre_pos obtains the deletion info from set_pos (overridden by CondSRF to also clear the krige object)", "prepos")
    sp = prog.func(CS, "CondSRF.set_pos")
    body = [norm_stmt(s) for s in sp.body if not (isinstance(s, ast.Expr) and isinstance(s.value, ast.Constant))]
    ok = body[:2] == ["info_ret = super().set_pos(pos, mesh_type, info=True)", "if info_ret['deleted']: self.krige.delete_fields()"]
    ctx.check(ok, rule, CS + "::CondSRF.set_pos", "a position change clears the stored fields of the CondSRF and of its krige object", "condsrf-set-pos")


def provenance_rule(ctx, rule="R07.8"):
    """The cached raw kriging field lives in the CondSRF, the kriging variance in the Krige object.  Presence of the two NAMES is no
    evidence that they stem from the same kriging call: Krige.__call__ is public and stores a new variance under the same name (after
    set_condition deleted the old one), while the CondSRF still holds the raw field of the old conditions.  The reuse test must tie
    the raw field to the very variance object it was computed with."""
    prog = ctx.prog
    fn = prog.func(CS, "CondSRF.__call__")
    site = CS + "::CondSRF.__call__"
    reuse_if = [s for s in fn.body if isinstance(s, ast.If) and any(norm_stmt(x) == "reuse = True" for x in s.body)]
    if len(reuse_if) != 1:
        raise AnalysisError("anchor vanished: reuse branch in CondSRF.__call__")
    ri = reuse_if[0]
    conj = ri.test.values if isinstance(ri.test, ast.BoolOp) and isinstance(ri.test.op, ast.And) else [ri.test]
    ties = []
    for c in conj:
        if isinstance(c, ast.Compare) and len(c.ops) == 1 and isinstance(c.ops[0], ast.Is):
            sides = [ast.unparse(c.left), ast.unparse(c.comparators[0])]
            stored = [x for x in sides if x.startswith("self.krige[")]
            priv = [x for x in sides if x.startswith("self._")]
            if stored and priv:
                ties.append((stored[0], priv[0]))
    kc = prog.func("krige/base.py", "Krige.__call__")
    public_producer = any(isinstance(n, ast.Call) and isinstance(n.func, ast.Attribute) and n.func.attr == "post_field" for n in ast.walk(kc))
    if not public_producer:
        raise AnalysisError("anchor vanished: Krige.__call__ stores its results through post_field")
    if not ties:
        ctx.violation(rule, site, "reuse is decided by the presence of the names only; Krige.__call__ (public) re-creates the variance name after set_condition() while this "
                      "object keeps the raw kriging field of the old conditions: no test ties the cached raw field to the variance it was computed with", "no-provenance")
        return
    stored, priv = ties[0]
    updates = [n for n in ast.walk(fn) if isinstance(n, ast.Assign) and ast.unparse(n.targets[0]) == priv]
    ok = bool(updates) and all(ast.unparse(u.value) == "krige_var" or (isinstance(u.value, ast.IfExp) and ast.unparse(u.value.body) == "krige_var" and ast.unparse(u.value.orelse) == "None") for u in updates) and all(any(u is x for x in ast.walk(ri.orelse_node)) if hasattr(ri, "orelse_node") else True for u in updates)
    in_else = all(any(u is x for st in ri.orelse for x in ast.walk(st)) for u in updates)
    after = all(u._ord > ri._ord for u in updates)
    ctx.check(ok and (in_else or after), rule, site, "the reuse test requires %s to be the very object (%s) remembered when the raw kriging field was computed; it is updated from `krige_var` on the recompute path"
              % (stored, priv), "provenance")
    # the remembered variance must go together with the raw field actually STORED: post_field(rawkrige, name[2], False, <save flag>) stores iff the flag
    pf = [n for n in ast.walk(fn) if isinstance(n, ast.Call) and ast.unparse(n.func) == "self.post_field" and len(n.args) >= 2 and ast.unparse(n.args[1]) == "name[2]"]
    flag = ast.unparse(pf[0].args[3]) if len(pf) == 1 and len(pf[0].args) >= 4 else ({k.arg: ast.unparse(k.value) for k in pf[0].keywords}.get("save") if len(pf) == 1 else None)
    if flag is not None and flag not in ("True",):
        tied = True
        for u in updates:
            v = u.value
            via_ifexp = isinstance(v, ast.IfExp) and ast.unparse(v.test) == flag and ast.unparse(v.body) == "krige_var" and ast.unparse(v.orelse) == "None"
            via_if = any(isinstance(s2, ast.If) and ast.unparse(s2.test) == flag and any(u is x for x in ast.walk(s2)) for s2 in ast.walk(fn))
            tied = tied and (via_ifexp or via_if)
        ctx.check(tied, rule, site, "the variance object is remembered only when the raw kriging field was actually stored (flag `%s`); otherwise an older stored raw field would be paired with it" % flag, "provenance-stored")
    guarded = [u for u in updates if not in_else and after]
    for u in guarded:
        par_ok = any(isinstance(s2, ast.If) and ast.unparse(s2.test) == "not reuse" and any(u is x for x in ast.walk(s2)) for s2 in fn.body)
        ctx.check(par_ok, rule, site, "the remembered variance object is replaced only when the kriging results were recomputed", "provenance-guard")
    # the raw kriging field is stored under a caller-chosen NAME: the field found under today's name must be the very array that was stored
    # together with the remembered variance (alternating names across set_condition() otherwise pair an old field with the new variance)
    raw_ties = []
    for c in conj:
        if isinstance(c, ast.Compare) and len(c.ops) == 1 and isinstance(c.ops[0], ast.Is):
            sides = [ast.unparse(c.left), ast.unparse(c.comparators[0])]
            st_ = [x for x in sides if x == "self[name[2]]"]
            pv_ = [x for x in sides if x.startswith("self._")]
            if st_ and pv_:
                raw_ties.append(pv_[0])
    if not raw_ties:
        ctx.violation(rule, site, "the reuse test ties the kriging variance to the remembered object, but the raw kriging field only by its name `name[2]`: a field stored under that name "
                      "by an earlier call (before the conditions changed) would be reused", "no-raw-provenance")
    else:
        from ..small import _sym_subst, sym_eval, sym_text

        ups = [n for n in ast.walk(fn) if isinstance(n, ast.Assign) and ast.unparse(n.targets[0]) == raw_ties[0]]
        good = bool(ups)
        # post_field stores np.asarray(field).reshape(...), a NEW array object: the object to remember is the one post_field returns (or the
        # stored field read back), never the array handed in
        stored_texts = ("self.post_field(rawkrige, name[2], False, save[2])", "self[name[2]]")
        for u in ups:
            v = u.value
            owner = next((s2 for s2 in ast.walk(fn) if isinstance(s2, ast.If) and any(u is x for x in s2.body)), None)
            env = sym_eval(owner.body if owner is not None else fn.body, stop=u)
            body_txt = sym_text(_sym_subst(v.body if isinstance(v, ast.IfExp) else v, env))
            via_ifexp = isinstance(v, ast.IfExp) and (flag is None or ast.unparse(v.test) == flag) and body_txt in stored_texts and ast.unparse(v.orelse) == "None"
            via_if = (not isinstance(v, ast.IfExp)) and body_txt in stored_texts and (flag in (None, "True") or any(isinstance(s2, ast.If) and ast.unparse(s2.test) == flag and any(u is x for x in ast.walk(s2)) for s2 in ast.walk(fn)))
            recompute_only = any(isinstance(s2, ast.If) and ast.unparse(s2.test) == "not reuse" and any(u is x for x in ast.walk(s2)) for s2 in fn.body) or any(u is x for st2 in ri.orelse for x in ast.walk(st2))
            good = good and (via_ifexp or via_if) and recompute_only
        ctx.check(good, rule, site, "the stored raw kriging field must be the very array (%s) stored together with the remembered variance; it is remembered as the object post_field stored (its return value), on the recompute path, only when stored" % raw_ties[0],
                  "provenance-raw")


RESULT_NEUTRAL_KRIGE_ARGS = {"chunk_size": "only splits the target points into chunks; the results are the same"}


def call_inputs_rule(ctx, rule="R07.9"):
    """Every argument of Krige.__call__ that the caller of CondSRF.__call__ can still set through **kwargs and that changes the kriging
    results must keep the reuse branch from being taken (the cached results were computed with the previous value)."""
    prog = ctx.prog
    fn = prog.func(CS, "CondSRF.__call__")
    site = CS + "::CondSRF.__call__"
    kc = prog.func("krige/base.py", "Krige.__call__")
    params = [a.arg for a in kc.args.args[1:]] + [a.arg for a in kc.args.kwonlyargs]
    forced = set()
    for st in fn.body:
        if isinstance(st, ast.Assign) and isinstance(st.targets[0], ast.Subscript) and ast.unparse(st.targets[0].value) == "kwargs" and isinstance(st.targets[0].slice, ast.Constant):
            forced.add(st.targets[0].slice.value)
    reuse_if = [s for s in fn.body if isinstance(s, ast.If) and any(norm_stmt(x) == "reuse = True" for x in s.body)]
    if len(reuse_if) != 1:
        raise AnalysisError("anchor vanished: reuse branch in CondSRF.__call__")
    test_txt = ast.unparse(reuse_if[0].test)
    own = {a.arg for a in fn.args.args} | {a.arg for a in fn.args.kwonlyargs}
    n = 0
    for p_ in params:
        if p_ in forced or p_ in RESULT_NEUTRAL_KRIGE_ARGS:
            continue
        if p_ in ("pos", "mesh_type") and p_ in own:
            continue  # handled through pre_pos / info['deleted'] (R07.2)
        n += 1
        ok = ("kwargs.get('%s')" % p_) in test_txt or ("'%s' in kwargs" % p_) in test_txt or ("'%s' not in kwargs" % p_) in test_txt
        ctx.check(ok, rule, site, "kriging input `%s` can be passed through **kwargs; the reuse test must exclude calls that pass it (test: %s)" % (p_, test_txt[:120]), "call-input:" + p_)
    ctx.floor(rule, "user-controlled kriging inputs of the call", n, 1)


def detector_reference_rule(ctx, rule="R07.10"):
    """The change detector compares the positions of this call with the positions STORED by the previous call.  If the stored tuple
    shares memory with the caller's array, an in-place change of that array changes both sides of the comparison at once: the
    positions count as unchanged and the cached kriging results of the old positions are reused."""
    from .. import alias

    an = alias.analyzed(ctx.prog)
    n = 0
    fld = ctx.prog.cls(FB, "Field")
    for ci in [fld] + list(ctx.prog.subclasses(fld)):
        for kind, sfx in (("setters", "@set"), ("methods", "")):
            for name, fn in getattr(ci, kind).items():
                fq = "%s::%s.%s%s" % (ci.module.relpath, ci.name, name, sfx)
                sm = an.summ.get(fq)
                if sm is None:
                    continue
                direct = any(isinstance(x, ast.Attribute) and x.attr == "_pos" and isinstance(x.ctx, ast.Store) for x in ast.walk(fn))
                for attr, labs in sorted(sm.store.items()):
                    if attr != "_pos" or not direct:
                        continue
                    n += 1
                    ps = sorted(l for l in labs if l.startswith("P:"))
                    ctx.check(not ps, rule, fq, "the stored positions do not share memory with the caller's array (may alias: %s)" % ps, "pos-alias:" + ",".join(ps))
    ctx.floor(rule, "stores of the position tuple", n, 1)


def mesh_type_writers(ctx, rule="R07.12"):
    """set_pos remembers the OLD mesh type before it stores the new one and invalidates on a change.  Any other method that writes the mesh
    type beforehand (the convenience wrappers structured / unstructured) hides the change - allowed only for the very first call, i.e.
    guarded by exactly `self.pos is None`."""
    prog = ctx.prog
    fld = prog.cls(FB, "Field")
    n = 0
    for ci in [fld] + list(prog.subclasses(fld)):
        for kind, sfx in (("methods", ""), ("setters", "@set")):
            for name, fn in getattr(ci, kind).items():
                if name in ("set_pos", "__init__") or (kind == "setters" and name == "mesh_type"):
                    continue
                for st in ast.walk(fn):
                    if isinstance(st, ast.Assign) and any(isinstance(t, ast.Attribute) and isinstance(t.value, ast.Name) and t.value.id == "self" and t.attr in ("mesh_type", "_mesh_type") for t in st.targets):
                        n += 1
                        pc = O.path_condition(fn, st)
                        ok = any(p and ast.unparse(e) == "self.pos is None" for e, p in pc)
                        ctx.check(ok, rule, "%s::%s.%s%s" % (ci.module.relpath, ci.name, name, sfx), "mesh type written outside set_pos only while no positions are present yet (guards: %s)"
                                  % [("" if p else "not ") + ast.unparse(e) for e, p in pc], "mesh-type-write:" + norm_stmt(st)[:40])
    ctx.floor(rule, "mesh-type stores outside set_pos", n, 2)


def detector_rule(ctx, rule="R07.3"):
    fn = ctx.prog.func(FB, "_pos_equal")
    tol = sorted({ast.unparse(n.func) for n in ast.walk(fn) if isinstance(n, ast.Call) and ast.unparse(n.func) in ("np.allclose", "np.isclose")})
    ctx.check(not tol, rule, FB + "::_pos_equal", "the position-change detector gating reuse is exact (tolerance-based calls: %s)" % tol, "tolerance:" + ",".join(tol))
    # the comparison of the coordinates runs for EVERY axis: it sits inside the loop over the axis pairs and a difference returns False there
    loops = [l for l in fn.body if isinstance(l, ast.For) and "zip(pos1, pos2)" in ast.unparse(l.iter)]
    cmp_calls = ("np.allclose", "np.array_equal", "np.isclose", "np.all")
    in_loop = [c for l in loops for c in ast.walk(l) if isinstance(c, ast.Call) and ast.unparse(c.func) in cmp_calls]
    outside = [c for c in ast.walk(fn) if isinstance(c, ast.Call) and ast.unparse(c.func) in cmp_calls and not any(c is x for x in in_loop)]
    ok_axes = len(loops) == 1 and bool(in_loop) and not outside and any(isinstance(i_, ast.If) and any(isinstance(r, ast.Return) and ast.unparse(r.value) == "False" for r in i_.body)
                                                                         and any(c is x for c in in_loop for x in ast.walk(i_.test)) for i_ in loops[0].body)
    ctx.check(ok_axes, rule, FB + "::_pos_equal", "the coordinates of every axis are compared inside the loop over the axes, a difference on any axis answers False (comparisons outside the loop: %d)" % len(outside), "every-axis")
    lens = [ast.unparse(n.test) for n in ast.walk(fn) if isinstance(n, ast.If)]
    ctx.check("len(pos1) != len(pos2)" in lens and "len(p1) != len(p2)" in lens and "pos1 is None or pos2 is None" in lens, rule, FB + "::_pos_equal",
              "differing number of axes / points or a missing position tuple count as changed", "shape")


def formula_rule(ctx, rule="R07.5"):
    prog = ctx.prog
    fn = prog.func(CS, "CondSRF.__call__")
    site = CS + "::CondSRF.__call__"
    ret = [s for s in fn.body if isinstance(s, ast.Return)]
    ok = False
    if len(ret) == 1 and isinstance(ret[0].value, ast.Call):
        kw = {k.arg: k.value for k in ret[0].value.keywords}
        if "field" in kw:
            tf = sorted((s,) + signed_factors(t)[1:] for s, t in terms(kw["field"]))
            ok = tf == sorted([(1, ["rawkrige"], []), (1, ["rawfield", "var_scale"], []), (1, ["nugget"], [])]) and ast.unparse(kw.get("process")) == "post_process"
    ctx.check(ok, rule, site, "conditioned field = raw kriging field + var_scale * unconditional field + nugget, post-processed once", "formula")
    rf = [s for s in fn.body if isinstance(s, ast.Assign) and ast.unparse(s.targets[0]) == "rawfield"]
    ok = len(rf) == 1 and ast.unparse(rf[0].value) == "np.reshape(self.generator(iso_pos, add_nugget=False), shape)"
    ctx.check(ok, rule, site, "the unconditional field is generated without nugget at the isometrized target positions", "rawfield")
    gs = [s for s in fn.body if isinstance(s, ast.Assign) and "get_scaling" in ast.unparse(s.value)]
    ok = len(gs) == 1 and norm_stmt(gs[0]) == "var_scale, nugget = self.get_scaling(krige_var, shape)"
    ctx.check(ok, rule, site, "scaling is derived from the kriging variance of the same call", "scaling-src")
    sc = prog.func(CS, "CondSRF.get_scaling")
    ifs = [s for s in sc.body if isinstance(s, ast.If)]
    ok = len(ifs) == 1 and ast.unparse(ifs[0].test) == "self.model.nugget > 0"
    if ok:
        els = [norm_stmt(s) for s in ifs[0].orelse]
        ok = els == ["var_scale = np.sqrt(krige_var / self.model.var)", "nugget = 0"]
        th = [norm_stmt(s) for s in ifs[0].body]
        ok = ok and th == [
            "var_scale = np.maximum(krige_var - self.model.nugget, 0)",
            "nug_scale = np.sqrt((krige_var - var_scale) / self.model.nugget)",
            "var_scale = np.sqrt(var_scale / self.model.var)",
            "nugget = nug_scale * self.generator.get_nugget(shape)",
        ]
    ctx.check(ok, rule, CS + "::CondSRF.get_scaling", "scale = sqrt(kriging variance share / model variance); nugget share scaled separately", "scaling")


def deletion_rule(ctx, rule="R07.7"):
    """Invalidation = Field.delete_fields -> __delitem__: it must remove EVERY stored result.  A loop that walks the live name list
    while its body removes entries from that list skips every second name (stale `krige_var` survives set_condition)."""
    from .. import alias

    an = alias.analyzed(ctx.prog)
    sites = 0
    for fq, sm in sorted(an.summ.items()):
        for lab, where in sm.szmut.items():
            if lab == "F:_field_names" and where.startswith(fq + ":"):
                sites += 1
    ctx.floor(rule, "statements resizing the list of stored result names", sites, 2)
    hz = {k: v for k, v in an.iter_hazards.items() if "_field_names" in v}
    for (fq, stmt), detail in sorted(hz.items()):
        ctx.violation(rule, fq, "stored results are removed from the name list while a loop iterates that list (every second entry is skipped, stale results survive invalidation): `%s` %s" % (stmt, detail), "iter-resize:" + stmt)
    other = {k: v for k, v in an.iter_hazards.items() if k not in hz}
    for (fq, stmt), detail in sorted(other.items()):
        ctx.note(rule, "container resized while iterated (not a stored-result list): %s `%s` %s" % (fq, stmt, detail))
    if not hz:
        ctx.ok(rule, FB + "::Field.__delitem__/delete_fields", "no call path iterates the live list of stored result names while removing entries from it (%d resizing statements, interprocedural may-alias)" % sites)
    dl = ctx.prog.func(FB, "Field.delete_fields")
    ok = any(isinstance(n, ast.Delete) and len(n.targets) == 1 and isinstance(n.targets[0], ast.Subscript) and ast.unparse(n.targets[0].value) == "self" for n in ast.walk(dl))
    ctx.check(ok, rule, FB + "::Field.delete_fields", "delete_fields removes through `del self[...]` (the one place that drops both the attribute and its name)", "del-self")


def run(ctx):
    from .C11 import generator_coherence

    generator_coherence(ctx, rule="R07.11")  # the unconditional part must be generated from the current model and seed: generator state (shared with C11)
    deletion_rule(ctx)
    writer_rule(ctx)
    reuse_rule(ctx)
    provenance_rule(ctx)
    call_inputs_rule(ctx)
    detector_reference_rule(ctx)
    mesh_type_writers(ctx)
    detector_rule(ctx)
    from .C11 import update_before_generate

    update_before_generate(ctx, rule="R07.4")
    formula_rule(ctx)
    from .C05 import krige_state

    krige_state(ctx, rule="R07.6")
    return (
        "Decides clause (b) of C07 at the structural level: every writer of a source of the cached kriging results (conditions, kriging matrix, model/mean/normalizer/trend, "
        "positions/mesh type) invalidates the stored results on all feasible normal-exit paths, or is reported; the reuse branch reads exactly the results it tested for, requires "
        "unchanged positions, and the detector must be exact; update precedes generation; the conditioning formula has its documented shape. NOT decided: values of the conditioned field."
    )
