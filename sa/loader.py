"""E0/E1: load src/gstools into a resolved program model (modules, classes, MRO, properties)."""
import ast
import os

from . import norm, pyxfront


class AnalysisError(Exception):
    """The checker cannot decide (vanished anchor, unparsable construct, ...): exit code 2."""


PKG = "gstools"


class Module:
    def __init__(self, name, relpath, source, tree, pyx=None):
        self.name = name  # e.g. gstools.covmodel.base
        self.relpath = relpath  # e.g. covmodel/base.py
        self.source = source
        self.tree = tree
        self.pyx = pyx  # PyxInfo or None
        self.imports = {}  # local name -> dotted target ("gstools.tools.geometric.latlon2pos")
        self.functions = {}  # top-level name -> FunctionDef
        self.classes = {}  # name -> ClassInfo
        self.assigns = {}  # top-level NAME -> value node

    def __repr__(self):
        return "<Module %s>" % self.name


class ClassInfo:
    def __init__(self, module, node):
        self.module = module
        self.node = node
        self.name = node.name
        self.base_exprs = node.bases
        self.bases = []  # resolved ClassInfo (in-tree only)
        self.ext_bases = []  # names of out-of-tree bases
        self.methods = {}  # name -> FunctionDef (plain methods)
        self.getters = {}  # property name -> FunctionDef
        self.setters = {}
        self.class_assigns = {}
        for st in node.body:
            if isinstance(st, ast.FunctionDef):
                decos = [ast.unparse(d) for d in st.decorator_list]
                if "property" in decos:
                    self.getters[st.name] = st
                elif any(d.endswith(".setter") for d in decos):
                    self.setters[st.name] = st
                else:
                    self.methods[st.name] = st
            elif isinstance(st, ast.Assign):
                for t in st.targets:
                    if isinstance(t, ast.Name):
                        self.class_assigns[t.id] = st.value

    @property
    def qual(self):
        return "%s::%s" % (self.module.relpath, self.name)

    def mro(self):
        # C3 is overkill: the tree uses single inheritance + ABC/rv_continuous
        out = [self]
        for b in self.bases:
            for c in b.mro():
                if c not in out:
                    out.append(c)
        return out

    def find(self, name, kind="methods"):
        """Return (ClassInfo, FunctionDef) of the first definition along the MRO or (None, None)."""
        for c in self.mro():
            d = getattr(c, kind)
            if name in d:
                return c, d[name]
        return None, None

    def is_subclass_of(self, other):
        return other in self.mro()

    def __repr__(self):
        return "<Class %s>" % self.qual


def assign_order(tree):
    """node._ord = position in a source-order (pre-order) traversal of the tree AS ANALYSED (after normalisation).  Rules that compare
    positions use this instead of line numbers: normalisation moves statements without renumbering them."""
    k = 0
    stack = [tree]
    while stack:
        n = stack.pop()
        n._ord = k
        k += 1
        stack.extend(reversed(list(ast.iter_child_nodes(n))))


class Program:
    def __init__(self, root, overrides=None, normalise=True):
        """root: path to repo; overrides: {relpath under src/gstools: source text} (self-test mutants)."""
        self.root = root
        self.normalise = normalise
        self.frozen = norm.load_frozen() if normalise else None
        self.norm_info = {}
        self.src = os.path.join(root, "src", PKG)
        self.modules = {}  # dotted name -> Module
        self.by_rel = {}  # relpath -> Module
        self.overrides = overrides or {}
        self._load()
        self._resolve()

    # ------------------------------------------------------------------ loading
    def _load(self):
        if not os.path.isdir(self.src):
            raise AnalysisError("source directory %s not found" % self.src)
        for dirpath, dirnames, filenames in os.walk(self.src):
            dirnames[:] = sorted(d for d in dirnames if d != "__pycache__")
            for fn in sorted(filenames):
                if not (fn.endswith(".py") or fn.endswith(".pyx")):
                    continue
                full = os.path.join(dirpath, fn)
                rel = os.path.relpath(full, self.src)
                if rel in self.overrides:
                    text = self.overrides[rel]
                else:
                    with open(full, encoding="utf-8") as fh:
                        text = fh.read()
                pyx = None
                py = text
                if fn.endswith(".pyx"):
                    try:
                        py, pyx = pyxfront.convert(text, rel)
                    except pyxfront.PyxFrontError as e:
                        raise AnalysisError("Cython front end: %s" % e)
                try:
                    tree = ast.parse(py, rel)
                except SyntaxError as e:
                    raise AnalysisError("cannot parse %s: %s" % (rel, e))
                parts = rel[: rel.rfind(".")].split(os.sep)
                if parts[-1] == "__init__":
                    parts = parts[:-1]
                name = ".".join([PKG] + parts)
                mod = Module(name, rel, text, tree, pyx)
                mod.is_pkg = fn == "__init__.py"
                self.modules[name] = mod
                self.by_rel[rel] = mod
        if self.normalise:
            trees = [m.tree for m in self.modules.values()]
            pure = norm.pure_method_names(trees)
            sigs = norm.signatures(trees)
            # method names defined in more than one class: a call `self.m()` to such a method is never inlined (it may be overridden)
            cnt = {}
            for t_ in trees:
                for c_ in ast.walk(t_):
                    if isinstance(c_, ast.ClassDef):
                        for f_ in c_.body:
                            if isinstance(f_, ast.FunctionDef):
                                cnt[f_.name] = cnt.get(f_.name, 0) + 1
            multi = frozenset(k for k, v in cnt.items() if v > 1)
            for rel, mod in self.by_rel.items():
                if True:
                    try:
                        self.norm_info[rel] = norm.normalise(rel, mod.tree, self.frozen, pure, sigs, multi)
                    except RecursionError as e:  # pragma: no cover
                        raise AnalysisError("normalisation of %s failed: %s" % (rel, e))
                    if mod.pyx is not None:
                        for new_q, old_q in self.norm_info[rel].get("renamed_functions", []):
                            if new_q in mod.pyx.functions and old_q not in mod.pyx.functions:
                                mod.pyx.functions[old_q] = mod.pyx.functions.pop(new_q)
                        # local renames done by the normal form are mirrored in the side table of declared C locals
                        import re as _re

                        for entry in self.norm_info[rel].get("guided", []):
                            q = entry.split("[", 1)[0]
                            finfo = mod.pyx.functions.get(q)
                            if finfo is None:
                                continue
                            for new_nm, old_nm in _re.findall(r"rename\('([^']+)', '([^']+)'\)", entry):
                                loc = finfo.get("locals", {})
                                if new_nm in loc and old_nm not in loc:
                                    loc[old_nm] = loc.pop(new_nm)
        for mod in self.modules.values():
            assign_order(mod.tree)
        for mod in self.modules.values():
            self._index(mod)

    def _index(self, mod):
        pkg = mod.name if mod.is_pkg else mod.name.rsplit(".", 1)[0]
        for st in ast.walk(mod.tree):
            if isinstance(st, ast.ImportFrom):
                if st.level:
                    base = pkg.split(".")
                    base = base[: len(base) - (st.level - 1)]
                    target = ".".join(base + ([st.module] if st.module else []))
                else:
                    target = st.module or ""
                for a in st.names:
                    mod.imports[a.asname or a.name] = target + "." + a.name
            elif isinstance(st, ast.Import):
                for a in st.names:
                    mod.imports[a.asname or a.name.split(".")[0]] = a.name if a.asname else a.name.split(".")[0]
        for st in mod.tree.body:
            self._index_stmt(mod, st)

    def _index_stmt(self, mod, st):
        if isinstance(st, ast.FunctionDef):
            mod.functions[st.name] = st
        elif isinstance(st, ast.ClassDef):
            mod.classes[st.name] = ClassInfo(mod, st)
        elif isinstance(st, ast.Assign):
            for t in st.targets:
                if isinstance(t, ast.Name):
                    mod.assigns[t.id] = st.value
        elif isinstance(st, (ast.If, ast.Try)):
            # e.g. `if config.USE_RUST: from gstools_core import ... else: from .summator import ...`
            for sub in ast.iter_child_nodes(st):
                if isinstance(sub, ast.stmt):
                    self._index_stmt(mod, sub)
            if isinstance(st, ast.Try):
                for h in st.handlers:
                    for sub in h.body:
                        self._index_stmt(mod, sub)

    # ------------------------------------------------------------------ resolution
    def _resolve(self):
        for mod in self.modules.values():
            for ci in mod.classes.values():
                for b in ci.base_exprs:
                    tgt = self.resolve_expr(mod, b)
                    if isinstance(tgt, ClassInfo):
                        ci.bases.append(tgt)
                    else:
                        ci.ext_bases.append(ast.unparse(b))

    def resolve_dotted(self, dotted, _depth=0):
        """Resolve 'gstools.tools.geometric.latlon2pos' to Module / ClassInfo / FunctionDef / None."""
        if _depth > 8:
            return None
        if dotted in self.modules:
            return self.modules[dotted]
        if "." not in dotted:
            return None
        head, attr = dotted.rsplit(".", 1)
        owner = self.resolve_dotted(head, _depth + 1)
        if isinstance(owner, Module):
            if attr in owner.classes:
                return owner.classes[attr]
            if attr in owner.functions:
                return owner.functions[attr]
            if attr in owner.imports:
                return self.resolve_dotted(owner.imports[attr], _depth + 1)
            sub = owner.name + "." + attr
            if sub in self.modules:
                return self.modules[sub]
        return None

    def resolve_expr(self, mod, expr):
        """Resolve a Name / dotted Attribute used in `mod` to an in-tree object (or None)."""
        if isinstance(expr, ast.Name):
            nm = expr.id
            if nm in mod.classes:
                return mod.classes[nm]
            if nm in mod.functions:
                return mod.functions[nm]
            if nm in mod.imports:
                return self.resolve_dotted(mod.imports[nm])
            return None
        if isinstance(expr, ast.Attribute):
            base = self.resolve_expr(mod, expr.value)
            if isinstance(base, Module):
                return self.resolve_dotted(base.name + "." + expr.attr)
        return None

    def module_of(self, node_or_class):
        if isinstance(node_or_class, ClassInfo):
            return node_or_class.module
        for m in self.modules.values():
            for f in m.functions.values():
                if f is node_or_class:
                    return m
        return None

    # ------------------------------------------------------------------ convenience
    def mod(self, rel):
        if rel not in self.by_rel:
            raise AnalysisError("anchor vanished: module %s" % rel)
        return self.by_rel[rel]

    def cls(self, rel, name):
        m = self.mod(rel)
        if name not in m.classes:
            raise AnalysisError("anchor vanished: class %s in %s" % (name, rel))
        return m.classes[name]

    def func(self, rel, name):
        """name: 'fn' or 'Class.method' (method, getter 'Class.p@get', setter 'Class.p@set')."""
        m = self.mod(rel)
        if "." in name:
            cn, mn = name.split(".", 1)
            ci = self.cls(rel, cn)
            kind = "methods"
            if mn.endswith("@get"):
                mn, kind = mn[:-4], "getters"
            elif mn.endswith("@set"):
                mn, kind = mn[:-4], "setters"
            d = getattr(ci, kind)
            if mn not in d:
                raise AnalysisError("anchor vanished: %s.%s (%s) in %s" % (cn, mn, kind, rel))
            return d[mn]
        if name not in m.functions:
            raise AnalysisError("anchor vanished: function %s in %s" % (name, rel))
        return m.functions[name]

    def all_classes(self):
        for m in self.modules.values():
            for c in m.classes.values():
                yield c

    def subclasses(self, ci, strict=True):
        return [c for c in self.all_classes() if ci in c.mro() and (c is not ci or not strict)]

    def all_functions(self):
        """yield (module, qualname, FunctionDef, ClassInfo|None, kind) for every def incl. nested."""
        for m in self.modules.values():
            for name, f in m.functions.items():
                yield m, name, f, None, "function"
                for sub in ast.walk(f):
                    if isinstance(sub, ast.FunctionDef) and sub is not f:
                        yield m, name + ".<locals>." + sub.name, sub, None, "nested"
            for c in m.classes.values():
                for kind, suffix in (("methods", ""), ("getters", "@get"), ("setters", "@set")):
                    for name, f in getattr(c, kind).items():
                        yield m, "%s.%s%s" % (c.name, name, suffix), f, c, kind


# ---------------------------------------------------------------------- ast helpers
def unparse(node):
    return ast.unparse(node) if node is not None else "None"


def norm_stmt(node):
    """Normalised text of a statement (single line, whitespace canonical): key material for findings."""
    return " ".join(ast.unparse(node).split())


def body_without_docstring(fn):
    body = list(fn.body)
    if body and isinstance(body[0], ast.Expr) and isinstance(body[0].value, ast.Constant) and isinstance(body[0].value.value, str):
        body = body[1:]
    return body


def is_self_attr(node, name=None, selfname="self"):
    return (
        isinstance(node, ast.Attribute)
        and isinstance(node.value, ast.Name)
        and node.value.id == selfname
        and (name is None or node.attr == name)
    )


def call_name(call):
    """Dotted text of a call's function ('np.asarray', 'self.model.isometrize')."""
    try:
        return ast.unparse(call.func)
    except Exception:
        return "?"


def names_in(node):
    return {n.id for n in ast.walk(node) if isinstance(n, ast.Name)}


_SINGLETONS = (ast.expr_context, ast.operator, ast.unaryop, ast.boolop, ast.cmpop)


def attach_parents(tree):
    for parent in ast.walk(tree):
        for child in ast.iter_child_nodes(parent):
            # Load() / Store() / operator nodes are interpreter-wide singletons: a parent pointer on them would leak one tree into
            # every other tree (and into every deepcopy)
            if not isinstance(child, _SINGLETONS):
                child._parent = parent
    return tree
