"""Self-test corpus for C15 (mutants must be caught, twins must stay silent)."""
S = "field/summator.pyx"
K = "krige/krigesum.pyx"
E = "variogram/estimator.pyx"
G = "field/generator.py"
V = "variogram/variogram.py"
KB = "krige/base.py"

CASES = [
    dict(name="prange-over-modes", file=S, expect="R15.1",
         old="""    for i in prange(X_len, nogil=True, num_threads=num_threads_c):
        for j in range(N):
            phase = 0.
            for d in range(dim):
                phase += cov_samples[d, j] * pos[d, i]
            summed_modes[i] += z_1[j] * cos(phase) + z_2[j] * sin(phase)""",
         new="""    for i in range(X_len):
        for j in prange(N, nogil=True, num_threads=num_threads_c):
            phase = 0.
            for d in range(dim):
                phase += cov_samples[d, j] * pos[d, i]
            summed_modes[i] += z_1[j] * cos(phase) + z_2[j] * sin(phase)"""),
    dict(name="hoist-phase-init", file=S, expect="R15.1",
         old="""        for j in range(N):
            phase = 0.
            for d in range(dim):
                phase += cov_samples[d, j] * pos[d, i]
            summed_modes[i] += z_1[j] * cos(phase) + z_2[j] * sin(phase)""",
         new="""        for j in range(N):
            for d in range(dim):
                phase += cov_samples[d, j] * pos[d, i]
            summed_modes[i] += z_1[j] * cos(phase) + z_2[j] * sin(phase)"""),
    dict(name="prange-incompr-shared-proj", file=S, expect="R15.1",
         old="""    for i in range(X_len):
        for j in range(N):
            k_2 = abs_square(cov_samples[:, j])""",
         new="""    for i in prange(X_len, nogil=True):
        for j in range(N):
            k_2 = abs_square(cov_samples[:, j])"""),
    dict(name="kernel-writes-input", file=S, expect="R15.1",
         old="""                phase += modes[d, j] * pos[d, i]""",
         new="""                phase += modes[d, j] * pos[d, i]
                pos[d, i] = 0."""),
    dict(name="nonlocal-read-pos", file=S, expect="R15.1",
         old="""                phase += modes[d, j] * pos[d, i]""",
         new="""                phase += modes[d, j] * pos[d, 0]"""),
    dict(name="krige-accumulate-across-k", file=K, expect="R15.1",
         old="""            error[k] += krig_vecs[i, k] * krig_fac
            field[k] += cond[i] * krig_fac""",
         new="""            error[k] += krig_vecs[i, k] * krig_fac
            field[i] += cond[i] * krig_fac"""),
    dict(name="krige-krig_fac-reduction", file=K, expect="R15.1",
         old="""    # field = cond * krig_mat * krig_vecs
    for k in prange(res_i, nogil=True, num_threads=num_threads_c):
        for i in range(mat_i):
            krig_fac = 0.0
            for j in range(mat_i):
                krig_fac += krig_mat[i, j] * krig_vecs[j, k]
            field[k] += cond[i] * krig_fac

    return np.asarray(field)""",
         new="""    # field = cond * krig_mat * krig_vecs
    krig_fac = 0.0
    for k in prange(res_i, nogil=True, num_threads=num_threads_c):
        for i in range(mat_i):
            for j in range(mat_i):
                krig_fac += krig_mat[i, j] * krig_vecs[j, k]
            field[k] += cond[i] * krig_fac

    return np.asarray(field)"""),
    dict(name="structured-prange-over-i", file=E, expect="R15.1",
         old="""    with nogil, parallel(num_threads=num_threads_c):
        for i in range(i_max):
            for j in range(j_max):
                for k in prange(1, k_max-i):
                    counts[k] += 1
                    variogram[k] += estimator_func(f[i, j] - f[i+k, j])""",
         new="""    with nogil, parallel(num_threads=num_threads_c):
        for i in prange(i_max):
            for j in range(j_max):
                for k in range(1, k_max-i):
                    counts[k] += 1
                    variogram[k] += estimator_func(f[i, j] - f[i+k, j])"""),
    dict(name="structured-nowait", file=E, expect="R15.1",
         old="""                for k in prange(1, k_max-i):
                    counts[k] += 1""",
         new="""                for k in prange(1, k_max-i, nowait=True):
                    counts[k] += 1"""),
    dict(name="unstructured-prange-over-j", file=E, expect="R15.1",
         old="""    for i in prange(i_max, nogil=True, num_threads=num_threads_c):
        for j in range(j_max):
            for k in range(j+1, k_max):
                dist = distance(dim, pos, j, k)""",
         new="""    for i in range(i_max):
        for j in prange(j_max, nogil=True, num_threads=num_threads_c):
            for k in range(j+1, k_max):
                dist = distance(dim, pos, j, k)"""),
    dict(name="threads-ignored", file=K, expect="R15.1",
         old="""    # field = cond * krig_mat * krig_vecs
    for k in prange(res_i, nogil=True, num_threads=num_threads_c):
        for i in range(mat_i):
            krig_fac = 0.0
            for j in range(mat_i):
                krig_fac += krig_mat[i, j] * krig_vecs[j, k]
            field[k] += cond[i] * krig_fac

    return np.asarray(field)""",
         new="""    # field = cond * krig_mat * krig_vecs
    for k in prange(res_i, nogil=True):
        for i in range(mat_i):
            krig_fac = 0.0
            for j in range(mat_i):
                krig_fac += krig_mat[i, j] * krig_vecs[j, k]
            field[k] += cond[i] * krig_fac

    return np.asarray(field)"""),
    dict(name="wrapper-swap-z", file=G, expect="R15.2",
         old="    return summate_fct(cov_samples, z_1, z_2, pos, num_threads)",
         new="    return summate_fct(cov_samples, z_2, z_1, pos, num_threads)"),
    dict(name="wrapper-swap-params", file=V, expect="R15.2",
         old="""def _unstructured(
    field,
    bin_edges,
    pos,
    estimator_type="m",
    distance_type="e",""",
         new="""def _unstructured(
    field,
    bin_edges,
    pos,
    distance_type="e",
    estimator_type="m","""),
    dict(name="wrapper-default-differs", file=V, expect="R15.2",
         old="""    angles_tol=np.pi / 8.0,
    bandwidth=-1.0,""", new="""    angles_tol=np.pi / 4.0,
    bandwidth=-1.0,"""),
    dict(name="callsite-threads-constant", file=G, expect="R15.2",
         old="            self._cov_sample, self._z_1, self._z_2, pos, config.NUM_THREADS",
         new="            self._cov_sample, self._z_1, self._z_2, pos, 1"),
    dict(name="set-num-threads-differs", file=K, expect="R15.3",
         old="""    else:
        num_threads_c = num_threads
    return num_threads_c""", new="""    else:
        num_threads_c = num_threads + 1
    return num_threads_c"""),
    dict(name="pair-loop-overrun", file=E, expect="R15.4",
         old="""    cdef int j_max = pos.shape[1] - 1
    cdef int k_max = pos.shape[1]
    cdef int f_max = f.shape[0]

    cdef double[:] variogram = np.zeros(len(bin_edges)-1)""",
         new="""    cdef int j_max = pos.shape[1] - 1
    cdef int k_max = pos.shape[1] + 1
    cdef int f_max = f.shape[0]

    cdef double[:] variogram = np.zeros(len(bin_edges)-1)"""),
    dict(name="bin-edge-overrun", file=E, expect="R15.4",
         old="""    cdef int i_max = bin_edges.shape[0] - 1
    cdef int j_max = pos.shape[1] - 1
    cdef int k_max = pos.shape[1]
    cdef int f_max = f.shape[0]

    cdef double[:] variogram = np.zeros(len(bin_edges)-1)""",
         new="""    cdef int i_max = bin_edges.shape[0]
    cdef int j_max = pos.shape[1] - 1
    cdef int k_max = pos.shape[1]
    cdef int f_max = f.shape[0]

    cdef double[:] variogram = np.zeros(len(bin_edges)-1)"""),
    dict(name="structured-lag-overrun", file=E, expect="R15.4",
         old="""                for k in prange(1, k_max-i):
                    counts[k] += 1""",
         new="""                for k in prange(1, k_max):
                    counts[k] += 1"""),
    dict(name="haversine-guard-removed", file=E, expect="R15.4",
         old="""        distance = dist_haversine
        if dim != 2:
            raise ValueError(f'Haversine: dim = {dim} != 2')""",
         new="""        distance = dist_haversine"""),
    # ---- benign twins
    dict(name="twin-rename-phase", kind="twin", file=K,
         old="""    # field = cond * krig_mat * krig_vecs
    for k in prange(res_i, nogil=True, num_threads=num_threads_c):
        for i in range(mat_i):
            krig_fac = 0.0
            for j in range(mat_i):
                krig_fac += krig_mat[i, j] * krig_vecs[j, k]
            field[k] += cond[i] * krig_fac

    return np.asarray(field)""",
         new="""    # field = cond * krig_mat * krig_vecs
    for k in prange(res_i, nogil=True, num_threads=num_threads_c):
        for i in range(mat_i):
            krig_fac = 0.0
            for j in range(mat_i):
                krig_fac = krig_fac + krig_vecs[j, k] * krig_mat[i, j]
            field[k] = field[k] + cond[i] * krig_fac

    return np.asarray(field)"""),
    dict(name="twin-wrapper-comment", kind="twin", file=G,
         old="    return summate_fct(cov_samples, z_1, z_2, pos, num_threads)",
         new="    # forward to the selected backend\n    return summate_fct(cov_samples, z_1, z_2, pos, num_threads)"),
    dict(name="twin-loop-bound-local", kind="twin", file=S,
         old="""    cdef int X_len = pos.shape[1]
    cdef int N = modes.shape[1]""",
         new="""    cdef int N = modes.shape[1]
    cdef int X_len = pos.shape[1]"""),
]
