"""C19 Field transformations: discrete classes partition the line; wrapper siblings agree; documented compositions."""
import ast
import copy

from .. import ordtype as O
from ..loader import AnalysisError, norm_stmt
from ..small import FoldError, UnrollError, cond_defaults, expanded_keywords, fold, subst_fold, unroll_for
from .C16 import signed_factors, terms

TA = "transform/array.py"
TF = "transform/field.py"


def _subst(node, mapping, n_thr):
    """Substitute Names by constants and normalise constant subscripts of `thresholds` / `values`."""
    class T(ast.NodeTransformer):
        def visit_Name(self, nd):
            if nd.id in mapping and isinstance(nd.ctx, ast.Load):
                return ast.copy_location(ast.Constant(mapping[nd.id]), nd)
            return nd

        def visit_Subscript(self, nd):
            self.generic_visit(nd)
            if isinstance(nd.value, ast.Name) and nd.value.id in ("thresholds", "values"):
                try:
                    idx = fold(nd.slice, {})
                except FoldError:
                    return nd
                size = n_thr if nd.value.id == "thresholds" else n_thr + 1
                if isinstance(idx, int):
                    if idx < 0:
                        idx += size
                    nd.slice = ast.Constant(idx)
            return nd

    return ast.fix_missing_locations(T().visit(copy.deepcopy(node)))


def discrete_partition(ctx, rule="R19.1"):
    prog = ctx.prog
    fn = prog.func(TA, "array_discrete")
    site = TA + "::array_discrete"
    # result array is fresh
    res_init = [s for s in fn.body if isinstance(s, ast.Assign) and ast.unparse(s.targets[0]) == "result"]
    ctx.check(len(res_init) == 1 and ast.unparse(res_init[0].value) in ("np.empty_like(field)", "np.zeros_like(field)", "np.full_like(field, np.nan)"), rule, site,
              "the result array is separate from the input", "fresh-result")
    # collect mask assignments in statement order (top level and inside the single class loop)
    top = []
    loop = None
    for st in fn.body:
        if isinstance(st, ast.Assign) and isinstance(st.targets[0], ast.Subscript) and ast.unparse(st.targets[0].value) == "result":
            top.append((st.targets[0].slice, st.value, None))
        elif isinstance(st, ast.For) and any(isinstance(s, ast.Assign) and isinstance(s.targets[0], ast.Subscript) and ast.unparse(s.targets[0].value) == "result" for s in st.body):
            loop = st
            top.append(("LOOP", st, None))
    if loop is None or not top:
        raise AnalysisError("anchor vanished: class assignments in array_discrete")
    total = 0
    for n_thr in (1, 2, 3, 4):
        thr_texts = ["thresholds[%d]" % k for k in range(n_thr)]
        seqs = []  # (mask expr, value index)
        for mask, val, _ in top:
            if mask == "LOOP":
                lens = {"thresholds": n_thr, "values": n_thr + 1}
                try:
                    its = unroll_for(val, lens)
                except UnrollError as e:
                    ctx.undecided(rule, site, "class loop cannot be unrolled statically: %s" % e)
                    return
                if any(not (isinstance(s, ast.Assign) and isinstance(s.targets[0], ast.Subscript) and ast.unparse(s.targets[0].value) == "result") for s in val.body):
                    ctx.undecided(rule, site, "class loop body contains more than mask assignments to the result")
                    return
                for b in its:
                    for s in val.body:
                        m = subst_fold(s.targets[0].slice, b, lens)
                        v = subst_fold(s.value, b, lens)
                        vi = v.slice.value if isinstance(v, ast.Subscript) and ast.unparse(v.value) == "values" and isinstance(v.slice, ast.Constant) else None
                        seqs.append((m, vi, ast.unparse(v)))
            else:
                m = _subst(mask, {}, n_thr)
                v = _subst(val, {}, n_thr)
                vi = v.slice.value if isinstance(v, ast.Subscript) and ast.unparse(v.value) == "values" and isinstance(v.slice, ast.Constant) else None
                seqs.append((m, vi, ast.unparse(val)))
        got = []
        for x in range(2 * n_thr + 1):
            cls = None
            try:
                for m, vi, vtxt in seqs:
                    if O.eval_ord(m, "field", thr_texts, x):
                        cls = vi if vi is not None else "?" + vtxt
            except O.NotOrd as e:
                ctx.undecided(rule, site, "class mask is not an order guard on field vs thresholds: %s" % e)
                return
            got.append(cls)
        want = [x // 2 for x in range(2 * n_thr + 1)]  # x<t0 ->0, x=t0 ->0, t0<x<t1 ->1, x=t1 ->1, ...
        total += len(got)
        ctx.check(got == want, rule, site,
                  "with %d threshold(s): class index per order type of the value is %s; documented classes (t_{k-1}, t_k] give %s (None = value left unassigned)" % (n_thr, got, want), "partition:%d" % n_thr)
    ctx.floor(rule, "order types evaluated", total, 20)
    # ascending thresholds required
    chk = [s for s in fn.body if isinstance(s, ast.If) and any(isinstance(x, ast.Raise) for x in s.body) and "thresholds[:-1]" in ast.unparse(s.test)]
    ctx.check(len(chk) == 1 and ast.unparse(chk[0].test) == "not np.all(thresholds[:-1] < thresholds[1:])", rule, site, "thresholds must be strictly ascending (otherwise ValueError)", "ascending")
    # threshold construction modes
    modes = [s for s in fn.body if isinstance(s, ast.If) and "thresholds ==" in ast.unparse(s.test)]
    if len(modes) != 1:
        raise AnalysisError("anchor vanished: threshold mode dispatch")
    m = modes[0]
    ar = [norm_stmt(s) for s in m.body]
    ctx.check(ast.unparse(m.test) == "thresholds == 'arithmetic'" and ar == ["values = np.sort(values)", "thresholds = (values[1:] + values[:-1]) / 2"], rule, site,
              "'arithmetic': thresholds are midpoints of the sorted values: %s" % ar, "arithmetic")
    eq = m.orelse[0] if m.orelse and isinstance(m.orelse[0], ast.If) else None
    ok = eq is not None and ast.unparse(eq.test) == "thresholds == 'equal'"
    if ok:
        a = {ast.unparse(s.targets[0]): ast.unparse(s.value) for s in eq.body if isinstance(s, ast.Assign)}
        ok = a.get("n") == "len(values)" and a.get("p") == "np.arange(1, n) / n" and a.get("rescale") == "np.sqrt(var * 2)" and a.get("thresholds") == "mean + rescale * erfinv(2 * p - 1)"
        ok = ok and a.get("mean") == "np.mean(field) if mean is None else float(mean)" and a.get("var") == "np.var(field) if var is None else float(var)"
    ctx.check(ok, rule, site, "'equal': n-1 thresholds at the normal quantiles i/n of N(mean, var)", "equal")
    usr = eq.orelse if eq is not None else []
    ok = any(isinstance(s, ast.If) and ast.unparse(s.test) == "len(values) != len(thresholds) + 1" and any(isinstance(x, ast.Raise) for x in s.body) for s in usr)
    ctx.check(ok, rule, site, "user thresholds: one more value than thresholds, otherwise ValueError", "user-len")


WRAPPERS = {
    "binary": "array_discrete",
    "discrete": "array_discrete",
    "boxcox": "array_boxcox",
    "zinnharvey": "array_zinnharvey",
    "normal_force_moments": "array_force_moments",
    "normal_to_lognormal": "array_to_lognormal",
    "normal_to_uniform": "array_to_uniform",
    "normal_to_arcsin": "array_to_arcsin",
    "normal_to_uquad": "array_to_uquad",
}
NORMAL_GUARD = {
    "binary": "not process and divide is None",
    "discrete": "not process and thresholds == 'equal'",
    "zinnharvey": "not process",
    "normal_force_moments": "not process",
    "normal_to_uniform": "not process",
    "normal_to_arcsin": "not process",
    "normal_to_uquad": "not process",
}
MEAN_EXPR = "0.0 if process and (not keep_mean) else fld.mean"


def wrapper_siblings(ctx, rule="R19.2"):
    prog = ctx.prog
    tf = prog.mod(TF)
    ta = prog.mod(TA)
    for w, target in WRAPPERS.items():
        fn = prog.func(TF, w)
        site = "%s::%s" % (TF, w)
        calls = [n for n in ast.walk(fn) if isinstance(n, ast.Call) and getattr(n.func, "id", "") == "apply_function"]
        if len(calls) != 1:
            ctx.violation(rule, site, "wrapper does not go through apply_function exactly once", "apply-function")
            continue
        kw, unexpanded = expanded_keywords(fn, calls[0])
        if unexpanded or calls[0].args:
            ctx.undecided(rule, site, "apply_function is called with arguments this rule cannot bind by name: %s" % (unexpanded or "positional"))
            continue
        ok = ast.unparse(kw.get("function")) == target and all(ast.unparse(kw.get(a)) == a for a in ("field", "store", "process", "keep_mean")) and ast.unparse(kw.get("fld")) == "fld"
        ctx.check(ok, rule, site, "goes through apply_function(function=%s) forwarding field/store/process/keep_mean unchanged" % target, "forward")
        # keyword dict handed to the array function
        own = {a.arg for a in prog.func(TF, "apply_function").args.args}
        tparams = [a.arg for a in prog.func(TA, target).args.args]
        d = {k: ast.unparse(v) for k, v in kw.items() if k not in own}
        if d:
            ctx.check(set(d) <= set(tparams[1:]), rule, site, "every keyword handed to %s is one of its parameters: %s" % (target, sorted(d)), "kw-names")
            if "mean" in d:
                ctx.check(d["mean"] == MEAN_EXPR, rule, site, "mean = 0 if the mean was removed by processing, else the field's mean: %s" % d["mean"], "mean")
            if "var" in d:
                ctx.check(d["var"] == "fld.model.sill", rule, site, "variance of the input marginal is the model sill (var + nugget): %s" % d["var"], "var")
            if w != "binary":
                passthru = {k: v for k, v in d.items() if k not in ("mean", "var")}
                ctx.check(all(k == v for k, v in passthru.items()), rule, site, "user arguments are passed through under their own names: %s" % passthru, "passthru")
            if "mean" in tparams and "var" in tparams and w != "binary":
                ctx.check("mean" in d and "var" in d, rule, site, "the array function's mean/var are supplied (not re-estimated from the sample)", "moments-given")
        elif len(tparams) > 1:
            ctx.violation(rule, site, "no keyword dict for a target with parameters %s" % tparams[1:], "kw-missing")
        # normality guard
        guards = [s for s in fn.body if isinstance(s, ast.If) and any("_check_for_default_normal(fld)" in ast.unparse(x) for x in s.body)]
        if w in NORMAL_GUARD:
            ok = len(guards) == 1 and ast.unparse(guards[0].test) == NORMAL_GUARD[w]
            ctx.check(ok, rule, site, "unprocessed input must be a default normal field: guard `%s`" % NORMAL_GUARD[w], "normal-guard")
        else:
            ctx.check(not guards, rule, site, "no normality requirement (transformation does not use mean/var)", "no-guard")
    # apply() dispatch covers every public transformation
    ap = prog.func(TF, "apply")
    from ..dispatch import DispatchError, select
    from .C20 import exported_names

    public = [n for n in exported_names(tf) if n not in ("apply", "apply_function")]
    key_param = ap.args.args[1].arg if len(ap.args.args) > 1 else "method"
    try:
        reach = {}
        for name in public + ["apply_function"]:
            short = name.replace("normal_to_", "").replace("normal_", "").replace("apply_", "")
            for key in sorted({name, short}):
                reach[key] = select(ap, key_param, key)
        unknown = select(ap, key_param, "no_such_transformation_xyz")
    except DispatchError as e:
        ctx.undecided(rule, TF + "::apply", "dispatch not interpretable: %s" % e)
        reach, unknown = None, None
    if reach is not None:
        got = sorted(set(reach.values()) - {"apply_function", None, "<raise>"})
        ctx.check(got == sorted(public), rule, TF + "::apply", "dispatch reaches every exported transformation: %s" % got, "dispatch")
        wrong = {k: v for k, v in reach.items() if v is None or v == "<raise>" or not (v == k or v.replace("normal_to_", "").replace("normal_", "").replace("apply_", "") == k)}
        ctx.check(not wrong, rule, TF + "::apply", "each method string selects the transformation of that name (full and short names interpreted: %d)%s" % (len(reach), "" if not wrong else "; wrong: %s" % wrong), "dispatch-names")
        ctx.check(unknown == "<raise>", rule, TF + "::apply", "an unknown method name raises (got %s)" % unknown, "dispatch-unknown")
    af = prog.func(TF, "apply_function")
    body = [norm_stmt(s) for s in af.body]
    want_tail = ["data = fld[field]", "(name, save) = fld.get_store_config(store, default=field)", "if process: data = _pre_process(fld, data, keep_mean=keep_mean)", "data = function(data, **kwargs)",
                 "if process: data = _post_process(fld, data, keep_mean=keep_mean)", "return fld.post_field(data, name=name, process=False, save=save)"]
    got_tail = [b.replace("name, save = ", "(name, save) = ") for b in body[-6:]]
    ctx.check(got_tail == want_tail, rule, TF + "::apply_function", "stored field -> (pre-process) -> function -> (post-process) -> store unprocessed result", "apply-function-shape")
    cd = prog.func(TF, "_check_for_default_normal")
    tests = sorted(ast.unparse(s.test) for s in cd.body if isinstance(s, ast.If))
    ctx.check(tests == sorted(["type(fld.normalizer) != Normalizer", "fld.trend is not None", "callable(fld.mean) or fld.mean is None"]), rule, TF + "::_check_for_default_normal",
              "default normal = identity normalizer, no trend, constant mean", "default-normal")
    del ta


def binary_and_formulas(ctx, rule="R19.3"):
    prog = ctx.prog
    b = prog.func(TF, "binary")
    a = {ast.unparse(s.targets[0]): ast.unparse(s.value) for s in b.body if isinstance(s, ast.Assign)}
    bc = [n for n in ast.walk(b) if isinstance(n, ast.Call) and getattr(n.func, "id", "") == "apply_function"]
    bkw = {k: ast.unparse(v) for k, v in expanded_keywords(b, bc[0])[0].items()} if len(bc) == 1 else {}
    dfl = {v: [(t, ast.unparse(x)) for t, x in cond_defaults(b.body, v)] for v in ("divide", "upper", "lower")}
    ok = (a.get("mean") == MEAN_EXPR and dfl["divide"] == [("divide is None", "mean")]
          and dfl["upper"] == [("upper is None", "mean + np.sqrt(fld.model.sill)")] and dfl["lower"] == [("lower is None", "mean - np.sqrt(fld.model.sill)")]
          and bkw.get("values") == "[lower, upper]" and bkw.get("thresholds") == "[divide]")
    ctx.check(ok, rule, TF + "::binary", "binary = discrete with values [lower, upper] and the single threshold `divide` (defaults mean -/+ sqrt(sill), mean)", "binary")
    # compositions and default bounds of the bounded targets
    for name, inner, const in (("array_to_arcsin", "_uniform_to_arcsin", 2.0), ("array_to_uquad", "_uniform_to_uquad", 5.0 / 3.0)):
        fn = prog.func(TA, name)
        asg = {ast.unparse(s.targets[0]): s.value for s in fn.body if isinstance(s, ast.Assign)}
        ret = [s for s in fn.body if isinstance(s, ast.Return)]
        ok = len(ret) == 1 and ast.unparse(ret[0].value) == "%s(array_to_uniform(field, mean, var), a, b)" % inner
        ctx.check(ok, rule, "%s::%s" % (TA, name), "composition: normal -> uniform(0,1) with the given mean/var -> target on [a, b]", "compose")
        okb = False
        if "a" in asg and "b" in asg and isinstance(asg["a"], ast.IfExp) and isinstance(asg["b"], ast.IfExp):
            ta_, tb_ = terms(asg["a"].body), terms(asg["b"].body)
            if len(ta_) == 2 and len(tb_) == 2:
                wa = [t for s, t in ta_ if ast.unparse(t) != "mean"]
                wb = [t for s, t in tb_ if ast.unparse(t) != "mean"]
                sa = [s for s, t in ta_ if ast.unparse(t) != "mean"]
                sb = [s for s, t in tb_ if ast.unparse(t) != "mean"]
                if len(wa) == 1 and len(wb) == 1 and sa == [-1] and sb == [1] and ast.unparse(wa[0]) == ast.unparse(wb[0]):
                    w = wa[0]
                    if isinstance(w, ast.Call) and ast.unparse(w.func) == "np.sqrt":
                        try:
                            c = fold(w.args[0], {"var": 1.0})
                            okb = abs(c - const) < 1e-12
                        except FoldError:
                            okb = False
        ctx.check(okb, rule, "%s::%s" % (TA, name),
                  "default bounds are mean -/+ sqrt(%.4g * var): the half-width for which the target distribution has the input's variance (arcsine: (b-a)^2/8, U-quadratic: 3(b-a)^2/20)" % const, "default-bounds")
    fm = prog.func(TA, "array_force_moments")
    a = {ast.unparse(s.targets[0]): ast.unparse(s.value) for s in fm.body if isinstance(s, ast.Assign)}
    ret = [ast.unparse(s.value) for s in fm.body if isinstance(s, ast.Return)]
    ok = a.get("var_in") == "np.var(field)" and a.get("mean_in") == "np.mean(field)" and a.get("rescale") == "np.sqrt(var / var_in)" and ret == ["rescale * (field - mean_in) + mean"]
    ctx.check(ok, rule, TA + "::array_force_moments", "centre with the sample mean, rescale by sqrt(var/sample var), add the target mean (exact sample moments)", "force-moments")
    un = prog.func(TA, "array_to_uniform")
    ret = [s.value for s in un.body if isinstance(s, ast.Return)]
    ok = False
    if len(ret) == 1:
        tt = terms(ret[0])
        ok = len(tt) == 2 and sorted(ast.unparse(t) for s, t in tt if s == 1)[-1:] == ["low"] or any(ast.unparse(t) == "low" for s, t in tt)
        scaled = [t for s, t in tt if ast.unparse(t) != "low"]
        if ok and len(scaled) == 1:
            s_, nume, den = signed_factors(scaled[0])
            ok = s_ == 1 and not den and sorted(nume) == sorted(["0.5", "1 + erf((field - mean) / np.sqrt(2 * var))", "high - low"])
        else:
            ok = False
    ctx.check(ok, rule, TA + "::array_to_uniform", "uniform = low + (high - low) * Phi((x - mean)/sqrt(var)) with Phi = (1 + erf(z/sqrt 2))/2", "uniform")
    zh = prog.func(TA, "array_zinnharvey")
    body = [norm_stmt(s) for s in zh.body]
    ok = ("result = np.abs((field - mean) / np.sqrt(var))" in body and "result = np.sqrt(2) * erfinv(2 * erf(result / np.sqrt(2)) - 1)" in body
          and "if conn == 'high': result = -result" in body and body[-1] == "return result * np.sqrt(var) + mean")
    ctx.check(ok, rule, TA + "::array_zinnharvey", "standardise, fold |z| through the half-normal -> normal quantile map, flip for 'high', restore mean/variance", "zinnharvey")
    bc = prog.func(TA, "array_boxcox")
    body = [norm_stmt(s) for s in bc.body]
    ok = "result = field + shift" in body and "if np.isclose(lmbda, 0): return array_to_lognormal(result)" in body and body[-1] == "return np.maximum(lmbda * result + 1, 0) ** (1 / lmbda)"
    ctx.check(ok, rule, TA + "::array_boxcox", "inverse Box-Cox: (lmbda*(x+shift)+1)^(1/lmbda), exp for lmbda=0 (same branch predicate as the BoxCox normalizer)", "boxcox")
    ln = prog.func(TA, "array_to_lognormal")
    ctx.check([ast.unparse(s.value) for s in ln.body if isinstance(s, ast.Return)] == ["np.exp(field)"], rule, TA + "::array_to_lognormal", "log-normal = exp(normal)", "lognormal")


def run(ctx):
    from ..small import none_default_rule

    none_default_rule(ctx, "R19.4", ["transform/"], 20)
    discrete_partition(ctx)
    wrapper_siblings(ctx)
    binary_and_formulas(ctx)
    return (
        "Decides the structural clauses of C19: (R19.1) for 1-4 thresholds the class masks of array_discrete, evaluated over every order type of the value against the thresholds, "
        "assign exactly the documented class (t_{k-1}, t_k] and leave no value unassigned; threshold construction per mode; (R19.2) the 9 Field-level wrappers agree on mean/variance "
        "arguments, normality guards and forwarding, and `apply` reaches every exported transformation; (R19.3) binary is discrete with two values; documented compositions and default bounds. "
        "NOT decided: the target distributions themselves (values)."
    )
