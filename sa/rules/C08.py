"""C08 Empirical variogram estimates equal their definition: bin guards, pair loops, paired updates, dispatch."""
import ast

from .. import bounds as B
from .. import ordtype as O
from .. import prange as PR
from .. import small
from .. import dispatch
from ..loader import AnalysisError, norm_stmt

EST = "variogram/estimator.pyx"
VAR = "variogram/variogram.py"


def _accumulations(fn):
    """[(AugAssign counts[..] += 1, AugAssign variogram[..] += est(...))] pairs found in the same block."""
    pairs, lone = [], []
    for node in ast.walk(fn):
        for blk in [getattr(node, a, None) for a in ("body", "orelse")]:
            if not isinstance(blk, list):
                continue
            for idx, st in enumerate(blk):
                if isinstance(st, ast.AugAssign) and isinstance(st.target, ast.Subscript) and PR.base_name(st.target) == "counts":
                    partner = None
                    for nb in blk[max(0, idx - 1): idx + 2]:
                        if nb is not st and isinstance(nb, ast.AugAssign) and isinstance(nb.target, ast.Subscript) and PR.base_name(nb.target) == "variogram":
                            partner = nb
                    if partner is None:
                        lone.append(st)
                    else:
                        pairs.append((st, partner))
                elif isinstance(st, ast.AugAssign) and isinstance(st.target, ast.Subscript) and PR.base_name(st.target) == "variogram":
                    if not any(isinstance(nb, ast.AugAssign) and PR.base_name(nb.target) == "counts" for nb in blk[max(0, idx - 1): idx + 2] if isinstance(getattr(nb, "target", None), ast.Subscript)):
                        lone.append(st)
    return pairs, lone


def _diff_reads(value):
    """estimator_func(f[m, a] - f[m, b]) -> (f[m,a], f[m,b]) or None"""
    if isinstance(value, ast.Call) and len(value.args) == 1 and isinstance(value.args[0], ast.BinOp) and isinstance(value.args[0].op, ast.Sub):
        l, r = value.args[0].left, value.args[0].right
        if isinstance(l, ast.Subscript) and isinstance(r, ast.Subscript) and PR.base_name(l) == "f" and PR.base_name(r) == "f":
            return l, r
    return None


def axis_wrapper(ctx, rule="R08.3"):
    """vario_estimate_axis: the NaN-blind kernel is used only for complete data; missing values are ADDED to the mask the field carries;
    field and mask get the same axis transformation; the masked kernel receives that mask."""
    prog = ctx.prog
    # wrapper-level guard for `structured`
    vea = prog.func(VAR, "vario_estimate_axis")
    site = VAR + "::vario_estimate_axis"
    calls = [n for n in ast.walk(vea) if isinstance(n, ast.Call) and isinstance(n.func, ast.Name) and n.func.id == "_structured"]
    if len(calls) != 1:
        raise AnalysisError("anchor vanished: _structured call in vario_estimate_axis")
    # the statement containing the call
    stmt = [s for s in ast.walk(vea) if isinstance(s, (ast.Return, ast.Assign, ast.Expr)) and any(n is calls[0] for n in ast.walk(s))][0]
    pc = O.path_condition(vea, stmt)
    guard_names = {ast.unparse(e) for e, p in pc if not p and isinstance(e, ast.Name)}
    defs = {}
    for n in ast.walk(vea):
        if isinstance(n, ast.Assign) and len(n.targets) == 1 and isinstance(n.targets[0], ast.Name):
            defs.setdefault(n.targets[0].id, []).append(n.value)
    for nm, cond in small.flag_definitions(vea).items():
        defs[nm] = [cond]
    ok = False
    why = "no `not <flag>` guard dominates the unmasked kernel call"
    for g in guard_names:
        vs = defs.get(g, [])
        if len(vs) == 1:
            txt = ast.unparse(vs[0])
            # flag must include masked-array test and the missing-value test
            miss_names = [nm for nm in small_names(vs[0]) if nm in defs]
            closure = txt
            for nm in miss_names:
                closure += " ; " + " | ".join(ast.unparse(v) for v in defs[nm] if not (isinstance(v, ast.Constant) and v.value is None))
                for nm2 in small_names_list(defs[nm]):
                    if nm2 in defs:
                        closure += " ; " + " | ".join(ast.unparse(v) for v in defs[nm2] if not (isinstance(v, ast.Constant) and v.value is None))
            ok = isinstance(vs[0], ast.BoolOp) and isinstance(vs[0].op, ast.Or) and "np.ma.is_masked(field)" in closure and "np.isnan(field)" in closure and "np.isclose(field, no_data)" in closure
            why = "guard flag %s := %s" % (g, closure[:160])
    ctx.check(ok, rule, site, "the NaN-blind kernel `structured` is reachable only when the field has no mask, no NaN and no no-data value: " + why, "structured-guard")
    # missing values are ADDED to the user's mask: the mask of the rebuilt field is (old mask) OR (missing)
    miss_if = [s for s in ast.walk(vea) if isinstance(s, ast.If) and ast.unparse(s.test) == "missing"]
    rebuilt = [n for s in miss_if for n in ast.walk(s) if isinstance(n, ast.Assign) and ast.unparse(n.targets[0]) == "field"]
    ok = False
    got = "no rebuild of the field under `if missing:`"
    if len(rebuilt) == 1 and isinstance(rebuilt[0].value, ast.Call):
        call = rebuilt[0].value
        fn_t = ast.unparse(call.func)
        got = ast.unparse(call)[:100]
        if fn_t in ("np.ma.array", "np.ma.masked_array"):
            mk = [k.value for k in call.keywords if k.arg == "mask"]
            if len(mk) == 1:
                m_ = mk[0]
                parts = []
                if isinstance(m_, ast.Call) and ast.unparse(m_.func) == "np.logical_or":
                    parts = [ast.unparse(a) for a in m_.args]
                elif isinstance(m_, ast.BinOp) and isinstance(m_.op, ast.BitOr):
                    parts = [ast.unparse(m_.left), ast.unparse(m_.right)]
                old_mask = {"field.mask", "np.ma.getmaskarray(field)", "np.ma.getmask(field)"}
                ok = len(parts) == 2 and "missing_mask" in parts and bool(set(parts) & old_mask)
        elif fn_t == "np.ma.masked_where":
            ok = len(call.args) >= 2 and ast.unparse(call.args[0]) == "missing_mask" and ast.unparse(call.args[1]) == "field"
    ctx.check(ok, rule, site, "missing values are added to the mask the field already carries (old mask OR missing): %s" % got, "mask-union")
    mcalls = [n for n in ast.walk(vea) if isinstance(n, ast.Call) and isinstance(n.func, ast.Name) and n.func.id == "_ma_structured"]
    ok = len(mcalls) == 1 and len(mcalls[0].args) >= 2 and ast.unparse(mcalls[0].args[1]) == "mask"
    ctx.check(ok, rule, site, "masked path hands the mask (incl. missing values) to ma_structured", "ma-call")
    # mask and field get the same axis transformation
    tf = {}
    for n in ast.walk(vea):
        if isinstance(n, ast.Assign) and isinstance(n.targets[0], ast.Name) and n.targets[0].id in ("field", "mask") and isinstance(n.value, ast.Call) and isinstance(n.value.func, ast.Attribute) and n.value.func.attr in ("swapaxes", "reshape"):
            nm = n.targets[0].id
            tf.setdefault(nm, []).append(ast.unparse(n.value).replace(nm, "X"))
    ctx.check(tf.get("field") == tf.get("mask") and tf.get("field"), rule, site,
              "field and mask undergo the same swapaxes/reshape sequence: %s" % tf.get("field"), "mask-layout")



def nan_guard(ctx, rule="R08.3"):
    """pair kernels: a pair is accumulated iff NEITHER of the two differenced values is NaN (the kernels' skip value)"""
    prog = ctx.prog
    for k in ("unstructured", "directional"):
        fn = prog.func(EST, k)
        site = "%s::%s" % (EST, k)
        pairs, _ = _accumulations(fn)
        if not pairs:
            raise AnalysisError("no accumulation statements found in %s" % site)
        # R08.3 NaN guard on both operands, same condition for count and value
        for cnt, val in pairs:
            ctx.check(ast.unparse(cnt.target.slice) == ast.unparse(val.target.slice) and ast.unparse(cnt.value) == "1", rule, site,
                      "count and value are accumulated into the same bin index (%s) with count increment 1" % ast.unparse(cnt.target.slice), "same-index")
            rd = _diff_reads(val.value)
            if not rd:
                ctx.violation(rule, site, "value update is not estimator(f[m,a] - f[m,b]): %s" % norm_stmt(val), "diff-shape")
                continue
            pc = O.path_condition(fn, cnt)
            atoms = ["isnan(%s)" % ast.unparse(rd[0]), "isnan(%s)" % ast.unparse(rd[1])]
            nan_conj = [(e, p) for e, p in pc if "isnan" in ast.unparse(e)]
            tested = {ast.unparse(n) for e, _ in nan_conj for n in ast.walk(e) if isinstance(n, ast.Call) and ast.unparse(n.func) == "isnan"}
            if tested - set(atoms):
                ctx.violation(rule, site, "missing-value guard tests %s, which are not the differenced values %s" % (sorted(tested - set(atoms)), atoms), "nan-cells")
                continue
            try:
                tab = O.conj_table(nan_conj, atoms) if nan_conj else "TTTT"
            except O.NotOrd as ex:
                ctx.undecided(rule, site, "NaN guard not decomposable over %s: %s" % (atoms, ex))
                continue
            ctx.check(tab == "TFFF", rule, site,
                      "missing-value guard over (%s, %s) in {F,T}^2 is %s; a pair counts only if neither value is NaN (TFFF)" % (atoms[0], atoms[1], tab), "nan-table")
            ctx.check(ast.unparse(PR.index_elts(rd[0])[0]) == ast.unparse(PR.index_elts(rd[1])[0]), rule, site,
                      "both differenced values come from the same field row", "same-field")



def normalisation_guard(ctx, rule="R08.4"):
    """An empty bin has count 0: both normalisations divide by max(count, 1) (cdivision=True: a division by 0 gives inf / nan silently)."""
    prog = ctx.prog
    n = 0
    for v in ("normalization_matheron", "normalization_cressie"):
        fn = prog.func(EST, v)
        env_guarded = {t.targets[0].id for t in ast.walk(fn) if isinstance(t, ast.Assign) and isinstance(t.targets[0], ast.Name) and ast.unparse(t.value) == "max(counts[i], 1)"}
        divs = [d for d in ast.walk(fn) if (isinstance(d, ast.BinOp) and isinstance(d.op, ast.Div)) or (isinstance(d, ast.AugAssign) and isinstance(d.op, ast.Div))]
        bad = []
        for d in divs:
            den = d.right if isinstance(d, ast.BinOp) else d.value
            for x in ast.walk(den):
                if isinstance(x, ast.Subscript) and PR.base_name(x) == "counts":
                    # a count may appear in a denominator only inside max(counts[i], 1)
                    inside = any(isinstance(c, ast.Call) and ast.unparse(c.func) == "max" and any(y is x for y in ast.walk(c)) and any(ast.unparse(a) in ("1", "1.0") for a in c.args) for c in ast.walk(den))
                    if not inside:
                        bad.append(ast.unparse(den))
                elif isinstance(x, ast.Name) and x.id in {l for l in (prog.mod(EST).pyx.functions[v]["locals"])} and x.id not in env_guarded and x.id != "i":
                    bad.append(ast.unparse(den))
        n += len(divs)
        ctx.check(bool(divs) and not bad, rule, "%s::%s" % (EST, v), "every division by a pair count is by max(count, 1): %s" % (sorted(set(bad)) or "all guarded"), "count-guard")
    ctx.floor(rule, "divisions in the normalisation helpers", n, 3)
    # Matheron: the accumulated squared differences are divided by twice the pair count - as an expanded quotient, whatever the spelling
    fn = prog.func(EST, "normalization_matheron")
    upd = [a for a in ast.walk(fn) if isinstance(a, (ast.AugAssign, ast.Assign)) and ast.unparse(a.target if isinstance(a, ast.AugAssign) else a.targets[0]) == "variogram[i]"]
    okm = False
    got = "?"
    if len(upd) == 1:
        a = upd[0]
        eff = ast.BinOp(a.target, a.op, a.value) if isinstance(a, ast.AugAssign) else a.value
        ms = small.monomials(ast.fix_missing_locations(eff))
        got = str(ms)
        okm = len(ms) == 1 and ms[0][0] == 1 and ms[0][1] == ("variogram[i]",) and sorted(ms[0][2]) in (sorted(("2.0", "max(counts[i], 1)")), sorted(("2", "max(counts[i], 1)")))
    ctx.check(okm, rule, EST + "::normalization_matheron", "variogram[i] becomes variogram[i] / (2 * max(count, 1)): %s" % got[:120], "matheron-quotient")
    # the per-pair estimators: Matheron adds the squared difference itself (the factor 1/2 lives in the normalisation, once), Cressie sqrt(|difference|)
    for est, want in (("estimator_matheron", [(1, ("f_diff", "f_diff"), ())]), ("estimator_cressie", None)):
        efn = prog.func(EST, est)
        par = efn.args.args[0].arg if efn.args.args else "f_diff"
        rets = [r for r in efn.body if isinstance(r, ast.Return)]
        if len(rets) != 1:
            ctx.violation(rule, "%s::%s" % (EST, est), "estimator is not a single returned expression", "estimator-term")
            continue
        if want is not None:
            ms = small.monomials(rets[0].value)
            ok_e = ms == [(1, (par, par), ())] or ast.unparse(rets[0].value) in ("%s ** 2" % par, "%s ** 2.0" % par, "pow(%s, 2)" % par, "pow(%s, 2.0)" % par)
        else:
            ok_e = ast.unparse(rets[0].value) in ("sqrt(fabs(%s))" % par, "sqrt(abs(%s))" % par, "fabs(%s) ** 0.5" % par)
        ctx.check(ok_e, rule, "%s::%s" % (EST, est), "per-pair term is %s: %s" % ("the squared difference (no further factor)" if want is not None else "sqrt(|difference|)", ast.unparse(rets[0].value)), "estimator-term")
    # the axis kernels visit every cell pair: no `break` (the only documented early exit of the pair kernels is the separated-directions break of `directional`)
    for k in ("structured", "ma_structured", "unstructured"):
        kfn = prog.func(EST, k)
        brk = [b for b in ast.walk(kfn) if isinstance(b, ast.Break)]
        ctx.check(not brk, rule, "%s::%s" % (EST, k), "no `break` leaves a loop over cells / pairs early (%d found)" % len(brk), "no-break")


def mask_guard(ctx, rule="R08.3"):
    """ma_structured: a pair is accumulated iff BOTH of its cells are unmasked (truth table of the guard, whatever its spelling)."""
    prog = ctx.prog
    fn = prog.func(EST, "ma_structured")
    site = "%s::%s" % (EST, "ma_structured")
    pairs, _ = _accumulations(fn)
    if len(pairs) != 1:
        raise AnalysisError("expected one accumulation pair in %s" % site)
    cnt, val = pairs[0]
    rd = _diff_reads(val.value)
    if not rd:
        raise AnalysisError("anchor vanished: differenced cells in %s" % site)
    pc = O.path_condition(fn, cnt)
    cells = [ast.unparse(r).replace("f[", "mask[", 1) for r in rd]
    mconj = [(e, p) for e, p in pc if "mask" in ast.unparse(e)]
    reads = {ast.unparse(n) for e, _ in mconj for n in ast.walk(e) if isinstance(n, ast.Subscript) and PR.base_name(n) == "mask"}
    if reads - set(cells):
        ctx.violation(rule, site, "mask guard tests %s, which are not the differenced cells %s" % (sorted(reads - set(cells)), cells), "mask-cells")
    else:
        # truth table of "the pair is accumulated" over (cell a masked, cell b masked), whatever the spelling of the guard
        def truth(e, m):
            t = ast.unparse(e)
            if t in m:
                return m[t]
            if isinstance(e, ast.UnaryOp) and isinstance(e.op, ast.Not):
                return not truth(e.operand, m)
            if isinstance(e, ast.BoolOp):
                vs = [truth(v, m) for v in e.values]
                return all(vs) if isinstance(e.op, ast.And) else any(vs)
            if isinstance(e, ast.Compare) and len(e.ops) == 1 and ast.unparse(e.left) in m and isinstance(e.comparators[0], ast.Constant) and e.comparators[0].value in (0, 1, True, False):
                v = m[ast.unparse(e.left)]
                c = bool(e.comparators[0].value)
                if isinstance(e.ops[0], ast.Eq):
                    return v == c
                if isinstance(e.ops[0], ast.NotEq):
                    return v != c
            raise O.NotOrd("guard term %s" % t)

        try:
            tab = ""
            for ma in (True, False):
                for mb in (True, False):
                    m = {cells[0]: ma, cells[1]: mb}
                    tab += "T" if all(truth(e, m) == pol for e, pol in mconj) else "F"
        except O.NotOrd as ex:
            tab = "?"
            ctx.undecided(rule, site, "mask guard not decomposable over %s: %s" % (cells, ex))
        if tab != "?":
            ctx.check(tab == "FFFT", rule, site,
                      "accumulation over (%s masked, %s masked) = TT,TF,FT,FF is %s; a pair counts only if both cells are unmasked (FFFT)" % (cells[0], cells[1], tab), "mask-table")


WRAPPERS = {"_directional": "directional", "_unstructured": "unstructured", "_structured": "structured", "_ma_structured": "ma_structured"}
MODE_PARAMS = ("estimator_type", "distance_type")


def _bind_call(call, callee):
    """{parameter name: argument node} of a call against the callee's signature (positional + keyword; defaults are NOT filled in)"""
    params = [a.arg for a in callee.args.posonlyargs + callee.args.args]
    out = {}
    for p_, a_ in zip(params, call.args):
        if isinstance(a_, ast.Starred):
            return None
        out[p_] = a_
    for k in call.keywords:
        if k.arg is None:
            return None
        out[k.arg] = k.value
    return out


def estimator_forwarded(ctx, rule="R08.10"):
    """The estimator the caller names must be the one the kernel accumulates with: every call of a kernel wrapper passes
    estimator_type explicitly, and it is `_set_estimator(estimator)`; every wrapper hands its own estimator_type / distance_type to the
    kernel at the position the kernel declares for it (a dropped argument silently selects the default 'm')."""
    prog = ctx.prog
    mod = prog.mod(VAR)
    n = 0
    for q, fn in sorted(mod.functions.items()):
        if q in WRAPPERS:
            continue
        for st in [x for x in ast.walk(fn) if isinstance(x, ast.stmt)]:
            for call in [c for c in ast.walk(st) if isinstance(c, ast.Call) and isinstance(c.func, ast.Name) and c.func.id in WRAPPERS]:
                if any(call in ast.walk(sub) for blk in ("body", "orelse", "finalbody") for sub in (getattr(st, blk, None) or []) if isinstance(sub, ast.stmt)):
                    continue  # reported at the innermost statement
                site = "%s::%s" % (VAR, q)
                bound = _bind_call(call, mod.functions[call.func.id])
                if bound is None:
                    ctx.undecided(rule, site, "call of %s uses * / ** arguments" % call.func.id)
                    continue
                n += 1
                arg = bound.get("estimator_type")
                if arg is None:
                    ctx.violation(rule, site, "%s is called without estimator_type: the default 'm' (Matheron) is used whatever estimator the caller named" % call.func.id, "dropped:%s" % call.func.id)
                    continue
                env = small.sym_eval(fn.body, stop=st)
                val = small.sym_text(small._sym_subst(arg, env))
                ctx.check(val == "_set_estimator(estimator)", rule, site, "%s receives estimator_type = %s" % (call.func.id, val), "estimator:%s" % call.func.id)
    ctx.floor(rule, "kernel wrapper call sites", n, 4)
    for w, kern in sorted(WRAPPERS.items()):
        fn = mod.functions.get(w)
        if fn is None:
            raise AnalysisError("anchor vanished: wrapper %s" % w)
        kfn = prog.func(EST, kern)
        site = "%s::%s" % (VAR, w)
        rets = [r for r in ast.walk(fn) if isinstance(r, ast.Return) and isinstance(r.value, ast.Call)]
        if len(rets) != 1:
            ctx.undecided(rule, site, "wrapper no longer ends in a single kernel call")
            continue
        bound = _bind_call(rets[0].value, kfn)
        env = small.sym_eval(fn.body, stop=rets[0])
        for mp in MODE_PARAMS:
            if mp not in [a.arg for a in kfn.args.args]:
                continue
            val = small.sym_text(small._sym_subst(bound[mp], env)) if bound and mp in bound else "<default>"
            ctx.check(val == mp, rule, site, "the kernel's %s is the wrapper's own %s parameter (got %s)" % (mp, mp, val), "forward:%s" % mp)
        dfl = dict(zip([a.arg for a in fn.args.args][len(fn.args.args) - len(fn.args.defaults):], [ast.unparse(d) for d in fn.args.defaults]))
        kdf = dict(zip([a.arg for a in kfn.args.args][len(kfn.args.args) - len(kfn.args.defaults):], [ast.unparse(d) for d in kfn.args.defaults]))
        for mp in MODE_PARAMS:
            if mp in dfl:
                ctx.check(dfl[mp] == kdf.get(mp), rule, site, "default of %s agrees between wrapper (%s) and kernel (%s)" % (mp, dfl[mp], kdf.get(mp)), "default:%s" % mp)


def run(ctx):
    estimator_forwarded(ctx)
    normalisation_guard(ctx)
    from .C13 import forcing_sites

    forcing_sites(ctx, rule="R08.11")  # bin edges are rescaled to the unit sphere iff the distances are great-circle distances (shared with C13 / C09)
    from . import C15_kernels as _K

    _K.int_division(ctx, rule="R08.9")  # normalisation by the pair count must be a floating-point division (cdivision=True)
    _K.accumulator_reset(ctx, rule="R08.9")
    _K.accumulator_complete(ctx, rule="R08.9")
    _K.build_independent(ctx, rule="R08.9")
    _K.kernel_shape(ctx, rule="R08.9")
    _K.zero_init(ctx, rule="R08.9")
    _K.full_extent(ctx, rule="R08.9")  # every field row / point pair is visited
    from . import C15_bounds

    C15_bounds.run(ctx, rule="R08.9", files=("variogram/estimator.pyx",), floor=30)  # a transposed or out-of-range index pairs other values than the estimator is defined over
    _K.double_precision(ctx, rule="R08.9")  # single-precision accumulators / phases lose the exactness the property states
    from .C09 import ang2dir_rule

    ang2dir_rule(ctx, rule="R08.8")  # the search direction built from `angles=` (shared with C09)
    from .C09 import preprocessing

    preprocessing(ctx, rule="R08.7")  # masked / no-data values must reach the kernels as NaN (their skip value): shared with C09
    prog = ctx.prog
    mod = prog.mod(EST)
    kernels = {}
    for k in ("unstructured", "directional", "structured", "ma_structured"):
        kernels[k] = prog.func(EST, k)
    n_kernels = 0

    # ---------------------------------------------------------------- R08.1 half-open bins (pair kernels)
    for k in ("unstructured", "directional"):
        fn = kernels[k]
        site = "%s::%s" % (EST, k)
        pairs, lone = _accumulations(fn)
        if not pairs and not lone:
            raise AnalysisError("no accumulation statements found in %s" % site)
        for st in lone:
            ctx.violation("R08.3", site, "accumulation without its paired count/value update in the same block: %s" % norm_stmt(st), "lone:" + norm_stmt(st))
        for cnt, val in pairs:
            n_kernels += 1
            bin_ix = PR.index_elts(cnt.target)[-1]
            bi = ast.unparse(bin_ix)
            lo, hi = "bin_edges[%s]" % bi, "bin_edges[%s + 1]" % bi
            pc = O.path_condition(fn, cnt)
            edge_conj = [(e, p) for e, p in pc if "bin_edges[" in ast.unparse(e)]
            if not edge_conj:
                ctx.violation("R08.1", site, "accumulation is not guarded by any comparison against bin_edges", "noguard")
                continue
            # tested value: the single Name compared with the edges
            xs = set()
            for e, p in edge_conj:
                for c in ast.walk(e):
                    if isinstance(c, ast.Compare):
                        for o in [c.left] + c.comparators:
                            if "bin_edges" not in ast.unparse(o):
                                xs.add(ast.unparse(o))
            if len(xs) != 1:
                ctx.undecided("R08.1", site, "cannot identify the tested distance in %s" % [ast.unparse(e) for e, _ in edge_conj])
                continue
            x = xs.pop()
            try:
                table = O.truth_table(edge_conj, x, [lo, hi])
            except O.NotOrd as ex:
                ctx.undecided("R08.1", site, "bin guard is not an order guard on %s against %s, %s: %s" % (x, lo, hi, ex))
                continue
            ctx.check(table == "FTTFF", "R08.1", site,
                      "bin guard over the 5 order types of %s vs (%s, %s) is %s; documented half-open bin [lo, hi) is FTTFF" % (x, lo, hi, table), "bin-table")
            # x must be the distance of the pair whose field values are differenced
            dist_assign = [n for n in ast.walk(fn) if isinstance(n, ast.Assign) and ast.unparse(n.targets[0]) == x]
            rd = _diff_reads(val.value)
            ok = False
            if len(dist_assign) == 1 and isinstance(dist_assign[0].value, ast.Call) and rd:
                a = [ast.unparse(z) for z in dist_assign[0].value.args]
                pa = {ast.unparse(PR.index_elts(rd[0])[-1]), ast.unparse(PR.index_elts(rd[1])[-1])}
                ok = len(a) == 4 and a[1] == "pos" and {a[2], a[3]} == pa and len(pa) == 2
            ctx.check(ok, "R08.1", site, "the binned distance is the distance between exactly the two points whose field values are differenced", "dist-pair")
            # guards in the two kernels agree -> recorded per kernel, compared below
        if not pairs:
            continue
        # R08.2 each unordered pair once
        fb = B.FnBounds(PR.KernelFn(mod, k, fn), [], {}).run()
        cnt = pairs[0][0]
        loops = fb.stmt_loops.get(id(cnt))
        rd = _diff_reads(pairs[0][1].value)
        pv = [ast.unparse(PR.index_elts(r)[-1]) for r in rd] if rd else []
        lv = {v: (lo_, hi_) for v, lo_, hi_ in loops}
        n_sym = B.Lin.sym("pos.shape[1]")
        ok = False
        detail = "pair loops not recognised"
        if len(pv) == 2 and all(v in lv for v in pv):
            order = [v for v, _, _ in loops if v in pv]
            outer, inner = order
            olo, ohi = lv[outer]
            ilo, ihi = lv[inner]
            d_outer_hi = ohi - (n_sym - 2)
            ok = (
                olo.is_const() and olo.k == 0
                and d_outer_hi.is_const() and d_outer_hi.k in (0, 1)
                and repr(ilo - (B.Lin.sym("$" + outer) + 1)) == "0"
                and repr(ihi - (n_sym - 1)) == "0"
            )
            detail = "outer %s in [%r, %r], inner %s in [%r, %r] with n = pos.shape[1]" % (outer, olo, ohi, inner, ilo, ihi)
        ctx.check(ok, "R08.2", site, "pair loops enumerate each unordered pair {a<b} exactly once: " + detail, "pair-loops")
    nan_guard(ctx, rule="R08.3")

    # ---------------------------------------------------------------- structured kernels
    for k in ("structured", "ma_structured"):
        fn = kernels[k]
        site = "%s::%s" % (EST, k)
        pairs, lone = _accumulations(fn)
        if len(pairs) != 1:
            raise AnalysisError("expected one accumulation pair in %s" % site)
        for st in lone:
            ctx.violation("R08.3", site, "accumulation without its paired update: %s" % norm_stmt(st), "lone:" + norm_stmt(st))
        cnt, val = pairs[0]
        n_kernels += 1
        fb = B.FnBounds(PR.KernelFn(mod, k, fn), [], {}).run()
        loops = fb.stmt_loops[id(cnt)]
        lv = {v: (lo_, hi_) for v, lo_, hi_ in loops}
        rd = _diff_reads(val.value)
        ok = False
        detail = "not recognised"
        lag = ast.unparse(cnt.target.slice)
        if rd and lag in lv:
            a0, a1 = PR.index_elts(rd[0]), PR.index_elts(rd[1])
            base = ast.unparse(a0[0])
            n_sym = B.Lin.sym("f.shape[0]")
            if base in lv:
                blo, bhi = lv[base]
                klo, khi = lv[lag]
                second = fb.ev(a1[0], loops)
                ok = (
                    repr(blo) == "0" and repr(bhi - (n_sym - 2)) in ("0", "1")
                    and repr(klo) == "1"
                    and repr(khi - (n_sym - B.Lin.sym("$" + base) - 1)) == "0"
                    and repr(second - (B.Lin.sym("$" + base) + B.Lin.sym("$" + lag))) == "0"
                    and ast.unparse(a0[1]) == ast.unparse(a1[1])
                )
                detail = "%s in [%r, %r], lag %s in [%r, %r], cells f[%s,.] and f[%s,.], n = f.shape[0]" % (base, blo, bhi, lag, klo, khi, ast.unparse(a0[0]), ast.unparse(a1[0]))
        ctx.check(ok, "R08.2", site, "axis loops pair cell a with a+lag for every lag 1..n-1-a once and bin by the lag: " + detail, "axis-loops")
        ctx.check(ast.unparse(cnt.target.slice) == ast.unparse(val.target.slice) and ast.unparse(cnt.value) == "1", "R08.3", site,
                  "count and value accumulate into the same lag bin", "same-index")
        pc = O.path_condition(fn, cnt)
        if k == "ma_structured":
            mask_guard(ctx, rule="R08.3")
        else:
            ctx.check(not pc, "R08.3", site, "unmasked axis kernel accumulates unconditionally (missing values are excluded by the wrapper, below)", "uncond")

    axis_wrapper(ctx, rule="R08.3")

    # ---------------------------------------------------------------- R08.4 dispatch tables
    fam = {}
    for ch in ("choose_estimator_func", "choose_estimator_normalization", "choose_estimator_normalization_vec"):
        fn = prog.func(EST, ch)
        site = "%s::%s" % (EST, ch)
        # the dispatcher as a decision table over its key (if/else, default-then-override, early return: all the same table)
        try:
            table = small.merge_cases(small.return_cases(fn))
        except small.UnrollError as e:
            ctx.undecided("R08.4", site, "dispatcher is not a decision table: %s" % e)
            continue
        par = fn.args.args[0].arg
        rows = {next(iter(c)) if len(c) == 1 else None: v for c, v in table}
        then, els = rows.get("%s == 'm'" % par), rows.get("%s != 'm'" % par)
        if len(table) != 2 or then is None or els is None:
            ctx.violation("R08.4", site, "dispatcher does not split on %s == 'm' / otherwise: %s" % (par, [(sorted(c), v) for c, v in table]), "dispatch")
            continue
        key = "m"
        fam[ch] = (key, "matheron" in then, "cressie" in els)
        ctx.check("matheron" in then and "cressie" in els and then in mod.functions and els in mod.functions, "R08.4", site,
                  "'%s' -> %s, otherwise -> %s" % (key, then, els), "dispatch")
    ctx.check(len(set(fam.values())) == 1 and len(fam) == 3, "R08.4", EST, "the three dispatchers map the same key to the same estimator family", "dispatch-agree")
    se = prog.func(VAR, "_set_estimator")
    tables = dispatch.module_tables(prog.mod(VAR).tree)
    got = {}
    try:
        for key in ("matheron", "Matheron", "MATHERON", "cressie", "Cressie", "m", "c", "", "matheron ", "hodges"):
            got[key] = dispatch.select(se, se.args.args[0].arg, key, tables, want="value")
    except dispatch.DispatchError as e:
        raise AnalysisError("_set_estimator is not interpretable as a key translation: %s" % e)
    want_map = {"matheron": "m", "Matheron": "m", "MATHERON": "m", "cressie": "c", "Cressie": "c", "m": "<raise>", "c": "<raise>", "": "<raise>", "matheron ": "<raise>", "hodges": "<raise>"}
    ctx.check(got == want_map, "R08.4", VAR + "::_set_estimator",
              "verbose names (any case) map to the keys the kernels test, anything else raises (interpreted for %d sample names): %s" % (len(got), {k: v for k, v in got.items() if want_map[k] != v} or "as specified"), "set-estimator")
    ctx.check(any(isinstance(s, ast.Raise) for s in ast.walk(se)), "R08.4", VAR + "::_set_estimator", "unknown estimator raises", "raise")
    # each kernel uses estimator_func and normalisation of the same estimator_type
    for k, fn in kernels.items():
        site = "%s::%s" % (EST, k)
        ch = {}
        for n in ast.walk(fn):
            if isinstance(n, ast.Assign) and isinstance(n.value, ast.Call) and isinstance(n.value.func, ast.Name) and n.value.func.id.startswith("choose_"):
                ch[n.value.func.id] = (ast.unparse(n.targets[0]), [ast.unparse(a) for a in n.value.args])
        ok = len(ch) == 2 and all(a == ["estimator_type"] for _, a in ch.values())
        ctx.check(ok, "R08.4", site, "estimator and normalisation are chosen from the same estimator_type: %s" % sorted(ch), "choose")
        # normalisation applied exactly once, after the loops, to the accumulation arrays
        norm_local = [v[0] for c, v in ch.items() if "normalization" in c]
        top = [s for s in fn.body if isinstance(s, ast.Expr) and isinstance(s.value, ast.Call) and isinstance(s.value.func, ast.Name) and s.value.func.id in norm_local]
        allc = [n for n in ast.walk(fn) if isinstance(n, ast.Call) and isinstance(n.func, ast.Name) and n.func.id in norm_local]
        after = False
        if top:
            idx = fn.body.index(top[0])
            loop_idx = max(i for i, s in enumerate(fn.body) if isinstance(s, (ast.For, ast.With)))
            after = idx > loop_idx
        ctx.check(len(top) == 1 and len(allc) == 1 and after and [ast.unparse(a) for a in top[0].value.args] == ["variogram", "counts"], "R08.4", site,
                  "normalisation is applied exactly once, after all accumulation, to (variogram, counts)", "normalise-once")
        want_vec = k == "directional"
        ctx.check(any(("_vec" in c) == want_vec for c in ch if "normalization" in c), "R08.4", site,
                  "%s normalisation for %s" % ("row-wise (vec)" if want_vec else "1-D", k), "norm-rank")
    for v in ("normalization_matheron_vec", "normalization_cressie_vec"):
        fn = prog.func(EST, v)
        loops = [s for s in fn.body if isinstance(s, ast.For)]
        ok = len(loops) == 1 and ast.unparse(loops[0].iter) == "range(variogram.shape[0])"
        if ok:
            call = loops[0].body[0].value if isinstance(loops[0].body[0], ast.Expr) else None
            d = loops[0].target.id
            ok = isinstance(call, ast.Call) and call.func.id == v[:-4] and [ast.unparse(a) for a in call.args] == ["variogram[%s, :]" % d, "counts[%s, :]" % d]
        ctx.check(ok, "R08.4", "%s::%s" % (EST, v), "normalises every direction row with the matching 1-D normaliser on (variogram[d], counts[d])", "vec")
    # distance dispatch
    un = kernels["unstructured"]
    site = EST + "::unstructured"
    dis = [s for s in un.body if isinstance(s, ast.If) and "distance_type" in ast.unparse(s.test)]
    ok = False
    if len(dis) == 1 and ast.unparse(dis[0].test) == "distance_type == 'e'":
        then = [ast.unparse(s.value) for s in dis[0].body if isinstance(s, ast.Assign)]
        els = [ast.unparse(s.value) for s in dis[0].orelse if isinstance(s, ast.Assign)]
        guard = [s for s in dis[0].orelse if isinstance(s, ast.If) and ast.unparse(s.test) == "dim != 2" and any(isinstance(x, ast.Raise) for x in s.body)]
        ok = then == ["dist_euclid"] and els == ["dist_haversine"] and len(guard) == 1
    ctx.check(ok, "R08.4", site, "'e' -> dist_euclid, otherwise -> dist_haversine guarded by dim == 2", "distance-dispatch")
    ve = prog.func(VAR, "vario_estimate")
    dt = [n for n in ast.walk(ve) if isinstance(n, ast.Assign) and ast.unparse(n.targets[0]) == "distance_type"]
    ctx.check(len(dt) == 1 and ast.unparse(dt[0].value) == "'h' if latlon else 'e'", "R08.4", VAR + "::vario_estimate",
              "haversine distance is selected iff latlon", "distance-select")
    di = kernels["directional"]
    dcalls = [n for n in ast.walk(di) if isinstance(n, ast.Assign) and ast.unparse(n.targets[0]) == "dist"]
    ctx.check(len(dcalls) == 1 and isinstance(dcalls[0].value, ast.Call) and dcalls[0].value.func.id == "dist_euclid", "R08.4", EST + "::directional",
              "directional estimation uses the Euclidean distance", "dir-euclid")

    # ---------------------------------------------------------------- R08.5 direction logic
    site = EST + "::directional"
    brk = [n for n in ast.walk(di) if isinstance(n, ast.Break)]
    ok = len(brk) == 1
    if ok:
        pc = O.path_condition(di, brk[0])
        texts = [(ast.unparse(e), p) for e, p in pc]
        ok = ("separate_dirs", True) in texts and any(t.startswith("not dir_test(") and not p for t, p in texts)
        # and the break leaves the direction loop, not the pair loops
        dloop = [n for n in ast.walk(di) if isinstance(n, ast.For) and any(b is brk[0] for b in ast.walk(n))]
        innermost = dloop[-1] if dloop else None
        ok = ok and innermost is not None and ast.unparse(innermost.iter) == "range(d_max)"
    ctx.check(ok, "R08.5", site, "the separated-directions `break` is reached only after dir_test succeeded and only leaves the direction loop", "break")
    dirpairs, _ = _accumulations(di)
    for cnt, val in dirpairs:
        pc = O.path_condition(di, cnt)
        dt_ = [(e, p) for e, p in pc if "dir_test" in ast.unparse(e)]
        ok = len(dt_) == 1 and ((isinstance(dt_[0][0], ast.UnaryOp) and not dt_[0][1]) or (isinstance(dt_[0][0], ast.Call) and dt_[0][1]))
        call = [n for e, _ in dt_ for n in ast.walk(e) if isinstance(n, ast.Call) and getattr(n.func, "id", "") == "dir_test"]
        if ok and call:
            a = [ast.unparse(x) for x in call[0].args]
            d_ix = ast.unparse(PR.index_elts(cnt.target)[0])
            rd = _diff_reads(val.value)
            pts = {ast.unparse(PR.index_elts(r)[-1]) for r in rd} if rd else set()
            ok = a[:6] == ["dim", "pos", "dist", "direction", "angles_tol", "bandwidth"] and set(a[6:8]) == pts and a[8] == d_ix
        ctx.check(ok, "R08.5", site, "a pair is accumulated into direction d only if dir_test(pair, d) holds, with the kernel's tolerance and bandwidth", "dirtest-guard")
    # the separated-directions flag must be computed from the very direction vectors (normalised) the kernel receives
    sep_calls = [n for n in ast.walk(ve) if isinstance(n, ast.Call) and getattr(n.func, "id", "") == "_separate_dirs_test"]
    kcalls = [n for n in ast.walk(ve) if isinstance(n, ast.Call) and getattr(n.func, "id", "") == "_directional"]
    ok = len(sep_calls) == 1 and len(kcalls) == 1 and sep_calls[0].args and ast.unparse(sep_calls[0].args[0]) == "direction" and len(kcalls[0].args) > 3 and ast.unparse(kcalls[0].args[3]) == "direction"
    if ok:
        d1 = small.last_def_before(ve, "direction", sep_calls[0]._ord)
        d2 = small.last_def_before(ve, "direction", kcalls[0]._ord)
        norm = [n for n in ast.walk(ve) if small.divides_by(n, "direction", "norms")]
        ok = d1 is not None and d1 is d2 and len(norm) == 1 and d1 is norm[0]
        t1 = ast.unparse(sep_calls[0].args[1]) if len(sep_calls[0].args) > 1 else "?"
        t2 = ast.unparse(kcalls[0].args[4]) if len(kcalls[0].args) > 4 else "?"
        ok = ok and t1 == t2 == "angles_tol"
    ctx.check(ok, "R08.5", VAR + "::vario_estimate", "the separated-directions test sees the same unit direction vectors and tolerance as the kernel (its arccos of the dot product assumes unit vectors)", "separate-same-dirs")
    flag = {k.arg: k.value for k in kcalls[0].keywords}.get("separate_dirs") if kcalls else None
    src_ok = flag is not None and (flag is (sep_calls[0] if sep_calls else None) or (isinstance(flag, ast.Name) and any(isinstance(n, ast.Assign) and ast.unparse(n.targets[0]) == flag.id and n.value is sep_calls[0] for n in ast.walk(ve))))
    ctx.check(bool(src_ok), "R08.5", VAR + "::vario_estimate", "the kernel's separate_dirs flag is the result of that test", "separate-flag-source")
    dtf = prog.func(EST, "dir_test")
    ret = [s for s in dtf.body if isinstance(s, ast.Return)]
    ok = len(ret) == 1 and isinstance(ret[0].value, ast.BoolOp) and isinstance(ret[0].value.op, ast.And) and sorted(ast.unparse(v) for v in ret[0].value.values) == ["in_angle", "in_band"]
    ctx.check(ok, "R08.5", EST + "::dir_test", "band and angle criteria are combined by conjunction", "conj")
    cmpz = {}
    for n in ast.walk(dtf):
        if isinstance(n, ast.Assign) and isinstance(n.targets[0], ast.Name) and n.targets[0].id in ("in_band", "in_angle") and isinstance(n.value, ast.Compare):
            cmpz[n.targets[0].id] = ast.unparse(n.value)
    ctx.check(set(cmpz) == {"in_band", "in_angle"} and "bandwidth" in cmpz.get("in_band", "") and "angles_tol" in cmpz.get("in_angle", ""), "R08.5", EST + "::dir_test",
              "band distance is compared with bandwidth, angle with angles_tol: %s" % cmpz, "cmp")
    ctx.note("R08.5", "observed convention: %s (strict); the documentation says 'within', so strictness is recorded, not enforced" % cmpz)
    # the band distance is accumulated as a sum of squares: it is compared with the bandwidth as a length (sqrt of the sum), or both sides squared
    bacc = [a for a in ast.walk(dtf) if isinstance(a, ast.AugAssign) and isinstance(a.target, ast.Name) and a.target.id == "b_dist"]
    squares = bool(bacc) and all((isinstance(a.value, ast.BinOp) and isinstance(a.value.op, ast.Mult) and ast.unparse(a.value.left) == ast.unparse(a.value.right))
                                 or (isinstance(a.value, ast.BinOp) and isinstance(a.value.op, ast.Pow) and ast.unparse(a.value.right) in ("2", "2.0")) for a in bacc)
    band = [n.value for n in ast.walk(dtf) if isinstance(n, ast.Assign) and isinstance(n.targets[0], ast.Name) and n.targets[0].id == "in_band" and isinstance(n.value, ast.Compare)]
    okb = False
    if squares and len(band) == 1 and len(band[0].ops) == 1:
        sides = [ast.unparse(band[0].left), ast.unparse(band[0].comparators[0])]
        okb = sorted(sides) in (sorted(["sqrt(b_dist)", "bandwidth"]), sorted(["b_dist", "bandwidth * bandwidth"]), sorted(["b_dist", "bandwidth ** 2"]))
    # the direction is an axis, not an arrow: the angle between pair vector and direction uses |scalar product|
    ang = [n for n in ast.walk(dtf) if isinstance(n, ast.Assign) and isinstance(n.targets[0], ast.Name) and n.targets[0].id == "in_angle" and isinstance(n.value, ast.Compare)]
    oka = False
    got_a = "?"
    if len(ang) == 1:
        owner = next((b for b in ast.walk(dtf) if isinstance(b, ast.If) and any(x is ang[0] for x in ast.walk(b))), None)
        env_ = small.sym_eval(dtf.body, stop=ang[0], opaque=("s_prod", "dist"))
        got_a = small.sym_text(small._sym_subst(ang[0].value, env_))
        oka = got_a in ("acos(fabs(s_prod) / dist) < angles_tol", "acos(abs(s_prod) / dist) < angles_tol")
        del owner
    ctx.check(oka, "R08.5", EST + "::dir_test", "the angle criterion is acos(|s_prod| / dist) < angles_tol (pairs pointing against the direction count as well): %s" % got_a, "angle-abs")
    ctx.check(okb, "R08.5", EST + "::dir_test", "b_dist sums squared offsets; the band test compares it with the bandwidth in the same power (sqrt(b_dist) with bandwidth, or b_dist with bandwidth squared): %s"
              % ([ast.unparse(b) for b in band]), "band-power")

    # ---------------------------------------------------------------- R08.6 parity / symmetry
    for nm in ("estimator_matheron", "estimator_cressie"):
        fn = prog.func(EST, nm)
        arg = fn.args.args[0].arg
        par = small.Parity("negate", arg).run_function(fn)
        ctx.check(par == small.EVEN, "R08.6", "%s::%s" % (EST, nm), "estimator is an even function of the increment (pair order cannot matter): %s" % par, "even")
    for nm in ("dist_euclid", "dist_haversine"):
        fn = prog.func(EST, nm)
        a = [x.arg for x in fn.args.args]
        par = small.Parity("swap", a[2], a[3]).run_function(fn)
        ctx.check(par == small.EVEN, "R08.6", "%s::%s" % (EST, nm), "distance is symmetric under exchange of the two point indices: %s" % par, "symmetric")

    ctx.floor("R08", "accumulation sites analysed", n_kernels, 4)
    ctx.floor("R08.1", "bin guards evaluated", ctx.count("R08.1"), 4)
    return (
        "Decides the structural clauses of C08: (R08.1) the bin-membership guard of both pair kernels, evaluated over all 5 order "
        "types of the distance against the two bin edges, is the documented half-open interval; (R08.2) the loop bounds enumerate each "
        "unordered pair / each (cell, lag) exactly once (symbolic interval arithmetic); (R08.3) count and value are updated together under "
        "one guard that excludes a pair iff either value is NaN/masked (truth table over the atoms), and the NaN-blind kernel is reachable "
        "only for complete data; (R08.4) estimator/normalisation/distance dispatch tables agree and normalisation is applied once; (R08.5) "
        "direction logic; (R08.6) estimator even, distances symmetric. NOT decided: numerical constants of Cressie's estimator, haversine "
        "and band geometry formulas."
        ' (R08.9-R08.11) loop extents, bounds, allocation, precision and exits of the variogram kernels; estimator forwarding through every wrapper; mask / NaN guards as truth tables; band test in the right power, angle test with |s_prod|, Matheron quotient, per-pair estimator terms.'
    )


def small_names(e):
    return [n.id for n in ast.walk(e) if isinstance(n, ast.Name)]


def small_names_list(vals):
    out = []
    for v in vals:
        out += small_names(v)
    return out
