A = "transform/array.py"
F = "transform/field.py"
CASES = [
    dict(name="lower-edge-strict", file=A, expect="R19.1", old="    result[field <= thresholds[0]] = values[0]", new="    result[field < thresholds[0]] = values[0]"),
    dict(name="upper-edge-closed", file=A, expect="R19.1", old="    result[field > thresholds[-1]] = values[-1]", new="    result[field >= thresholds[-1]] = values[-1]"),
    dict(name="inner-off-by-one-value", file=A, expect="R19.1", old="    for i, value in enumerate(values[1:-1]):", new="    for i, value in enumerate(values[2:]):", accept_undecided=True),
    dict(name="inner-wrong-threshold", file=A, expect="R19.1", old="np.logical_and(thresholds[i] < field, field <= thresholds[i + 1])", new="np.logical_and(thresholds[i] < field, field <= thresholds[i])"),
    dict(name="inner-half-open-other-way", file=A, expect="R19.1", old="np.logical_and(thresholds[i] < field, field <= thresholds[i + 1])", new="np.logical_and(thresholds[i] <= field, field < thresholds[i + 1])"),
    dict(name="result-is-input", file=A, expect="R19.1", old="    result = np.empty_like(field)", new="    result = field"),
    dict(name="no-ascending-check", file=A, expect="R19.1",
         old="""    if not np.all(thresholds[:-1] < thresholds[1:]):
        raise ValueError(
            "discrete transformation: thresholds need to be ascending"
        )
""", new=""),
    dict(name="arithmetic-unsorted", file=A, expect="R19.1", old="        values = np.sort(values)\n", new="        values = np.asarray(values)\n"),
    dict(name="equal-wrong-quantiles", file=A, expect="R19.1", old="        p = np.arange(1, n) / n  # n-1 equal subdivisions of [0, 1]", new="        p = np.arange(1, n) / (n + 1)"),
    dict(name="wrapper-var-not-sill", file=F, expect="R19.2",
         old="""        conn=conn,
        mean=0.0 if process and not keep_mean else fld.mean,
        var=fld.model.sill,""",
         new="""        conn=conn,
        mean=0.0 if process and not keep_mean else fld.mean,
        var=fld.model.var,"""),
    dict(name="wrapper-mean-flag-inverted", file=F, expect="R19.2",
         old="""        mean=0.0 if process and not keep_mean else fld.mean,
        var=fld.model.sill,
        low=low,""",
         new="""        mean=0.0 if process and keep_mean else fld.mean,
        var=fld.model.sill,
        low=low,"""),
    dict(name="wrapper-wrong-function", file=F, expect="R19.2", old="        function=array_to_uquad,", new="        function=array_to_arcsin,"),
    dict(name="wrapper-no-normal-guard", file=F, expect="R19.2",
         old="""    if not process:
        _check_for_default_normal(fld)
    kw = dict(
        mean=0.0 if process and not keep_mean else fld.mean, var=fld.model.sill
    )""",
         new="""    kw = dict(
        mean=0.0 if process and not keep_mean else fld.mean, var=fld.model.sill
    )"""),
    dict(name="wrapper-swapped-bounds", file=F, expect="R19.2",
         old="""        var=fld.model.sill,
        a=a,
        b=b,
    )
    return apply_function(
        fld=fld,
        function=array_to_arcsin,""",
         new="""        var=fld.model.sill,
        a=b,
        b=a,
    )
    return apply_function(
        fld=fld,
        function=array_to_arcsin,"""),
    dict(name="apply-dispatch-crossed", file=F, expect="R19.2", old='    if method.endswith("arcsin"):\n        return normal_to_arcsin(fld, **kwargs)', new='    if method.endswith("arcsin"):\n        return normal_to_uquad(fld, **kwargs)'),
    dict(name="apply-function-processes-result", file=F, expect="R19.2", old="    return fld.post_field(data, name=name, process=False, save=save)", new="    return fld.post_field(data, name=name, process=True, save=save)"),
    dict(name="binary-values-swapped", file=F, expect="R19.3", old="        values=[lower, upper],", new="        values=[upper, lower],"),
    dict(name="binary-default-not-sill", file=F, expect="R19.3", old="    upper = mean + np.sqrt(fld.model.sill) if upper is None else upper", new="    upper = mean + np.sqrt(fld.model.var) if upper is None else upper"),
    dict(name="arcsin-default-width", file=A, expect="R19.3", old="    a = mean - np.sqrt(2.0 * var) if a is None else float(a)\n    b = mean + np.sqrt(2.0 * var) if b is None else float(b)", new="    a = mean - np.sqrt(3.0 * var) if a is None else float(a)\n    b = mean + np.sqrt(3.0 * var) if b is None else float(b)"),
    dict(name="uquad-asymmetric-bounds", file=A, expect="R19.3", old="    b = mean + np.sqrt(5.0 / 3.0 * var) if b is None else float(b)", new="    b = mean + np.sqrt(5.0 / 2.0 * var) if b is None else float(b)"),
    dict(name="force-moments-no-centering", file=A, expect="R19.3", old="    return rescale * (field - mean_in) + mean", new="    return rescale * field + mean"),
    dict(name="uniform-uses-std-not-var", file=A, expect="R19.3", old="erf((field - mean) / np.sqrt(2 * var))", new="erf((field - mean) / np.sqrt(2) / var)"),
    dict(name="twin-mask-rewritten", kind="twin", file=A, old="np.logical_and(thresholds[i] < field, field <= thresholds[i + 1])", new="np.logical_and(field > thresholds[i], np.logical_not(field > thresholds[i + 1]))"),
    dict(name="twin-edge-rewritten", kind="twin", file=A, old="    result[field <= thresholds[0]] = values[0]", new="    result[np.logical_not(field > thresholds[0])] = values[0]"),
    dict(name="uniform-mean-truthiness", file="transform/array.py", expect="R19.4", old="    mean = np.mean(field) if mean is None else float(mean)\n    var = np.var(field) if var is None else float(var)\n    return (\n        0.5", new="    mean = float(mean) if mean else np.mean(field)\n    var = np.var(field) if var is None else float(var)\n    return (\n        0.5"),
]
