"""FLAGFWD lint: a call that leaves a defaulted configuration flag of the callee unbound although the caller has a
value of that name in scope (parameter, local, or attribute of the object it works on) silently falls back to the default.
Rule instances were mined from the tree, confirmed by reading, and the exceptions are frozen below (one reason each)."""
import ast

from . import alias

FLAGS = {"latlon", "temporal", "geo_scale", "mesh_type", "value_type"}
EXEMPT = {
    ("covmodel/tools.py::set_dim", "covmodel/tools.py::set_len_anis", "latlon"):
        "ratios of a lat-lon model are already forced to 1 by every other writer and its dimension never changes (forced to 3(+1))",
    ("krige/base.py::Krige.set_condition", "variogram/variogram.py::vario_estimate", "latlon"):
        "the directional branch is only reached for anisotropic models; lat-lon models are spatially isotropic (and lat-lon + temporal raises before)",
    ("krige/base.py::Krige.set_condition", "variogram/variogram.py::vario_estimate", "geo_scale"):
        "same branch as above: never taken for lat-lon models",
}


def run(ctx, rule, only_callees=None):
    prog = ctx.prog
    an = alias.Analyzer(prog)
    n_sites = 0
    for fq, (m, f, ci, kind) in an.funcs.items():
        if m.relpath.endswith("plot.py"):
            continue
        fa = alias.FnAnalysis(an, fq)
        src = ast.unparse(f)
        params = {a.arg for a in f.args.args + f.args.kwonlyargs}
        locals_ = {t.id for n in ast.walk(f) for t in ast.walk(n) if isinstance(t, ast.Name) and isinstance(t.ctx, ast.Store)}
        for node in ast.walk(f):
            if not isinstance(node, ast.Call):
                continue
            tg = an.resolve_call(fa, node)
            if len(tg) != 1:
                continue
            tfq, how = tg[0]
            if only_callees is not None and tfq.split("::")[1] not in only_callees:
                continue
            tfn = an.funcs[tfq][1]
            names = [a.arg for a in tfn.args.posonlyargs + tfn.args.args]
            if how in ("method", "ctor") or (an.funcs[tfq][2] is not None and names and names[0] in ("self", "cls")):
                names = names[1:]
            nd = len(tfn.args.defaults)
            defaulted = set(names[len(names) - nd:]) | {a.arg for a, d in zip(tfn.args.kwonlyargs, tfn.args.kw_defaults) if d is not None}
            if any(k.arg is None for k in node.keywords) or any(isinstance(a, ast.Starred) for a in node.args):
                continue
            bound = set(names[: len(node.args)]) | {k.arg for k in node.keywords if k.arg}
            for p in sorted((defaulted & FLAGS) - bound):
                avail = p in params or p in locals_ or (".%s" % p) in src
                if not avail:
                    continue
                n_sites += 1
                key = (fq, tfq, p)
                site = fq
                call_txt = " ".join(ast.unparse(node).split())[:80]
                if key in EXEMPT:
                    ctx.ok(rule, site, "call `%s` leaves `%s` at its default: reviewed exception (%s)" % (call_txt, p, EXEMPT[key]))
                else:
                    ctx.violation(rule, site, "call `%s` does not pass `%s` although the caller has it in scope: the callee (%s) silently uses its default" % (call_txt, p, tfq.split("::")[1]), "dropped:%s:%s" % (tfq.split("::")[1], p))
    return n_sites
