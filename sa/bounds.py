"""LOOP/interval engine: every array index in the kernels lies inside the array (boundscheck=False).

Symbolic linear forms over shape symbols ("pos.shape[1]"), scalar parameters and loop variables.
Loop variables are eliminated by substituting their range ends (innermost first); the remaining form is
compared with the axis extent under the wrapper contract (frozen equalities between shape symbols).
No values, no solver: sign inspection of a linear form.
"""
import ast
from fractions import Fraction

from .loader import AnalysisError
from . import prange as PR


class Lin:
    __slots__ = ("c", "k")

    def __init__(self, c=None, k=0):
        self.c = {s: Fraction(v) for s, v in (c or {}).items() if v != 0}
        self.k = Fraction(k)

    @staticmethod
    def sym(s):
        return Lin({s: 1})

    def __add__(self, o):
        o = o if isinstance(o, Lin) else Lin(k=o)
        c = dict(self.c)
        for s, v in o.c.items():
            c[s] = c.get(s, 0) + v
        return Lin(c, self.k + o.k)

    def __neg__(self):
        return Lin({s: -v for s, v in self.c.items()}, -self.k)

    def __sub__(self, o):
        o = o if isinstance(o, Lin) else Lin(k=o)
        return self + (-o)

    def scale(self, f):
        return Lin({s: v * f for s, v in self.c.items()}, self.k * f)

    def subst(self, s, form):
        if s not in self.c:
            return self
        v = self.c[s]
        rest = Lin({a: b for a, b in self.c.items() if a != s}, self.k)
        return rest + form.scale(v)

    def is_const(self):
        return not self.c

    def __repr__(self):
        parts = []
        for s, v in sorted(self.c.items()):
            parts.append(("%s" % s) if v == 1 else ("-%s" % s) if v == -1 else "%s*%s" % (v, s))
        if self.k != 0 or not parts:
            parts.append(str(self.k))
        return " + ".join(parts).replace("+ -", "- ")


class Unknown(Exception):
    pass


class FnBounds:
    def __init__(self, kfn, contract_eq, contract_lb):
        self.kfn = kfn
        self.mod = kfn.mod
        self.env = {}  # int local -> Lin
        self.shapes = {}  # array name -> [Lin per axis]
        self.eq = list(contract_eq)  # [(symA, symB)]
        self.lb = dict(contract_lb)  # sym -> lower bound
        self.obligations = []  # (desc, Lin that must be <= 0, loops)
        self.calls = []  # (callee name candidates, ast.Call, loops, facts)
        for p in kfn.info["params"]:
            if p["type"] and "[" in p["type"]:
                self.shapes[p["name"]] = [Lin.sym("%s.shape[%d]" % (p["name"], ax)) for ax in range(p["rank"])]
            elif p["type"] and ("int" in p["type"]):
                self.env[p["name"]] = Lin.sym(p["name"])

    # ---- expression evaluation
    def ev(self, e, loops):
        if isinstance(e, ast.Constant) and isinstance(e.value, int) and not isinstance(e.value, bool):
            return Lin(k=e.value)
        if isinstance(e, ast.Name):
            for v, lo, hi in loops:
                if v == e.id:
                    return Lin.sym("$" + v)
            if e.id in self.env:
                return self.env[e.id]
            raise Unknown(e.id)
        if isinstance(e, ast.BinOp) and isinstance(e.op, (ast.Add, ast.Sub)):
            a, b = self.ev(e.left, loops), self.ev(e.right, loops)
            return a + b if isinstance(e.op, ast.Add) else a - b
        if isinstance(e, ast.Subscript) and isinstance(e.value, ast.Attribute) and e.value.attr == "shape" and isinstance(e.value.value, ast.Name):
            arr = e.value.value.id
            if arr in self.shapes and isinstance(e.slice, ast.Constant):
                return self.shapes[arr][e.slice.value]
        if isinstance(e, ast.Call) and isinstance(e.func, ast.Name) and e.func.id == "len" and len(e.args) == 1 and isinstance(e.args[0], ast.Name):
            if e.args[0].id in self.shapes:
                return self.shapes[e.args[0].id][0]
        raise Unknown(ast.unparse(e))

    def array_shape_of_alloc(self, v):
        """np.zeros(n) / np.zeros((a, b)) / np.empty(n)"""
        if isinstance(v, ast.Call) and ast.unparse(v.func) in ("np.zeros", "np.empty", "np.ones") and v.args:
            a = v.args[0]
            elts = a.elts if isinstance(a, ast.Tuple) else [a]
            return [self.ev(x, []) for x in elts]
        return None

    # ---- walking
    def run(self):
        self.consts = {}
        self.stmt_loops = {}
        self.fptr_facts = {}  # helper name -> {sym: const} valid only where that helper was selected
        self.walk(self.kfn.node.body, [], {}, 0)
        return self

    def walk(self, stmts, loops, facts, depth=1):
        for st in stmts:
            self.stmt_loops[id(st)] = loops
            if isinstance(st, ast.Assign) and len(st.targets) == 1 and isinstance(st.targets[0], ast.Name):
                nm = st.targets[0].id
                self.visit_expr(st.value, loops, facts)
                t = self.kfn.types.get(nm)
                if t and "[" in t:
                    sh = None
                    try:
                        sh = self.array_shape_of_alloc(st.value)
                    except Unknown:
                        sh = None
                    if sh is not None:
                        self.shapes[nm] = sh
                elif t and "int" in t and not loops:
                    try:
                        self.env[nm] = self.ev(st.value, loops)
                    except Unknown:
                        self.env.pop(nm, None)
                continue
            if isinstance(st, (ast.Assign, ast.AugAssign)):
                for t in (st.targets if isinstance(st, ast.Assign) else [st.target]):
                    self.visit_expr(t, loops, facts)
                self.visit_expr(st.value, loops, facts)
            elif isinstance(st, ast.For):
                it = st.iter
                if not (isinstance(it, ast.Call) and isinstance(it.func, ast.Name) and it.func.id in ("range", "prange") and isinstance(st.target, ast.Name)):
                    raise AnalysisError("bounds: unsupported loop %s" % ast.unparse(it))
                args = it.args
                try:
                    if len(args) == 1:
                        lo, hi = Lin(), self.ev(args[0], loops) - 1
                    elif len(args) == 2:
                        lo, hi = self.ev(args[0], loops), self.ev(args[1], loops) - 1
                    else:
                        raise Unknown("range with step")
                except Unknown as u:
                    raise AnalysisError("bounds: cannot evaluate loop bound %s (%s)" % (ast.unparse(it), u))
                self.walk(st.body, loops + [(st.target.id, lo, hi)], facts, depth + 1)
            elif isinstance(st, ast.If):
                self.visit_expr(st.test, loops, facts)
                f_then, f_else = dict(facts), dict(facts)
                # `if X != c: raise`  => afterwards X == c ;  `if A.shape[i] != B.shape[j]: raise` => equality
                if isinstance(st.test, ast.Compare) and len(st.test.ops) == 1 and isinstance(st.test.ops[0], ast.NotEq) and any(isinstance(s, ast.Raise) for s in st.body) and not st.orelse:
                    try:
                        a, b = self.ev(st.test.left, loops), self.ev(st.test.comparators[0], loops)
                        self.record_equality(a, b, facts, is_global=(depth == 0 and not loops))
                    except Unknown:
                        pass
                self.walk(st.body, loops, f_then, depth + 1)
                self.walk(st.orelse, loops, f_else, depth + 1)
                # a branch that selects a function pointer: facts established in that branch belong to the target
                for body, fx in ((st.body, f_then), (st.orelse, f_else)):
                    for s2 in body:
                        if isinstance(s2, ast.Assign) and isinstance(s2.value, ast.Name) and s2.value.id in self.mod.functions:
                            self.fptr_facts.setdefault(s2.value.id, {}).update(
                                {k[6:]: v for k, v in fx.items() if k.startswith("const:")})
            elif isinstance(st, ast.With):
                self.walk(st.body, loops, facts, depth)
            elif isinstance(st, (ast.Expr, ast.Return)):
                if st.value is not None:
                    self.visit_expr(st.value, loops, facts)
            elif isinstance(st, (ast.Pass, ast.Continue, ast.Break, ast.Raise, ast.Import, ast.ImportFrom)):
                pass
            else:
                raise AnalysisError("bounds: unsupported statement %s" % type(st).__name__)

    def record_equality(self, a, b, facts, is_global):
        d = a - b
        syms = sorted(d.c)
        if len(syms) == 2 and d.k == 0 and sorted(d.c.values()) == [-1, 1]:
            if is_global:
                self.eq.append((syms[0], syms[1]))
        elif len(syms) == 1 and abs(d.c[syms[0]]) == 1:
            # sym == const after the guard
            val = -d.k / d.c[syms[0]]
            facts["const:" + syms[0]] = val
            if is_global:
                self.consts[syms[0]] = val

    def visit_expr(self, e, loops, facts):
        for node in ast.walk(e):
            if isinstance(node, ast.Subscript):
                arr = node.value.id if isinstance(node.value, ast.Name) else None
                if arr in self.shapes:
                    elts = PR.index_elts(node)
                    if len(elts) != len(self.shapes[arr]):
                        self.obligations.append(("rank of %s" % ast.unparse(node), None, loops, "rank"))
                        continue
                    for ax, ix in enumerate(elts):
                        if isinstance(ix, ast.Slice):
                            continue
                        try:
                            f = self.ev(ix, loops)
                        except Unknown as u:
                            self.obligations.append((ast.unparse(node), None, loops, "unknown index %s" % u))
                            continue
                        ext = self.shapes[arr][ax]
                        self.obligations.append(("%s axis %d upper" % (ast.unparse(node), ax), f - (ext - 1), loops, "ub"))
                        self.obligations.append(("%s axis %d lower" % (ast.unparse(node), ax), -f, loops, "lb"))
            elif isinstance(node, ast.Call) and isinstance(node.func, ast.Name):
                self.calls.append((node, loops))

    # ---- deciding a form <= 0
    def canon(self, form, extra_consts=None):
        # union-find over equalities
        parent = {}

        def find(x):
            while parent.get(x, x) != x:
                x = parent[x]
            return x

        for a, b in self.eq:
            ra, rb = find(a), find(b)
            if ra != rb:
                parent[max(ra, rb)] = min(ra, rb)
        out = Lin(k=form.k)
        consts = dict(self.consts)
        consts.update(extra_consts or {})
        for s, v in form.c.items():
            r = find(s)
            if s in consts:
                out = out + Lin(k=consts[s] * v)
            elif r in consts:
                out = out + Lin(k=consts[r] * v)
            else:
                out = out + Lin({r: v})
        return out, find

    def eliminate(self, form, loops):
        for v, lo, hi in reversed(loops):
            s = "$" + v
            if s in form.c:
                form = form.subst(s, hi if form.c[s] > 0 else lo)
        return form

    def holds_le0(self, form, loops, extra_consts=None):
        form = self.eliminate(form, loops)
        form, find = self.canon(form, extra_consts)
        total = form.k
        for s, v in form.c.items():
            if v > 0:
                return False, form
            lbv = max([Fraction(b) for a, b in self.lb.items() if find(a) == s] + [Fraction(0)])
            total += v * lbv
        return total <= 0, form


def analyse_module(mod, contract, ctx, rule, site_prefix):
    """contract: {kernel: dict(eq=[(symA, symB)], lb={sym: n})}"""
    n = 0
    fns = {}
    for name, fn in mod.functions.items():
        kfn = PR.KernelFn(mod, name, fn)
        c = contract.get(name, {})
        fns[name] = FnBounds(kfn, c.get("eq", []), c.get("lb", {})).run()
    from .rules.C15 import resolve_fptr_targets

    for name, fb in fns.items():
        site = "%s::%s" % (site_prefix, name)
        is_helper = fb.kfn.info["kind"] == "cdef"
        if is_helper:
            continue  # helpers are checked at their call sites (inlined obligations)
        n += _check_fn(fb, fns, ctx, rule, site, resolve_fptr_targets)
    return n


def _check_fn(fb, fns, ctx, rule, site, resolve):
    n = 0
    for desc, form, loops, kind in fb.obligations:
        n += 1
        if form is None:
            ctx.undecided(rule, site, "index %s: %s" % (desc, kind))
            continue
        ok, red = fb.holds_le0(form, loops)
        ctx.check(ok, rule, site, "index in bounds: %s  [residual %s <= 0]" % (desc, red), "bounds:" + desc)
    # inline helper obligations at call sites
    for call, loops in fb.calls:
        nm = call.func.id
        targets = resolve(fb.kfn, nm) if (nm in fb.mod.functions or nm in fb.kfn.types) else set()
        for t in sorted(targets):
            hb = fns[t]
            if hb.kfn.info["kind"] != "cdef":
                continue
            # substitution: helper scalar param -> caller form ; helper array shape symbol -> caller array extents
            sub = {}
            okmap = True
            for p, a in zip(hb.kfn.info["params"], call.args):
                if p["type"] and "[" in p["type"]:
                    base = a
                    kept = None
                    if isinstance(a, ast.Subscript) and isinstance(a.value, ast.Name):
                        base = a.value
                        kept = [i for i, e in enumerate(PR.index_elts(a)) if isinstance(e, ast.Slice)]
                    if isinstance(base, ast.Name) and base.id in fb.shapes:
                        ext = fb.shapes[base.id]
                        if kept is not None:
                            ext = [ext[i] for i in kept]
                        for ax in range(p["rank"]):
                            if ax < len(ext):
                                sub["%s.shape[%d]" % (p["name"], ax)] = ext[ax]
                    else:
                        okmap = False
                elif p["type"] and "int" in p["type"]:
                    try:
                        sub[p["name"]] = fb.ev(a, loops)
                    except Unknown:
                        okmap = False
            if not okmap:
                ctx.undecided(rule, site, "cannot map arguments of helper call %s" % ast.unparse(call)[:60])
                continue
            for desc, form, hloops, kind in hb.obligations:
                n += 1
                if form is None:
                    ctx.undecided(rule, site, "helper %s index %s: %s" % (t, desc, kind))
                    continue
                f = hb.eliminate(form, hloops)
                for s, repl in sub.items():
                    f = f.subst(s, repl)
                ok, red = fb.holds_le0(f, loops, fb.fptr_facts.get(t))
                ctx.check(ok, rule, site, "index in bounds in helper %s as called here: %s  [residual %s <= 0]" % (t, desc, red), "bounds:%s:%s" % (t, desc))
            n += _check_nested_calls(hb, fb, fns, sub, loops, ctx, rule, site, resolve)
    return n


def _check_nested_calls(hb, fb, fns, sub, loops, ctx, rule, site, resolve):
    # helpers calling helpers (normalization_*_vec -> normalization_*): slices keep extents; indices are own loops
    n = 0
    for call, hloops in hb.calls:
        nm = call.func.id
        if nm in hb.mod.functions and fns[nm].kfn.info["kind"] == "cdef":
            h2 = fns[nm]
            sub2 = {}
            for p, a in zip(h2.kfn.info["params"], call.args):
                if p["type"] and "[" in p["type"]:
                    base, kept = a, None
                    if isinstance(a, ast.Subscript) and isinstance(a.value, ast.Name):
                        base = a.value
                        kept = [i for i, e in enumerate(PR.index_elts(a)) if isinstance(e, ast.Slice)]
                    if isinstance(base, ast.Name) and base.id in hb.shapes:
                        ext = hb.shapes[base.id]
                        if kept is not None:
                            ext = [ext[i] for i in kept]
                        for ax in range(min(p["rank"], len(ext))):
                            e = ext[ax]
                            for s, repl in sub.items():
                                e = e.subst(s, repl)
                            sub2["%s.shape[%d]" % (p["name"], ax)] = e
            for desc, form, h2loops, kind in h2.obligations:
                n += 1
                if form is None:
                    ctx.undecided(rule, site, "helper %s index %s: %s" % (nm, desc, kind))
                    continue
                f = h2.eliminate(form, h2loops)
                for s, repl in sub2.items():
                    f = f.subst(s, repl)
                ok, red = fb.holds_le0(f, loops)
                ctx.check(ok, rule, site, "index in bounds in nested helper %s: %s  [residual %s <= 0]" % (nm, desc, red), "bounds:%s:%s" % (nm, desc))
    return n
