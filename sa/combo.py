"""Metamorphic cross-test: every seeded change, applied TOGETHER with a behaviour-preserving refactoring of the same file, must still be
reported by the checks that catch it alone (the normal form must never absorb a behavioural change).

python3 -m sa.combo [max benign per seed]    -> prints misses; exit 1 if any
"""
import json
import multiprocessing as mp
import os
import sys

from . import core, udiff
from .loader import AnalysisError, Program

REPO = os.environ.get("VERIF_REPO", "/repo")


def _files(patch):
    return set(udiff.parse(open(patch).read()))


def _apply2(p1, p2):
    ov = {}
    for patch in (p1, p2):
        files = udiff.parse(open(patch).read())
        for rel, hunks in files.items():
            if rel in ov:
                text = ov[rel]
            else:
                with open(os.path.join(REPO, "src", "gstools", rel), encoding="utf-8") as fh:
                    text = fh.read()
            ov[rel] = udiff.apply(text, hunks)
    return ov


def _job(a):
    seed, benign, prop, base = a
    from .check import run_rules
    from .selftest import _keys

    sp = os.path.join(core.VERIF, "seeded", seed, "patch.diff")
    bp = os.path.join(core.VERIF, "benign", benign)
    try:
        ov = _apply2(bp, sp)
    except (udiff.PatchError, OSError):
        try:
            ov = _apply2(sp, bp)
        except (udiff.PatchError, OSError):
            return seed, benign, prop, "skip", "patches overlap"
    try:
        prog = Program(REPO, overrides=ov)
        ctx, _ = run_rules(prop, prog, "quick")
    except AnalysisError as e:
        return seed, benign, prop, "error", str(e)[:120]
    except Exception as e:  # pragma: no cover
        return seed, benign, prop, "error", "%s: %s" % (type(e).__name__, str(e)[:120])
    new = _keys(ctx) - set(base[prop])
    return seed, benign, prop, ("caught" if new else "MISSED"), (sorted(new)[0][:120] if new else "")


def _base(prop):
    from .check import run_rules
    from .selftest import _keys

    ctx, _ = run_rules(prop, Program(REPO), "quick")
    return prop, sorted(_keys(ctx))


def main():
    per_seed = int(sys.argv[1]) if len(sys.argv) > 1 else 6
    sd = os.path.join(core.VERIF, "seeded")
    bd = os.path.join(core.VERIF, "benign")
    benign = {b: _files(os.path.join(bd, b)) for b in sorted(os.listdir(bd)) if b.endswith(".diff")}
    jobs = []
    props = set()
    for seed in sorted(os.listdir(sd)):
        mpth = os.path.join(sd, seed, "meta.json")
        if not os.path.exists(mpth):
            continue
        meta = json.load(open(mpth))
        sf = _files(os.path.join(sd, seed, "patch.diff"))
        same = [b for b, f in benign.items() if f & sf][:per_seed]
        for b in same:
            for p in meta.get("caught_by", []):
                jobs.append((seed, b, p))
                props.add(p)
    with mp.get_context("fork").Pool(16) as pool:
        base = dict(pool.map(_base, sorted(props)))
        res = pool.map(_job, [(s, b, p, base) for s, b, p in jobs], chunksize=1)
    cnt = {}
    for r in res:
        cnt[r[3]] = cnt.get(r[3], 0) + 1
    for r in res:
        if r[3] in ("MISSED", "error"):
            print("%-7s seed=%s benign=%s prop=%s %s" % (r[3], r[0], r[1], r[2], r[4]))
    print("combinations: %s" % cnt)
    return 1 if cnt.get("MISSED") else 0


if __name__ == "__main__":
    sys.exit(main())
