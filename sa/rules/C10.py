"""C10 Variogram fitting honours constraints: pack/unpack order, bound sources, closure writes vs post-processing, sill paths."""
import ast
import itertools

from .. import ordtype as O
from ..loader import AnalysisError, norm_stmt
from ..small import arms, exclusive, find_ifs, ifexp_arms

FIT = "covmodel/fit.py"


def _default_para(prog):
    v = prog.mod(FIT).assigns.get("DEFAULT_PARA")
    if not isinstance(v, ast.List):
        raise AnalysisError("anchor vanished: DEFAULT_PARA")
    return [e.value for e in v.elts]


def _guards(fn, node):
    out = []
    for e, pol in O.path_condition(fn, node):
        t = ast.unparse(e).replace('"', "'")
        out.append(t if pol else "not (%s)" % t)
    loops = [n for n in ast.walk(fn) if isinstance(n, ast.For) and any(x is node for x in ast.walk(n)) and n is not node]
    for lp in loops:
        out.append("for %s in %s" % (ast.unparse(lp.target), ast.unparse(lp.iter)))
    return out


def pack_unpack(ctx, rule="R10.1"):
    prog = ctx.prog
    DP = _default_para(prog)
    ctx.check(DP == ["var", "len_scale", "nugget"], rule, FIT + "::DEFAULT_PARA", "slot order of the standard parameters: %s" % DP, "default-para")
    pack = prog.func(FIT, "_init_curve_fit_para")
    blocks = []
    for st in pack.body:
        if isinstance(st, ast.For):
            blocks.append((ast.unparse(st.iter), st))
        elif isinstance(st, ast.If) and any(isinstance(x, ast.For) for x in st.body):
            lp = [x for x in st.body if isinstance(x, ast.For)][0]
            blocks.append((ast.unparse(st.test) + ":" + ast.unparse(lp.iter), lp))
    seq = [b[0] for b in blocks]
    ctx.check(seq == ["DEFAULT_PARA", "model.opt_arg", "anis:range(model.dim - 1)"], rule, FIT + "::_init_curve_fit_para",
              "parameter vector layout: selected standard parameters, then selected optional arguments (model.opt_arg order), then dim-1 anisotropy ratios: %s" % seq, "pack-seq")
    for name, lp in blocks:
        apps = {}
        for n in ast.walk(lp):
            if isinstance(n, ast.Call) and isinstance(n.func, ast.Attribute) and n.func.attr == "append" and isinstance(n.func.value, ast.Name):
                apps[n.func.value.id] = apps.get(n.func.value.id, 0) + 1
        lows = [n for n in ast.walk(lp) if isinstance(n, ast.Call) and ast.unparse(n.func) == "low_bounds.append"]
        ok = set(apps) == {"low_bounds", "top_bounds", "init_guess_list"} and len(lows) == 1 and apps["init_guess_list"] == 1 and apps["top_bounds"] in (1, 2)
        ctx.check(ok, rule, FIT + "::_init_curve_fit_para", "block `%s` adds exactly one lower bound, one upper bound and one start value per slot" % name, "one-per-slot:" + name)
        if not name.startswith("anis"):
            g = [s for s in lp.body if isinstance(s, ast.If)]
            v = ast.unparse(lp.target)
            ctx.check(len(g) == 1 and ast.unparse(g[0].test) == "para[%s]" % v and len(lp.body) == 1, rule, FIT + "::_init_curve_fit_para", "block `%s` adds a slot iff the parameter is selected" % name, "selected:" + name)
    # ---- unpack in the residual closure
    gc = prog.func(FIT, "_get_curve")
    curve = [n for n in ast.walk(gc) if isinstance(n, ast.FunctionDef) and n.name == "curve"]
    if len(curve) != 1:
        raise AnalysisError("anchor vanished: curve closure")
    curve = curve[0]
    order = []
    for st in curve.body:
        if isinstance(st, ast.If) and isinstance(st.test, ast.Subscript) and ast.unparse(st.test.value) == "para" and isinstance(st.test.slice, ast.Constant):
            reads = [ast.unparse(n) for n in ast.walk(st) if isinstance(n, ast.Subscript) and ast.unparse(n.value) == "args"]
            incs = [norm_stmt(n) for n in ast.walk(st) if isinstance(n, ast.AugAssign)]
            if reads:
                order.append((st.test.slice.value, reads, incs))
    ctx.check([o[0] for o in order] == DP, rule, FIT + "::curve", "the residual function consumes the standard slots in DEFAULT_PARA order: %s" % [o[0] for o in order], "unpack-order")
    an = [n for n in ast.walk(curve) if isinstance(n, ast.Assign) and ast.unparse(n.targets[0]) == "model.anis"]
    ok = len(an) == 1 and ast.unparse(an[0].value) == "args[1 - model.dim:]" and _guards(curve, an[0]) == ["is_dir_vario", "anis"]
    ctx.check(ok, rule, FIT + "::curve", "the anisotropy ratios are the last dim-1 entries of the vector", "unpack-anis")
    first = [norm_stmt(s) for s in curve.body[:4]]
    ctx.check("args = (arg1,) + args" in first, rule, FIT + "::curve", "the explicit first positional is put back in front of the vector", "arg1")
    # ---- unpack in post-processing
    post = prog.func(FIT, "_post_fitting")
    l1 = [s for s in post.body if isinstance(s, ast.For) and ast.unparse(s.iter) == "DEFAULT_PARA"]
    l2 = [s for s in post.body if isinstance(s, ast.For) and ast.unparse(s.iter) == "model.opt_arg"]
    ok = len(l1) == 1 and len(l2) == 1 and post.body.index(l1[0]) < post.body.index(l2[0])
    ctx.check(ok, rule, FIT + "::_post_fitting", "the optimum is unpacked in two loops: standard parameters, then optional arguments", "post-loops")
    slot_agreement(ctx, rule, pack, curve, post, DP)
    an = [n for n in ast.walk(post) if isinstance(n, ast.Assign) and ast.unparse(n.targets[0]) == "model.anis"]
    ok = len(an) == 1 and ast.unparse(an[0].value) == "popt[1 - model.dim:]" and _guards(post, an[0]) == ["is_dir_vario", "anis"]
    ctx.check(ok, rule, FIT + "::_post_fitting", "anisotropy ratios are read from the tail of the optimum under the same guards", "post-anis")


def slot_agreement(ctx, rule, pack, curve, post, DP):
    """Semantic layout check with the cursor interpreter: for every selection of fitted parameters (3 standard + 2 optional arguments:
    32 selections, with and without anisotropy) the slot each parameter gets when the vector is PACKED equals the slot it is read from in
    the residual function and in the post-processing - however the cursor arithmetic is written."""
    from ..cursor import CursorError, slot_map

    opts = ["opt_a", "opt_b"]
    lists = {"DEFAULT_PARA": DP, "model.opt_arg": opts}
    dim = 3
    n = 0
    bad = []
    for bits in itertools.product([True, False], repeat=len(DP) + len(opts)):
        sel = dict(zip(DP + opts, bits))
        for anis in (True, False):
            consts = {"model.dim": dim, "anis": anis, "is_dir_vario": anis}
            try:
                p_ = slot_map(pack.body, sel, lists, consts, vectors=(), pack_lists=("init_guess_list",))
                c_ = slot_map(curve.body, sel, lists, consts, vectors=("args",))
                q_ = slot_map(post.body, sel, lists, consts, vectors=("popt",))
            except CursorError as e:
                ctx.undecided(rule, FIT + "::_init_curve_fit_para/curve/_post_fitting", "cursor interpretation stopped: %s" % e)
                return
            n += 1
            want = {k: i for i, k in enumerate([k for k in DP + opts if sel[k]])}
            nsel = len(want)
            pk = {k: v for k, v in p_.items() if k != "<tail>"}
            ck = {k: v for k, v in c_.items() if k != "<tail>"}
            qk = {k: v for k, v in q_.items() if k != "<tail>"}
            if not (pk == ck == qk == want):
                bad.append("selection %s: packed %s, residual function reads %s, post-processing reads %s" % ({k: v for k, v in sel.items() if v}, pk, ck, qk))
            if anis:
                if not (p_.get("<tail>") == list(range(nsel, nsel + dim - 1)) and c_.get("<tail>") == 1 - dim and q_.get("<tail>") == 1 - dim):
                    bad.append("anisotropy tail: packed at %s, read from %s / %s (expected the last %d entries)" % (p_.get("<tail>"), c_.get("<tail>"), q_.get("<tail>"), dim - 1))
            elif "<tail>" in p_ or "<tail>" in c_ or "<tail>" in q_:
                bad.append("anisotropy slots used although anis is not fitted")
    ctx.check(not bad, rule, FIT + "::_init_curve_fit_para/curve/_post_fitting",
              "for all %d selections the slot of every fitted parameter agrees between packing, residual function and post-processing%s" % (n, "" if not bad else ": " + bad[0]), "slot-agreement")
    ctx.floor(rule, "selections interpreted", n, 64)


def bound_sources(ctx, rule="R10.2"):
    prog = ctx.prog
    pack = prog.func(FIT, "_init_curve_fit_para")
    from ..small import resolved_values

    def res(e):
        return [ast.unparse(v) for v in resolved_values(pack, e)]

    def guards_of_value(call, vtxt):
        """guards under which `call` appends the value vtxt: guards of the call plus, when the value comes through a local, those of its assignment"""
        g = list(_guards(pack, call))
        a0 = call.args[0]
        if isinstance(a0, ast.Name):
            for n in ast.walk(pack):
                if isinstance(n, ast.Assign) and len(n.targets) == 1 and isinstance(n.targets[0], ast.Name) and vtxt in [ast.unparse(v) for v in resolved_values(pack, n.value)] and ast.unparse(n.value) == vtxt:
                    g += list(_guards(pack, n))
        return g

    low_calls = [n for n in ast.walk(pack) if isinstance(n, ast.Call) and ast.unparse(n.func) == "low_bounds.append"]
    top_calls = [n for n in ast.walk(pack) if isinstance(n, ast.Call) and ast.unparse(n.func) == "top_bounds.append"]
    lows = sorted({t for n in low_calls for t in res(n.args[0])})
    tops = [(t, guards_of_value(n, t)) for n in top_calls for t in sorted(set(res(n.args[0])))]
    ctx.check(sorted(set(lows)) == sorted(["model.arg_bounds[par][0]", "model.arg_bounds[opt][0]", "model.anis_bounds[0]"]), rule, FIT + "::_init_curve_fit_para", "lower bounds come from element [0] of the parameter's bounds: %s" % lows, "low")
    top_txt = sorted({t for t, g in tops})
    ctx.check(top_txt == sorted(["sill", "model.arg_bounds[par][1]", "model.arg_bounds[opt][1]", "model.anis_bounds[1]"]), rule, FIT + "::_init_curve_fit_para", "upper bounds come from element [1] (or the sill for the variance under a constrained sill): %s" % top_txt, "top")
    sg = [g for t, g in tops if t == "sill"]
    ok = len(sg) >= 1 and all(any("par == 'var' and constrain_sill" in x for x in g) for g in sg)
    ctx.check(ok, rule, FIT + "::_init_curve_fit_para", "the sill caps the variance only when the sill is constrained", "sill-cap")
    igs = [n for n in ast.walk(pack) if isinstance(n, ast.Call) and getattr(n.func, "id", "") == "_init_guess"]
    def own_slot(c):
        """bounds=[lo, hi] of this start value are the bounds just appended for the same slot"""
        b = {k.arg: k.value for k in c.keywords}.get("bounds")
        if b is None or not isinstance(b, ast.List) or len(b.elts) != 2:
            return False
        if ast.unparse(b) == "[low_bounds[-1], top_bounds[-1]]":
            return True
        # spelled through locals: the same names must be what the two appends of this block received
        blk = None
        for n in ast.walk(pack):
            for f_ in ("body", "orelse"):
                bb = getattr(n, f_, None)
                if isinstance(bb, list) and any(any(x is c for x in ast.walk(s_)) for s_ in bb):
                    blk = bb
        if blk is None:
            return False
        app = {ast.unparse(x.func): ast.unparse(x.args[0]) for s_ in blk for x in ast.walk(s_) if isinstance(x, ast.Call) and ast.unparse(x.func) in ("low_bounds.append", "top_bounds.append") and x.args}
        return app.get("low_bounds.append") == ast.unparse(b.elts[0]) and app.get("top_bounds.append") == ast.unparse(b.elts[1])

    ok = len(igs) >= 1 and all(own_slot(c) for c in igs)
    dflt = sorted({t for c in igs for t in res({k.arg: k.value for k in c.keywords}.get("default"))})
    ctx.check(ok and dflt == sorted(["init_guess[par]", "init_guess[opt]", "init_guess['anis'][i]"]), rule, FIT + "::_init_curve_fit_para", "every start value is checked against the bounds of its own slot", "guess-bounds")
    ig = prog.func(FIT, "_init_guess")
    ifs = [s for s in ig.body if isinstance(s, ast.If)]
    tab = None
    if len(ifs) == 1:
        try:
            tab = O.truth_table([(ifs[0].test, True)], "default", ["bounds[0]", "bounds[1]"])
        except O.NotOrd:
            tab = None
    rets = [ast.unparse(s.value) for s in ast.walk(ig) if isinstance(s, ast.Return)]
    ctx.check(tab == "FFTFF" and sorted(rets) == sorted(["default", "default_arg_from_bounds(bounds)"]), rule, FIT + "::_init_guess",
              "a start value is kept only if strictly inside its bounds (table %s), otherwise replaced by a value derived from the bounds" % tab, "interior")
    ret = [ast.unparse(s.value) for s in pack.body if isinstance(s, ast.Return)]
    ctx.check(ret == ["((low_bounds, top_bounds), init_guess_list)"], rule, FIT + "::_init_curve_fit_para", "returns ((lower, upper), start values)", "return")
    fv = prog.func(FIT, "fit_variogram")
    kw = {}
    for s in fv.body:
        if isinstance(s, ast.Assign) and isinstance(s.targets[0], ast.Subscript) and ast.unparse(s.targets[0].value) == "curve_fit_kwargs":
            kw[s.targets[0].slice.value] = ast.unparse(s.value)
    ok = kw.get("bounds") == "bounds" and kw.get("p0") == "init_guess_list" and kw.get("xdata") == "x_data" and kw.get("ydata") == "y_data"
    ctx.check(ok, rule, FIT + "::fit_variogram", "curve_fit receives these bounds and start values", "curve-fit-args")


def closure_vs_post(ctx, rule="R10.3"):
    prog = ctx.prog
    DP = _default_para(prog)
    gc = prog.func(FIT, "_get_curve")
    curve = [n for n in ast.walk(gc) if isinstance(n, ast.FunctionDef) and n.name == "curve"][0]
    post = prog.func(FIT, "_post_fitting")

    def writes(fn):
        out = []
        for n in ast.walk(fn):
            if isinstance(n, ast.Assign) and isinstance(n.targets[0], ast.Attribute) and ast.unparse(n.targets[0].value) == "model":
                out.append((n.targets[0].attr, frozenset(g for g in _guards(fn, n) if not g.startswith("for ")), n))
            elif isinstance(n, ast.Expr) and isinstance(n.value, ast.Call) and getattr(n.value.func, "id", "") == "setattr" and ast.unparse(n.value.args[0]) == "model":
                key = ast.unparse(n.value.args[1])
                gs = frozenset(g for g in _guards(fn, n) if not g.startswith("for "))
                if key == "par":
                    # loop over DEFAULT_PARA, `var` excluded by the enclosing test
                    excl = {"var"} if any("par == 'var'" in g for g in gs) else set()
                    for p in DP:
                        if p not in excl:
                            out.append((p, frozenset(g.replace("para[par]", "para['%s']" % p) for g in gs if "par == " not in g), n))
                else:
                    out.append(("OPT[*]", gs, n))
        return out

    cw, pw = writes(curve), writes(post)
    n = 0
    for attr, g, node in cw:
        n += 1
        cands = [(a2, g2) for a2, g2, n2 in pw if a2 == attr]
        ok = any(g2 <= g for a2, g2 in cands)
        ctx.check(ok, rule, FIT + "::curve/_post_fitting",
                  "the residual function sets model.%s under {%s}; the post-processing re-establishes it from the optimum (or restores it) under an implied condition: %s" % (attr, ", ".join(sorted(g)) or "always", [sorted(g2) for a2, g2 in cands]),
                  "closure-write:%s:%s" % (attr, ",".join(sorted(g))))
    ctx.floor(rule, "model attributes written by the residual function", n, 6)
    # values: nugget under the sill is sill - var ; var restore uses the saved variance
    def val(fn, attr, guard_sub):
        for a2, g2, n2 in writes(fn):
            if a2 == attr and any(guard_sub in x for x in g2) and isinstance(n2, ast.Assign):
                return ast.unparse(n2.value)
        return None

    ctx.check(val(curve, "nugget", "constrain_sill") in ("nugget_tmp",) and any(norm_stmt(s) == "nugget_tmp = sill - var_tmp" for s in ast.walk(curve) if isinstance(s, ast.Assign)), rule, FIT + "::curve", "under a constrained sill the residual function uses nugget = sill - var", "curve-sill")
    ctx.check(val(post, "nugget", "constrain_sill") == "sill - var_tmp", rule, FIT + "::_post_fitting", "under a constrained sill the final nugget is sill - (optimal variance)", "post-sill")
    ctx.check(val(post, "var", "not (para['var'])") == "var_save" and val(curve, "var", "not (para['var'])") == "var_save", rule, FIT, "a variance that is not fitted is restored to its saved value after the other parameters changed (TPL models rescale it)", "var-restore")
    vs_c = [n for n in gc.body if isinstance(n, ast.Assign) and ast.unparse(n.targets[0]) == "var_save"]
    fv = prog.func(FIT, "fit_variogram")
    vs_f = [n for n in fv.body if isinstance(n, ast.Assign) and ast.unparse(n.targets[0]) == "var_save"]
    pre = [n for n in fv.body if isinstance(n, ast.Assign) and "_pre_para(" in ast.unparse(n.value)]
    ok = len(vs_c) == 1 and ast.unparse(vs_c[0].value) == "model.var" and len(vs_f) == 1 and ast.unparse(vs_f[0].value) == "model.var" and pre and vs_f[0]._ord > pre[0]._ord
    ctx.check(ok, rule, FIT + "::fit_variogram", "the saved variance is taken after fixed values were applied and before fitting starts", "var-save")
    # the variance is (re)written on EVERY evaluation / post-processing path: its raw value depends on len_scale and the
    # optional arguments (var_factor), which the optimiser moves even when the variance itself is not fitted
    import itertools

    for fn, nm in ((curve, "curve"), (post, "_post_fitting")):
        vguards = [g for a2, g, n2 in writes(fn) if a2 == "var"]
        atoms = sorted({x[5:-1] if x.startswith("not (") else x for g in vguards for x in g})
        uncovered = []
        for bits in itertools.product([True, False], repeat=len(atoms)):
            val = dict(zip(atoms, bits))
            sat = any(all((not val[x[5:-1]]) if x.startswith("not (") else val[x] for x in g) for g in vguards)
            if not sat:
                uncovered.append({a: v for a, v in val.items()})
        ctx.check(bool(vguards) and not uncovered, rule, FIT + "::" + nm,
                  "model.var is written on every path (guards %s cover all cases)%s" % ([sorted(g) for g in vguards], "" if not uncovered else "; NOT covered: %s" % uncovered[:2]), "var-coverage:" + nm)
    # var is set after every other parameter (var_factor)
    for fn, nm in ((curve, "curve"), (post, "_post_fitting")):
        vw = [n2 for a2, g2, n2 in writes(fn) if a2 == "var"]
        ow = [n2 for a2, g2, n2 in writes(fn) if a2 not in ("var",) and not (a2 == "anis")]
        late = all(v._ord > o._ord for v in vw for o in ow if not exclusive(fn, v, o))
        ctx.check(bool(vw) and bool(ow) and late, rule, FIT + "::" + nm, "the variance is written after len_scale, nugget and the optional arguments (its raw value depends on them through var_factor)", "var-last:" + nm)


def result_dict(ctx, rule="R10.4"):
    prog = ctx.prog
    post = prog.func(FIT, "_post_fitting")
    # explicit stores in the tail and the dictionary entries that must agree with them
    tail = [n for n in ast.walk(post) if isinstance(n, ast.Assign) and isinstance(n.targets[0], ast.Attribute) and ast.unparse(n.targets[0].value) == "model"]
    for st in tail:
        attr = st.targets[0].attr
        v = ast.unparse(st.value)
        later = [n for n in ast.walk(post) if isinstance(n, ast.Assign) and ast.unparse(n.targets[0]) == "fit_para['%s']" % attr and n._ord > st._ord and ast.unparse(n.value) == "model.%s" % attr and set(_guards(post, n)) <= set(_guards(post, st))]
        same_slot = False
        if isinstance(st.value, ast.Name):
            src = [n for n in ast.walk(post) if isinstance(n, ast.Assign) and ast.unparse(n.targets[0]) == st.value.id and ast.unparse(n.value).startswith("popt[")]
            dsrc = [n for n in ast.walk(post) if isinstance(n, ast.Assign) and ast.unparse(n.targets[0]) == "fit_para[par]" and src and ast.unparse(n.value) == ast.unparse(src[0].value)]
            same_slot = bool(src) and bool(dsrc)
        ctx.check(bool(later) or same_slot, rule, FIT + "::_post_fitting",
                  "the dictionary entry for `%s` is the value just written to the model (`model.%s = %s`): %s" % (attr, attr, v, "re-read after the store" if later else "same optimum slot"), "dict:%s:%s" % (attr, v))
    ret = [ast.unparse(s.value) for s in post.body if isinstance(s, ast.Return)]
    ctx.check(ret == ["fit_para"], rule, FIT + "::_post_fitting", "returns the dictionary", "return")
    fv = prog.func(FIT, "fit_variogram")
    pf = [n for n in ast.walk(fv) if isinstance(n, ast.Call) and getattr(n.func, "id", "") == "_post_fitting"]
    ok = len(pf) == 1 and [ast.unparse(a) for a in pf[0].args] == ["model", "para", "popt", "anis", "is_dir_vario", "constrain_sill", "sill", "var_save"]
    ctx.check(ok, rule, FIT + "::fit_variogram", "post-processing receives the optimum and the same selection / sill settings as the residual function", "post-args")
    gcall = [n for n in ast.walk(fv) if isinstance(n, ast.Call) and getattr(n.func, "id", "") == "_get_curve"]
    pcall = [n for n in ast.walk(fv) if isinstance(n, ast.Call) and getattr(n.func, "id", "") == "_init_curve_fit_para"]
    ok = len(gcall) == 1 and [ast.unparse(a) for a in gcall[0].args] == ["model", "para", "constrain_sill", "sill", "anis", "is_dir_vario"] and len(pcall) == 1 and [ast.unparse(a) for a in pcall[0].args] == ["model", "para", "init_guess", "constrain_sill", "sill", "anis"]
    ctx.check(ok, rule, FIT + "::fit_variogram", "packer and residual function receive the same selection, sill and anis settings", "same-settings")
    am = [n for n in fv.body if isinstance(n, ast.AugAssign) and ast.unparse(n.target) == "anis"]
    ok = len(am) == 1 and norm_stmt(am[0]) == "anis &= is_dir_vario" and am[0]._ord < pcall[0]._ord
    ctx.check(ok, rule, FIT + "::fit_variogram", "anisotropy is only fitted for directional variograms (decided before the vector layout is fixed)", "anis-flag")


def pre_para(ctx, rule="R10.5"):
    prog = ctx.prog
    pp = prog.func(FIT, "_pre_para")
    loop = [s for s in pp.body if isinstance(s, ast.For) and ast.unparse(s.iter) == "para_select"]
    ok = len(loop) == 1
    if ok:
        inner = [s for s in loop[0].body if isinstance(s, ast.If) and ast.unparse(s.test) == "not isinstance(para_select[par], bool)"]
        ok = len(inner) == 1 and norm_stmt(inner[0].body[-1]) == "para_select[par] = False"
        t = " ".join(norm_stmt(x) for x in inner[0].body) if inner else ""
        ok = ok and "setattr(model, par, float(para_select[par]))" in t and "var_last = True" in t and "var_tmp = float(para_select[par])" in t
    ctx.check(ok, rule, FIT + "::_pre_para", "a non-boolean selection value is written to the model and the parameter is deselected; the variance is deferred", "fixed-values")
    vl = [s for s in pp.body if isinstance(s, ast.If) and ast.unparse(s.test) == "var_last"]
    ok = len(vl) == 1 and [norm_stmt(x) for x in vl[0].body] == ["model.var = var_tmp"] and loop and pp.body.index(vl[0]) > pp.body.index(loop[0])
    ctx.check(ok, rule, FIT + "::_pre_para", "a fixed variance is applied after all other fixed values", "var-last")
    unk = any(isinstance(s, ast.If) and ast.unparse(s.test) == "par not in model.arg_bounds" and any(isinstance(x, ast.Raise) for x in s.body) for s in ast.walk(pp))
    ctx.check(unk, rule, FIT + "::_pre_para", "unknown parameter names raise", "unknown")
    sb = find_ifs(pp.body, "sill is not None")
    if len(sb) != 1:
        raise AnalysisError("anchor vanished: sill block in _pre_para")
    sill_arm, nosill_arm = sb[0][1], sb[0][2]
    chain = [s for s in sill_arm if isinstance(s, ast.If) and "para_select" in ast.unparse(s.test)]
    branches = []
    node = chain[0] if chain else None
    while node is not None:
        branches.append((ast.unparse(node.test), node.body))
        if node.orelse and len(node.orelse) == 1 and isinstance(node.orelse[0], ast.If):
            node = node.orelse[0]
        else:
            if node.orelse:
                branches.append(("else", node.orelse))
            node = None
    want = {
        "'var' in para_select and 'nugget' in para_select": ("both fixed: one of them is recomputed so that var + nugget = sill", ["model.nugget = sill - model.var", "model.var = sill - model.nugget"]),
        "'var' in para_select": ("variance fixed: nugget = sill - var, nugget deselected", ["model.nugget = sill - model.var", "para_select['nugget'] = False"]),
        "'nugget' in para_select": ("nugget fixed: var = sill - nugget, variance deselected", ["model.var = sill - model.nugget", "para_select['var'] = False"]),
        "else": ("both fitted: nugget deselected, the residual function maintains nugget = sill - var", ["para_select['nugget'] = False"]),
    }
    ctx.check([b[0] for b in branches] == list(want), rule, FIT + "::_pre_para", "sill handling distinguishes the four selection cases: %s" % [b[0] for b in branches], "sill-cases")
    for test, body in branches:
        if test not in want:
            continue
        txt = [norm_stmt(x) for st in body for x in ast.walk(st) if isinstance(x, ast.Assign)]
        desc, need = want[test]
        ctx.check(all(x in txt for x in need), rule, FIT + "::_pre_para", "case `%s`: %s" % (test, desc), "sill:" + test)
    rng = any(isinstance(s, ast.If) and ast.unparse(s.test) == "not sill_low <= sill <= sill_up" and any(isinstance(x, ast.Raise) for x in s.body) for s in sill_arm)
    ctx.check(rng, rule, FIT + "::_pre_para", "a sill outside [var_min + nugget_min, var_max + nugget_max] raises", "sill-range")
    a = {ast.unparse(s.targets[0]): ast.unparse(s.value) for s in sill_arm if isinstance(s, ast.Assign)}
    ctx.check(a.get("sill") == "model.sill if isinstance(sill, bool) else float(sill)" and a.get("constrain_sill") == "True", rule, FIT + "::_pre_para", "sill=False keeps the model's present sill; a number prescribes it", "sill-value")
    ret = [ast.unparse(s.value) for s in pp.body if isinstance(s, ast.Return)]
    ctx.check(ret == ["(para, sill, constrain_sill, anis)"], rule, FIT + "::_pre_para", "returns (selection, sill, constrain flag, anis flag)", "return")
    an = [s for s in pp.body if isinstance(s, ast.If) and ast.unparse(s.test) == "not isinstance(anis, bool)"]
    ctx.check(len(an) == 1 and [norm_stmt(x) for x in an[0].body] == ["model.anis = anis", "anis = False"], rule, FIT + "::_pre_para", "given anisotropy ratios are written to the model and not fitted", "anis-fixed")


def same_name_forwarding(ctx, rule, rel, exceptions=(), floor=10):
    """In-module helper calls hand over the caller's value of the same name: where the callee declares a parameter `p` and the caller has
    a parameter / local `p` of its own, the argument bound to `p` is `p` (rule inferred from 237 of 253 such sites in the package, all
    16 deviations pass a derived expression; the instances of `rel` are confirmed and any exception is listed by (caller, callee, p))."""
    prog = ctx.prog
    mod = prog.mod(rel)
    n = 0
    for q, fn in sorted(mod.functions.items()):
        names = {x.id for x in ast.walk(fn) if isinstance(x, ast.Name)} | {a.arg for a in fn.args.posonlyargs + fn.args.args + fn.args.kwonlyargs}
        for c in ast.walk(fn):
            if not (isinstance(c, ast.Call) and isinstance(c.func, ast.Name) and c.func.id in mod.functions and c.func.id != q.split(".")[-1]):
                continue
            cal = mod.functions[c.func.id]
            bound = {}
            for p_, a_ in zip([a.arg for a in cal.args.posonlyargs + cal.args.args], c.args):
                if isinstance(a_, ast.Starred):
                    break
                bound[p_] = a_
            for k in c.keywords:
                if k.arg:
                    bound[k.arg] = k.value
            for p_, a_ in sorted(bound.items()):
                if p_ not in names or (q, c.func.id, p_) in exceptions:
                    continue
                n += 1
                ctx.check(ast.unparse(a_) == p_, rule, "%s::%s" % (rel, q), "%s(%s=...) receives the caller's own `%s` (got `%s`)" % (c.func.id, p_, p_, ast.unparse(a_)[:50]),
                          "forward:%s:%s" % (c.func.id, p_))
    ctx.floor(rule, "same-name forwarding sites in %s" % rel, n, floor)


def run(ctx):
    same_name_forwarding(ctx, "R10.7", "covmodel/fit.py", floor=30)  # the flags that fix the slot layout (anis, is_dir_vario, sill, ...) reach every helper unchanged
    from .C13 import single_conversion

    single_conversion(ctx, rule="R10.6")
    pack_unpack(ctx)
    bound_sources(ctx)
    closure_vs_post(ctx)
    result_dict(ctx)
    pre_para(ctx)
    return (
        "Decides the structural clauses of C10: (R10.1) the parameter vector is packed (bounds / start values) and unpacked (residual function, post-processing) with one layout; (R10.2) lower/upper bounds come from the "
        "parameters' own bounds (sill caps the variance), start values are kept only strictly inside their bounds (order-type table); (R10.3) every model attribute the residual function sets during optimisation is "
        "re-established from the optimum or restored by the post-processing under an implied condition, the variance last; (R10.4) dictionary entries equal what was just written to the model; (R10.5) fixed values, "
        "variance-last and the four sill cases of the preprocessing. NOT decided: that the optimiser recovers parameters (r2 -> 1) or keeps values inside bounds."
    )
