"""C04 Spectral representation: dimensional homogeneity, offer <=> implementation, composition."""
import ast

from .. import units as U
from ..loader import AnalysisError, norm_stmt
from ..small import FoldError, fold

BASE = "covmodel/base.py"
TOOLS = "covmodel/tools.py"
MODELS = "covmodel/models.py"
TPL = "covmodel/tpl_models.py"
SPECIAL = "tools/special.py"
GEN = "field/generator.py"

SEEDS = {
    "self.len_scale": U.LEN, "self._len_scale": U.LEN, "self.len_rescaled": U.LEN, "self.len_low": U.LEN, "self.len_up": U.LEN, "self.len_low_rescaled": U.LEN,
    "self.len_up_rescaled": U.LEN, "self.integral_scale": U.LEN, "model.len_rescaled": U.LEN,
    "self.var": U.VAR, "self.nugget": U.VAR, "self.sill": U.VAR,
    "self.rescale": U.ONE, "self._rescale": U.ONE, "self.anis": U.ONE,
    "self.model.var": U.VAR, "self.model.nugget": U.VAR, "self.model.len_rescaled": U.LEN, "self._mode_no": U.ONE, "self.mean_u": U.ONE,
}
SYMBOLS = {"self.dim": "dim", "self.nu": "nu", "self.alpha": "alpha", "self.hurst": "hurst", "dim": "dim", "hurst": "hurst", "alpha": "alpha", "model.dim": "dim", "self.model.dim": "dim"}
CONTRACTS = {
    # callee text: ([argument units], result unit)
    "self.cor": ([U.ONE], U.ONE),
    "self.correlation": ([U.LEN], U.ONE),
    "self.covariance": ([U.LEN], U.VAR),
    "self.variogram": ([U.LEN], U.VAR),
    "self.spectral_density": ([U.INVLEN], U.Ldim()),
    "model.spectral_density": ([U.INVLEN], U.Ldim()),
    "self.spectral_rad_pdf": ([U.INVLEN], U.LEN),
    "spectral_rad_pdf": ([None, U.INVLEN], U.LEN),
    "rad_fac": ([None, U.INVLEN], U.Ldim(-1, 1)),
    "self._sft.transform": ([None, U.INVLEN], U.Ldim()),  # d-dimensional Fourier transform of a dimensionless function of a length
    "tplstable_cor": (["same", "same", U.ONE, U.ONE], U.ONE),
    "tpl_exp_spec_dens": ([U.INVLEN, None, U.LEN, U.ONE, U.LEN], U.Ldim()),
    "tpl_gau_spec_dens": ([U.INVLEN, None, U.LEN, U.ONE, U.LEN], U.Ldim()),
    "self.var_factor": ([], U.Unit(U.Lin({"hurst": 2}))),
    "self.calc_integral_scale": ([], U.LEN),
    "self._model.spectrum": ([U.INVLEN], U.VAR * U.Ldim()),
}


def infer(ctx, rule, rel, qual, fn, params, want, extra_seeds=None, note="", extra_contracts=None):
    """One obligation per return path of fn: inferred unit == want (under the path's dim refinement)."""
    seeds = dict(SEEDS)
    seeds.update(extra_seeds or {})
    contracts = dict(CONTRACTS)
    contracts.update(extra_contracts or {})
    inf = U.Inference(seeds, contracts, SYMBOLS)
    res, problems = inf.run(fn, params)
    site = "%s::%s" % (rel, qual)
    n = 0
    if not res:
        ctx.undecided(rule, site, "no return path found")
    inhom = sorted({p for p in problems if " vs " in p or "must be dimensionless" in p})
    unknown = [p for p in problems if p not in inhom]
    for u, desc, denv in res:
        n += 1
        branch = (" [" + " & ".join(desc) + "]") if desc else ""
        if u is None:
            ctx.ok(rule, site, "path%s returns None (not offered)" % branch)
            continue
        if u is U.TOP:
            if unknown or not inhom:
                ctx.undecided(rule, site, "unit of the result%s is unknown: %s" % (branch, "; ".join((unknown or problems)[:3])))
            continue
        if u is U.ANY:
            ctx.ok(rule, site, "path%s returns a unit-polymorphic value (0 / inf)" % branch)
            continue
        w = want.subst(denv)
        ok = u.eq(want, denv)
        ctx.check(ok, rule, site, "result%s has unit %r; contract %s requires %r" % (branch, u.subst(denv), note or qual, w), "unit:%s:%s" % (" & ".join(desc), repr(u.subst(denv))))
    for pr in inhom:
        ctx.violation(rule, site, "dimensionally inhomogeneous expression: %s" % pr, "inhom:" + pr[:80])
    return n


def homogeneity(ctx, rule="R04.1"):
    prog = ctx.prog
    cm = prog.cls(BASE, "CovModel")
    n = 0
    k_par = {"k": U.INVLEN}
    for ci in prog.subclasses(cm):
        rel = ci.module.relpath
        if "spectral_density" in ci.methods:
            n += infer(ctx, rule, rel, ci.name + ".spectral_density", ci.methods["spectral_density"], k_par, U.Ldim(), note="spectral_density(k: 1/L) -> L^dim")
        if "spectral_rad_cdf" in ci.methods:
            n += infer(ctx, rule, rel, ci.name + ".spectral_rad_cdf", ci.methods["spectral_rad_cdf"], {"r": U.INVLEN}, U.ONE, note="spectral_rad_cdf(r: 1/L) -> 1")
        if "spectral_rad_ppf" in ci.methods:
            n += infer(ctx, rule, rel, ci.name + ".spectral_rad_ppf", ci.methods["spectral_rad_ppf"], {"u": U.ONE}, U.INVLEN, note="spectral_rad_ppf(u: 1) -> 1/L")
    n += infer(ctx, rule, BASE, "CovModel.spectral_density", cm.methods["spectral_density"], k_par, U.Ldim(), note="default density = Hankel transform of the correlation -> L^dim")
    n += infer(ctx, rule, BASE, "CovModel.spectrum", cm.methods["spectrum"], k_par, U.VAR * U.Ldim(), note="spectrum -> V L^dim")
    n += infer(ctx, rule, TOOLS, "rad_fac", prog.func(TOOLS, "rad_fac"), {"r": U.INVLEN, "dim": U.ONE}, U.Ldim(-1, 1), note="surface factor of the (dim-1)-sphere of radius r: (1/L)^(dim-1)")
    n += infer(ctx, rule, TOOLS, "spectral_rad_pdf", prog.func(TOOLS, "spectral_rad_pdf"), {"r": U.INVLEN, "model": U.ONE}, U.LEN, note="radial pdf in r (1/L) -> L")
    for f in ("tpl_exp_spec_dens", "tpl_gau_spec_dens"):
        n += infer(ctx, rule, SPECIAL, f, prog.func(SPECIAL, f), {"k": U.INVLEN, "dim": U.ONE, "len_scale": U.LEN, "hurst": U.ONE, "len_low": U.LEN}, U.Ldim(), note="TPL spectral density -> L^dim")
    # generators
    g = prog.cls(GEN, "RandMeth").methods["__call__"]
    n += infer(ctx, rule, GEN, "RandMeth.__call__", g, {"pos": U.LEN, "add_nugget": U.ONE}, U.Unit(U.Lin(), "1/2"),
               extra_seeds={"config.NUM_THREADS": U.ONE, "self._cov_sample": U.INVLEN, "self._z_1": U.ONE, "self._z_2": U.ONE, "summed_modes.shape": U.ONE},
               extra_contracts={"_summate": (None, U.ONE), "self.get_nugget": (None, U.Unit(U.Lin(), "1/2"))},
               note="G1 field amplitude sqrt(var / N) * modes (+ nugget) -> sqrt(V)")
    gn = prog.cls(GEN, "RandMeth").methods["get_nugget"]
    n += infer(ctx, rule, GEN, "RandMeth.get_nugget", gn, {"shape": U.ONE}, U.Unit(U.Lin(), "1/2"), extra_contracts={"self._rng.random.normal": (None, U.ONE)}, note="nugget noise sqrt(nugget) * N(0,1) -> sqrt(V)")
    ctx.floor(rule, "unit obligations", n, 30)


def generator_units(ctx, rule="R04.1g"):
    """Targeted obligations on generator expressions (statement level)."""
    prog = ctx.prog
    inf = U.Inference(dict(SEEDS, **{"self._period": U.LEN, "self._delta_k": U.INVLEN, "self._modes": U.INVLEN, "tmp_model.anis": U.ONE, "self._seed": U.ONE}), CONTRACTS, SYMBOLS)
    inf.dimenv = {}

    def expr_unit(e, env=None):
        inf.problems = []
        return inf.unit(e, env or {}), list(inf.problems)

    def find_assign(fn, target):
        xs = [n for n in ast.walk(fn) if isinstance(n, ast.Assign) and ast.unparse(n.targets[0]) == target]
        if len(xs) != 1:
            raise AnalysisError("anchor vanished: assignment to %s in %s" % (target, fn.name))
        return xs[0]

    upd = prog.func(GEN, "Fourier.update")
    rs = prog.func(GEN, "Fourier.reset_seed")
    sm = prog.func(GEN, "Fourier._set_modes")
    rr = prog.func(GEN, "RandMeth.reset_seed")
    checks = [
        ("Fourier.update", find_assign(upd, "self._delta_k").value, {"anis": U.ONE}, U.INVLEN, "G2 delta_k = 2 pi / period * [1, anis] : 1/L"),
        ("Fourier.reset_seed", find_assign(rs, "self._spectrum_factor").value, {"k_norm": U.INVLEN}, U.Unit(U.Lin(), "1/2"), "G2 spectrum factor sqrt(spectrum * prod(delta_k)) : sqrt(V)"),
        ("RandMeth.reset_seed", find_assign(rr, "self._cov_sample").value, {"rad": U.INVLEN, "sphere_coord": U.ONE}, U.INVLEN, "G4 wave vectors = radius * unit direction : 1/L"),
    ]
    for qual, e, env, want, note in checks:
        u, pr = expr_unit(e, env)
        site = "%s::%s" % (GEN, qual)
        if u is U.TOP or isinstance(u, str):
            ctx.undecided(rule, site, "%s: unknown unit %s (%s)" % (note, u, "; ".join(pr[:2])))
        else:
            ctx.check(u.eq(want), rule, site, "%s: inferred %r" % (note, u), "gen:" + note[:20] + repr(u))
    # sample_around = 1 / len_rescaled : 1/L
    sa = [k.value for n in ast.walk(rr) if isinstance(n, ast.Call) for k in n.keywords if k.arg == "sample_around"]
    if len(sa) != 1:
        raise AnalysisError("anchor vanished: sample_around")
    u, pr = expr_unit(sa[0])
    ctx.check(not isinstance(u, str) and u.eq(U.INVLEN), rule, GEN + "::RandMeth.reset_seed", "G4 MCMC start scale 1 / len_rescaled : inferred %r" % (u,), "gen:sample_around")
    # mode grid: every per-axis wave-number array carries 1/L
    lcs = [n for n in ast.walk(sm) if isinstance(n, ast.ListComp) and any(isinstance(c, ast.Call) and ast.unparse(c.func) == "np.arange" for c in ast.walk(n.elt))]
    if len(lcs) != 1:
        raise AnalysisError("anchor vanished: mode grid comprehension in _set_modes")
    uinf = U.Inference(dict(SEEDS, **{"self._delta_k": U.INVLEN}), dict(CONTRACTS, **{"np.arange": (None, None)}), SYMBOLS)
    uinf.dimenv = {}
    uinf.problems = []

    def arange_unit(call, env):
        us = [uinf.unit(a, env) for a in call.args]
        u0 = U.ANY
        for x in us:
            u0 = uinf.unify(u0, x, "np.arange arguments")
        return u0

    class _Sub(ast.NodeTransformer):
        def visit_Call(self, node):
            self.generic_visit(node)
            if ast.unparse(node.func) == "np.arange":
                return ast.copy_location(ast.Name("__arange__", ast.Load()), node)
            return node

    import copy as _copy

    elt = lcs[0].elt
    ar = [c for c in ast.walk(elt) if isinstance(c, ast.Call) and ast.unparse(c.func) == "np.arange"][0]
    env = {"mode_no": U.ONE, "d": U.ONE}
    au = arange_unit(ar, env)
    env["__arange__"] = U.ONE if au is U.ANY else au
    u = uinf.unit(_Sub().visit(_copy.deepcopy(elt)), env)
    ctx.check(u is not U.TOP and u is not U.ANY and u.eq(U.INVLEN) and not uinf.problems, rule, GEN + "::Fourier._set_modes", "G3 per-axis mode array is a wave number (1/L): inferred %r %s" % (u, uinf.problems[:1]), "gen:grid")
    # kernel phases: k * x dimensionless
    S = "field/summator.pyx"
    for kname, karr in (("summate", "cov_samples"), ("summate_incompr", "cov_samples"), ("summate_fourier", "modes")):
        fn = prog.func(S, kname)
        ph = [n for n in ast.walk(fn) if isinstance(n, ast.AugAssign) and ast.unparse(n.target) == "phase"]
        if len(ph) != 1:
            raise AnalysisError("anchor vanished: phase accumulation in %s" % kname)
        pinf = U.Inference({}, {}, {})
        pinf.dimenv = {}
        pinf.problems = []
        u = pinf.unit(ph[0].value, {karr: U.INVLEN, "pos": U.LEN})
        ctx.check(u is not U.TOP and u.is_one(), rule, "%s::%s" % (S, kname), "phase increment (wave number x position) is dimensionless: %r" % (u,), "gen:phase:" + kname)
        cs = [n for n in ast.walk(fn) if isinstance(n, ast.Call) and getattr(n.func, "id", "") in ("cos", "sin")]
        ctx.check(bool(cs) and all(ast.unparse(c.args[0]) == "phase" for c in cs), rule, "%s::%s" % (S, kname), "only the dimensionless phase enters sin/cos", "gen:trig:" + kname)
    inc = prog.func(S, "summate_incompr")
    pj = [n for n in ast.walk(inc) if isinstance(n, ast.Assign) and ast.unparse(n.targets[0]) == "proj[d]"]
    pinf = U.Inference({}, {}, {})
    pinf.dimenv = {}
    pinf.problems = []
    u = pinf.unit(pj[0].value, {"cov_samples": U.INVLEN, "e1": U.ONE, "k_2": U.Unit(U.Lin.const(-2))}) if pj else U.TOP
    ctx.check(u is not U.TOP and u.is_one() and not pinf.problems, "R04.6", S + "::summate_incompr", "projector e1 - k_d k_a / |k|^2 is dimensionless (|k|^2 : 1/L^2): %r %s" % (u, pinf.problems[:1]), "proj-unit")


def offer_implementation(ctx, rule="R04.2"):
    prog = ctx.prog
    cm = prog.cls(BASE, "CovModel")
    n = 0
    for ci in prog.subclasses(cm):
        for what in ("cdf", "ppf"):
            meth = ci.methods.get("spectral_rad_" + what)
            has = ci.methods.get("_has_" + what)
            site = "%s::%s" % (ci.module.relpath, ci.name)
            if meth is None and has is None:
                continue
            if meth is None and has is not None:
                ctx.violation(rule, site, "_has_%s is defined but spectral_rad_%s is not" % (what, what), "has-without-impl:" + what)
                continue
            n += 1
            # dims where the implementation returns a value
            impl = set()
            inf = U.Inference(dict(SEEDS), CONTRACTS, SYMBOLS)
            res, _ = inf.run(meth, {"r": U.INVLEN, "u": U.ONE})
            for d in (1, 2, 3, 4):
                for u, desc, denv in res:
                    if u is not None and (denv.get("dim") == d or "dim" not in denv):
                        impl.add(d)
            if has is None:
                offered = {1, 2, 3, 4}  # base class: hasattr -> always offered
            else:
                try:
                    r = [s for s in has.body if isinstance(s, ast.Return)][0].value
                    offered = {d for d in (1, 2, 3, 4) if fold(r, {"self.dim": d})}
                except (FoldError, IndexError) as e:
                    ctx.undecided(rule, site, "cannot fold _has_%s: %s" % (what, e))
                    continue
            ctx.check(offered == impl, rule, site, "%s is offered for dims %s and implemented (non-None) for dims %s (dims 1-4)" % (what, sorted(offered), sorted(impl)), "offer:%s:%s:%s" % (what, sorted(offered), sorted(impl)))
    ctx.floor(rule, "cdf/ppf offers", n, 4)
    hc = [ast.unparse(s.value) for s in cm.methods["_has_cdf"].body if isinstance(s, ast.Return)]
    hp = [ast.unparse(s.value) for s in cm.methods["_has_ppf"].body if isinstance(s, ast.Return)]
    ctx.check(hc == ["hasattr(self, 'spectral_rad_cdf')"] and hp == ["hasattr(self, 'spectral_rad_ppf')"], rule, BASE + "::CovModel", "by default a cdf/ppf is offered iff the method exists", "default-offer")
    df = cm.getters["dist_func"]
    t = [norm_stmt(s) for s in df.body if not (isinstance(s, ast.Expr) and isinstance(s.value, ast.Constant))]
    ok = t == ["pdf = self.spectral_rad_pdf", "cdf = None", "ppf = None", "if self.has_cdf: cdf = self.spectral_rad_cdf", "if self.has_ppf: ppf = self.spectral_rad_ppf", "return (pdf, cdf, ppf)"]
    ctx.check(ok, rule, BASE + "::CovModel.dist_func", "cdf/ppf are handed to the sampler only when offered", "dist-func")
    rs = prog.func(GEN, "RandMeth.reset_seed")
    sel = [s for s in rs.body if isinstance(s, ast.If) and "has_ppf" in ast.unparse(s.test)]
    ok = len(sel) == 1 and ast.unparse(sel[0].test) == "self.sampling == 'inversion' or (self.sampling == 'auto' and self.model.has_ppf)"
    ctx.check(ok, rule, GEN + "::RandMeth.reset_seed", "inversion sampling is chosen automatically only when the model offers a ppf", "auto-sampling")


def composition(ctx, rule="R04.3"):
    prog = ctx.prog
    cm = prog.cls(BASE, "CovModel")
    sp = [ast.unparse(s.value) for s in cm.methods["spectrum"].body if isinstance(s, ast.Return)]
    ctx.check(sp in (["self.spectral_density(k) * self.var"], ["self.var * self.spectral_density(k)"]), rule, BASE + "::CovModel.spectrum", "spectrum = variance x spectral density (variance, not sill)", "spectrum")
    over = [c.name for c in prog.subclasses(cm) if "spectrum" in c.methods]
    ctx.check(not over, rule, BASE, "no shipped model overrides `spectrum`: %s" % over, "no-override")
    rp = prog.func(TOOLS, "spectral_rad_pdf")
    prods = [n for n in ast.walk(rp) if isinstance(n, ast.BinOp) and isinstance(n.op, ast.Mult) and "rad_fac(" in ast.unparse(n.left)]
    ok = len(prods) == 2 and all(ast.unparse(p.left).startswith("rad_fac(model.dim, r") and ast.unparse(p.right).startswith("np.abs(model.spectral_density(r") for p in prods)
    ctx.check(ok, rule, TOOLS + "::spectral_rad_pdf", "radial pdf = rad_fac(dim, r) * |spectral_density(r)| on both branches, with the model's own dimension", "rad-pdf")
    tail = [norm_stmt(s) for s in rp.body[-3:]]
    ctx.check("res = np.maximum(res, 0.0)" in tail and tail[-1] == "return res", rule, TOOLS + "::spectral_rad_pdf", "the pdf is clamped at 0 before it is returned", "clamp")
    ln = cm.methods["ln_spectral_rad_pdf"]
    ok = any(isinstance(n, ast.Return) and ast.unparse(n.value) == "np.log(self.spectral_rad_pdf(r))" for n in ast.walk(ln))
    ctx.check(ok, rule, BASE + "::CovModel.ln_spectral_rad_pdf", "log-pdf = log(pdf)", "ln-pdf")
    sd = cm.methods["spectral_density"]
    ok = any(isinstance(n, ast.Return) and ast.unparse(n.value) == "self._sft.transform(self.correlation, k, ret_err=False)" for n in ast.walk(sd))
    ctx.check(ok, rule, BASE + "::CovModel.spectral_density", "default density = symmetric Fourier transform of the model's correlation", "hankel")
    sft = []
    for rel, q in ((BASE, "CovModel.hankel_kw@set"), (TOOLS, "set_dim")):
        fn = prog.func(rel, q)
        for n in ast.walk(fn):
            if isinstance(n, ast.Assign) and ast.unparse(n.targets[0]).endswith("._sft"):
                sft.append(ast.unparse(n.value))
    ctx.check(sorted(sft) == sorted(["SFT(ndim=self.dim, **self.hankel_kw)", "SFT(ndim=model.dim, **model.hankel_kw)"]), rule, BASE, "the transform object is built for the model's current dimension at both of its writers", "sft-dim")
    ctx.check(prog.mod(BASE).imports.get("SFT") == "hankel.SymmetricFourierTransform", rule, BASE, "SFT is hankel.SymmetricFourierTransform", "sft-import")
    # the Hankel settings of a model are its own copy of the module default (a shared dict would leak settings between models)
    from .. import alias

    an = alias.analyzed(prog)
    shared = []
    for fq, sm in an.summ.items():
        for attr, labs in sm.store.items():
            if attr == "_hankel_kw" and any(l.startswith("G:") for l in labs):
                shared.append(fq)
    ctx.check(not shared, rule, BASE + "::CovModel.hankel_kw@set", "each model keeps its own copy of HANKEL_DEFAULT (the stored dict is updated in place later): stored by reference in %s" % shared, "hankel-default-copied")
    pdf = cm.methods["spectral_rad_pdf"]
    ctx.check([ast.unparse(s.value) for s in pdf.body if isinstance(s, ast.Return)] == ["spectral_rad_pdf(self, r)"], rule, BASE + "::CovModel.spectral_rad_pdf", "method delegates to tools.spectral_rad_pdf(self, r)", "delegate")


FORMULA_FILES = ("covmodel/models.py", "covmodel/tpl_models.py", "covmodel/base.py", "covmodel/tools.py", "tools/special.py")
LIKE = ("np.empty_like", "np.ones_like", "np.zeros_like", "np.full_like")


def float_buffers(ctx, rule="R04.7"):
    """A result buffer allocated `like` another array inherits that array's dtype: in the model formulas (correlations, spectral densities,
    special functions) the template must certainly be floating point whatever the caller passes - converted with dtype=np.double, or
    produced by a true division / float operation - or the allocation names a float dtype itself.  Integer wave numbers or lags would
    otherwise truncate every stored value."""
    from ..small import _sym_subst, floatness, sym_eval, sym_text

    n = 0
    for mm, q, fn, ci, kind in ctx.prog.all_functions():
        if mm.relpath not in FORMULA_FILES:
            continue
        for st in [x for x in ast.walk(fn) if isinstance(x, ast.stmt)]:
            for c in [x for x in ast.walk(st) if isinstance(x, ast.Call) and ast.unparse(x.func) in LIKE and x.args]:
                if any(c in ast.walk(sub) for blk in ("body", "orelse", "finalbody") for sub in (getattr(st, blk, None) or []) if isinstance(sub, ast.stmt)):
                    continue
                n += 1
                site = "%s::%s" % (mm.relpath, q)
                dt = [k.value for k in c.keywords if k.arg == "dtype"]
                if dt:
                    ctx.check(ast.unparse(dt[0]) in ("np.double", "float", "np.float64"), rule, site, "%s names the dtype %s" % (ast.unparse(c)[:50], ast.unparse(dt[0])), "like-dtype:%s" % ast.unparse(c.args[0]))
                    continue
                owner = next((f for f in ast.walk(fn) if isinstance(f, ast.FunctionDef) and f is not fn and any(x is st for x in ast.walk(f))), fn)
                env = sym_eval(owner.body, stop=st, element_stores_kill=False)
                v = _sym_subst(c.args[0], env)
                ctx.check(floatness(v), rule, site, "template of %s is %s: %s" % (ast.unparse(c)[:40], sym_text(v)[:70], "certainly floating point" if floatness(v) else "carries the caller's dtype (integer input truncates the results)"),
                          "like-float:%s" % ast.unparse(c.args[0]))
    ctx.floor(rule, "`*_like` allocations in the model formulas", n, 12)


def radial_cdf_ppf(ctx, rule="R04.9"):
    """Where a model offers a radial spectral cdf (and ppf) in closed form: (a) d/dr cdf(r) equals the radial pdf = surface factor(dim, r)
    times the spectral density, and (b) cdf(ppf(u)) reduces to u - as formulas, for each dimension branch `self.dim == d`, in the
    power / exp / log normal form of E11 DIFF extended by arctan / tan / erf / erfinv / Gamma at half-integers."""
    import re as _re
    from .. import diffalg as DA
    from ..small import UnrollError, return_cases

    prog = ctx.prog
    cm = prog.cls(BASE, "CovModel")
    rf = prog.func("covmodel/tools.py", "rad_fac")
    try:
        rf_cases = return_cases(rf)
    except UnrollError as e:
        raise AnalysisError("rad_fac is no longer a decision table: %s" % e)
    n = 0
    for ci in prog.subclasses(cm):
        cdf, ppf, dens = ci.methods.get("spectral_rad_cdf"), ci.methods.get("spectral_rad_ppf"), ci.methods.get("spectral_density")
        if cdf is None or dens is None:
            continue
        site = "%s::%s" % (ci.module.relpath, ci.name)
        pr = cdf.args.args[1].arg
        pk = dens.args.args[1].arg
        try:
            c_cases = return_cases(cdf, opaque=(pr,))
            d_cases = return_cases(dens, opaque=(pk,))
            p_cases = return_cases(ppf, opaque=(ppf.args.args[1].arg,)) if ppf is not None else []
        except UnrollError as e:
            ctx.undecided(rule, site, "radial functions are not decision tables: %s" % e)
            continue

        def dim_of(conds):
            ds = [int(m.group(1)) for c in conds for m in [_re.fullmatch(r"(?:self\.)?dim == (\d+)", c)] if m]
            return ds[0] if len(ds) == 1 else None

        for conds, txt in c_cases:
            d = dim_of(conds)
            if d is None or txt == "None":
                continue
            sub = {"self.dim": DA.num(d), "dim": DA.num(d)}
            try:
                DA.set_domain(0, None)  # radii / wave numbers are positive
                t_cdf = DA.from_ast(ast.parse(txt, mode="eval").body, {pr}, 1, subst=sub)
                dens_txt = [t for c_, t in d_cases if not any(_re.fullmatch(r"(?:self\.)?dim == \d+", x) and x != "self.dim == %d" % d for x in c_)]
                fac_txt = [t for c_, t in rf_cases if "dim == %d" % d in c_]
                if len(dens_txt) != 1 or len(fac_txt) != 1:
                    ctx.undecided(rule, site, "no unique density / surface factor branch for dim %d" % d)
                    continue
                t_den = DA.from_ast(ast.parse(dens_txt[0], mode="eval").body, {pk}, 1, subst=sub)
                t_fac = DA.from_ast(ast.parse(fac_txt[0], mode="eval").body, {"r"}, 1, subst=sub)
                lhs = DA.canon(DA.diff(t_cdf))
                rhs = DA.canon(DA.mul(t_fac, t_den))
            except DA.DiffError as ex:
                ctx.undecided(rule, site, "dim %d: formula outside the algebra: %s" % (d, ex))
                continue
            n += 1
            ctx.check(DA.same(lhs, rhs), rule, site, "dim %d: d/dr cdf = %s ; surface factor * density = %s" % (d, DA.vtext(lhs)[:90], DA.vtext(rhs)[:90]), "cdf-pdf:%d" % d)
            for pconds, ptxt in p_cases:
                if dim_of(pconds) != d or ptxt == "None":
                    continue
                pu = ppf.args.args[1].arg
                try:
                    DA.set_domain(0, 1)  # probabilities
                    t_ppf = DA.from_ast(ast.parse(ptxt, mode="eval").body, {pu}, 1, subst=sub)
                    comp = DA.canon(DA.substitute(t_cdf, "x", t_ppf))
                except DA.DiffError as ex:
                    ctx.undecided(rule, site, "dim %d: ppf outside the algebra: %s" % (d, ex))
                    continue
                n += 1
                ctx.check(DA.same(comp, DA.canon(DA.sym("x"))), rule, site, "dim %d: cdf(ppf(u)) = %s (must be u)" % (d, DA.vtext(comp).replace("x", "u")[:90]), "cdf-ppf:%d" % d)
    ctx.floor(rule, "closed-form radial cdf / ppf branches compared", n, 8)


DATA_PARAMS = ("r", "k", "h", "u", "x")


def limit_guards(ctx, rule="R04.10"):
    """A guard that switches to a limit value where the data reach a special point (`np.isclose(k, 0)`: the formula divides by k) compares
    the DATA with 0, so that only numpy's absolute tolerance 1e-8 applies.  `np.isclose(u, 1)` has a relative band as well (|u - 1| <= 1e-8
    + 1e-5): every u > 0.99999 would take the limit value - for a quantile function that is an infinite wave number in about 1% of all
    seeded fields (the first version of repair #24 did exactly that).  Comparisons of PARAMETERS (lmbda, nu, len_low) are not concerned."""
    from ..small import _sym_subst, sym_eval

    n = 0
    for mm, q, fn, ci, kind in ctx.prog.all_functions():
        if mm.relpath not in ("covmodel/models.py", "covmodel/tpl_models.py") or ci is None:
            continue
        data = [a.arg for a in fn.args.args[1:] if a.arg in DATA_PARAMS]
        if not data:
            continue
        for st in [x for x in ast.walk(fn) if isinstance(x, ast.stmt)]:
            for c in [x for x in ast.walk(st) if isinstance(x, ast.Call) and ast.unparse(x.func) == "np.isclose" and len(x.args) >= 2]:
                if any(c in ast.walk(sub) for blk in ("body", "orelse", "finalbody") for sub in (getattr(st, blk, None) or []) if isinstance(sub, ast.stmt)):
                    continue
                env = sym_eval(fn.body, stop=st, opaque=tuple(data), element_stores_kill=False)
                a0 = _sym_subst(c.args[0], env)
                if not any(isinstance(x, ast.Name) and x.id in data for x in ast.walk(a0)):
                    continue
                n += 1
                try:
                    zero = fold(c.args[1], {}) == 0
                except (FoldError, TypeError):
                    zero = False
                ctx.check(zero, rule, "%s::%s" % (mm.relpath, q), "limit guard %s compares data with %s (must be 0: absolute tolerance only)" % (ast.unparse(c)[:50], ast.unparse(c.args[1])),
                          "isclose-data:%s" % ast.unparse(c.args[1]))
    ctx.floor(rule, "np.isclose guards on data in the model formulas", n, 4)


def run(ctx):
    limit_guards(ctx)
    radial_cdf_ppf(ctx)
    float_buffers(ctx)
    from .C03 import dimension_attribute

    dimension_attribute(ctx, rule="R04.8")  # correlation and spectral density are a Fourier pair in ONE dimension
    from .C03 import tpl_weights
    from .C14 import no_cached_derived

    tpl_weights(ctx, rule="R04.4")  # the analytic TPL spectra receive the same (rescaled) lengths and weights as the correlations they are the transform of
    no_cached_derived(ctx, rule="R04.5")  # the Hankel transform object follows dim / hankel_kw; nothing derived is cached
    homogeneity(ctx)
    generator_units(ctx)
    offer_implementation(ctx)
    composition(ctx)
    return (
        "Decides necessary structural conditions of C04: (R04.1) every analytic spectral density / radial cdf / ppf / surface factor / radial pdf / spectrum and the generator amplitude, weight and wave-number "
        "expressions are dimensionally homogeneous with the contract units (k: 1/L, density: L^dim, spectrum: V L^dim, pdf: L, cdf: 1, ppf: 1/L, sqrt(V) amplitudes) - a units-of-measure type inference with symbolic "
        "exponents (dim, hurst, ...), per dim-branch; (R04.2) a radial cdf/ppf is offered exactly for the dimensions in which it is implemented; (R04.3) spectrum = var x density, radial pdf = surface factor x |density| "
        "clamped at 0, default density = Hankel transform for the model's current dimension. NOT decided: that the density IS the Fourier transform (a wrong numeric factor keeps units), normalisation, cdf/ppf inverse relation."
        ' (R04.7) result buffers allocated like a template are certainly floating point; (R04.8) model formulas read `self.dim` only; (R04.9) where a closed-form radial cdf / ppf exists, d/dr cdf equals surface factor times density and cdf(ppf(u)) reduces to u, as formulas per dimension branch (E11 DIFF); (R04.10) limit guards on data compare with 0.'
    )
