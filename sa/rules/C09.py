"""C09 Variogram invariances and preprocessing semantics."""
import ast

from .. import ordtype as O
from ..loader import AnalysisError, attach_parents, norm_stmt
from ..small import FoldError, arms, divides_by, find_ifs, fold, ifexp_arms, expr_cases, sym_eval

EST = "variogram/estimator.pyx"
VAR = "variogram/variogram.py"


def differences_only(ctx, rule="R09.1"):
    prog = ctx.prog
    mod = prog.mod(EST)
    attach_parents(mod.tree)
    n_pos = n_f = 0
    for name, fn in mod.functions.items():
        params = [a.arg for a in fn.args.args]
        site = "%s::%s" % (EST, name)
        for node in ast.walk(fn):
            if not (isinstance(node, ast.Subscript) and isinstance(node.value, ast.Name) and isinstance(node.ctx, ast.Load)):
                continue
            arr = node.value.id
            if arr == "pos" and "pos" in params:
                n_pos += 1
                par = getattr(node, "_parent", None)
                ok = False
                why = ast.unparse(par) if par is not None else "?"
                if isinstance(par, ast.BinOp) and isinstance(par.op, ast.Sub):
                    other = par.right if par.left is node else par.left
                    if isinstance(other, ast.Subscript) and ast.unparse(other.value) == "pos":
                        i1, i2 = node.slice, other.slice
                        if isinstance(i1, ast.Tuple) and isinstance(i2, ast.Tuple) and len(i1.elts) == len(i2.elts) == 2:
                            ok = ast.unparse(i1.elts[0]) == ast.unparse(i2.elts[0]) and ast.unparse(i1.elts[1]) != ast.unparse(i2.elts[1])
                elif name == "dist_haversine" and isinstance(par, ast.BinOp) and isinstance(par.op, ast.Mult):
                    gp = getattr(par, "_parent", None)
                    # latitude enters the haversine only through cos(lat * deg2rad) (besides differences)
                    ok = isinstance(gp, ast.Call) and ast.unparse(gp.func) == "cos" and ast.unparse(node.slice.elts[0]) == "0"
                ctx.check(ok, rule, site, "position read %s occurs only inside a difference of the same coordinate at two points%s: %s" % (ast.unparse(node), " (or cos(lat) for the great-circle distance)" if name == "dist_haversine" else "", why[:70]),
                          "pos:" + ast.unparse(node) + ":" + why[:60])
            elif arr == "f" and "f" in params and name in ("directional", "unstructured", "structured", "ma_structured"):
                if isinstance(getattr(node, "_parent", None), ast.Attribute):
                    continue
                n_f += 1
                par = getattr(node, "_parent", None)
                ok = False
                if isinstance(par, ast.BinOp) and isinstance(par.op, ast.Sub):
                    other = par.right if par.left is node else par.left
                    ok = isinstance(other, ast.Subscript) and ast.unparse(other.value) == "f"
                elif isinstance(par, ast.Call) and ast.unparse(par.func) == "isnan":
                    ok = True
                ctx.check(ok, rule, site, "field read %s occurs only inside a difference of two field values or a NaN test" % ast.unparse(node), "f:" + ast.unparse(node) + ":" + (ast.unparse(par)[:50] if par is not None else ""))
    ctx.floor(rule, "position reads in the kernels", n_pos, 10)
    ctx.floor(rule, "field reads in the kernels", n_f, 10)


def preprocessing(ctx, rule="R09.2"):
    prog = ctx.prog
    ve = prog.func(VAR, "vario_estimate")
    site = VAR + "::vario_estimate"
    attach_parents(ve)
    # ---- paired sub-selection
    sel = {}
    for node in ast.walk(ve):
        if isinstance(node, ast.Assign) and isinstance(node.targets[0], ast.Name) and node.targets[0].id in ("pos", "field"):
            for sub in ast.walk(node.value):
                if isinstance(sub, ast.Subscript) and isinstance(sub.value, ast.Name) and sub.value.id == node.targets[0].id and isinstance(sub.slice, ast.Tuple) and len(sub.slice.elts) == 2 and ast.unparse(sub.slice.elts[0]) == ":":
                    idx = ast.unparse(sub.slice.elts[1])
                    blk = id(getattr(node, "_parent", None))
                    sel.setdefault((blk, idx), set()).add(node.targets[0].id)
    n = 0
    for (blk, idx), who in sorted(sel.items(), key=lambda kv: kv[0][1]):
        n += 1
        ctx.check(who == {"pos", "field"}, rule, site, "sub-selection with `%s` is applied to positions and field values alike in the same block: %s" % (idx, sorted(who)), "paired:" + idx)
    ctx.floor(rule, "sub-selection indices", n, 2)
    body = list(ve.body)
    txt = [norm_stmt(s) for s in body]

    def idx_of(pred):
        for i, s in enumerate(body):
            if pred(s):
                return i
        return None

    i_mask = idx_of(lambda s: isinstance(s, ast.If) and ast.unparse(s.test) == "masked" and any("select" in ast.unparse(x) for x in s.body))
    i_samp = idx_of(lambda s: isinstance(s, ast.If) and "sampling_size" in ast.unparse(s.test))
    i_bins = idx_of(lambda s: isinstance(s, ast.If) and ast.unparse(s.test) == "bin_edges is None" and "standard_bins" in ast.unparse(s))
    i_norm = idx_of(lambda s: isinstance(s, ast.Assign) and "remove_trend_norm_mean" in ast.unparse(s.value))
    i_kern = idx_of(lambda s: isinstance(s, ast.If) and ast.unparse(s.test) == "dir_no == 0")
    i_nodata = idx_of(lambda s: isinstance(s, ast.If) and ast.unparse(s.test) == "not np.isnan(no_data)")
    if None in (i_mask, i_samp, i_bins, i_norm, i_kern, i_nodata):
        raise AnalysisError("anchor vanished: preprocessing stages of vario_estimate")
    ok = any(norm_stmt(x) == "pnt_cnt = len(pos[0])" for x in body[i_mask].body) and i_mask < i_samp
    ctx.check(ok, rule, site, "the point count is refreshed after masking, before the sampling threshold uses it", "pnt-cnt")
    ctx.check(ast.unparse(body[i_samp].test) == "sampling_size is not None and sampling_size < pnt_cnt", rule, site, "down-sampling only if fewer points are requested than present", "sampling-guard")
    ctx.check(i_mask < i_nodata < i_samp < i_bins < i_norm < i_kern, rule, site,
              "order: mask -> no-data -> (directions) -> sampling -> default bins on the remaining points -> trend/normalizer/mean removal at the remaining positions -> kernel", "stage-order")
    # ---- masked / no-data values become NaN, the kernels' skip value
    mtxt = [norm_stmt(x) for x in body[i_mask].body]
    ok = "field.fill_value = np.nan" in mtxt and any(t.startswith("field = field[:, select].filled()") for t in mtxt)
    ctx.check(ok, rule, site, "remaining masked values are filled with NaN", "mask-nan")
    ndt = [norm_stmt(x) for x in body[i_nodata].body]
    ctx.check(ndt == ["field[np.isclose(field, float(no_data))] = np.nan"], rule, site, "no-data values are replaced by NaN (only if a no-data value is given)", "nodata-nan")
    use = [x for x in body[i_mask].body if isinstance(x, ast.Assign) and ast.unparse(x.targets[0]) == "pos" and "select" in ast.unparse(x.value)]
    if not use:
        raise AnalysisError("anchor vanished: pos = pos[:, select] in the mask stage of vario_estimate")
    sel_val = sym_eval(body[i_mask].body, stop=use[0]).get("select")
    cases = sorted(expr_cases(sel_val), key=lambda c: c[1]) if sel_val is not None else []
    ok = cases == sorted([(frozenset(["np.size(mask) > 1"]), "np.invert(np.logical_or(np.reshape(mask, pnt_cnt), np.all(field.mask, axis=0)))"),
                          (frozenset(["not np.size(mask) > 1"]), "np.invert(np.all(field.mask, axis=0))")], key=lambda c: c[1])
    ctx.check(ok, rule, site, "points are dropped only where the given mask holds or ALL fields are masked (minimal common mask)", "common-mask")
    # ---- copy of the field precedes every in-place operation
    f0 = idx_of(lambda s: isinstance(s, ast.Assign) and ast.unparse(s.targets[0]) == "field")
    kw = {k.arg: ast.unparse(k.value) for k in body[f0].value.keywords} if isinstance(body[f0].value, ast.Call) else {}
    ok = ast.unparse(body[f0].value.func) == "np.ma.array" and kw.get("copy") == "True" and kw.get("ndmin") == "2" and f0 < i_mask
    ctx.check(ok, rule, site, "the field is copied (np.ma.array(..., ndmin=2, copy=True)) before anything is written into it", "copy-first")
    resh = [norm_stmt(s) for s in body if isinstance(s, ast.Assign) and "reshape((-1, pnt_cnt))" in norm_stmt(s)]
    ctx.check(resh == ["field = field.reshape((-1, pnt_cnt))"], rule, site, "fields are stacked as rows over the flattened point list", "stack")
    # ---- structured input is expanded like the point list
    mt = idx_of(lambda s: isinstance(s, ast.If) and arms(s, "mesh_type != 'unstructured'") is not None)
    st_arm, un_arm = arms(body[mt], "mesh_type != 'unstructured'") if mt is not None else ([], [])
    ok = mt is not None and any(norm_stmt(x) == "pos = generate_grid(pos)" for x in st_arm) and any("format_struct_pos_shape(pos, field.shape, check_stacked_shape=True)" in norm_stmt(x) for x in st_arm) and any("format_unstruct_pos_shape(pos, field.shape, check_stacked_shape=True)" in norm_stmt(x) for x in un_arm)
    ctx.check(ok, rule, site, "a structured mesh is expanded to the equivalent point list (generate_grid) and then treated like unstructured input", "struct")
    # ---- normalisation call
    nc = body[i_norm].value
    okn = isinstance(nc, ast.Call) and ast.unparse(nc.args[0]) == "*(pos, field, mean, normalizer, trend)" and {k.arg: ast.unparse(k.value) for k in nc.keywords} == {"check_shape": "False", "stacked": "True", "fit_normalizer": "fit_normalizer"}
    ctx.check(okn, rule, site, "trend/normalizer/mean are removed from all stacked fields at the selected positions", "norm-call")


def sampling(ctx, rule="R09.3"):
    prog = ctx.prog
    ve = prog.func(VAR, "vario_estimate")
    calls = [n for n in ast.walk(ve) if isinstance(n, ast.Call) and ast.unparse(n.func).endswith(".choice")]
    ok = len(calls) == 1
    if ok:
        c = calls[0]
        ok = ast.unparse(c.func) == "np.random.RandomState(sampling_seed).choice" and [ast.unparse(a) for a in c.args] == ["np.arange(pnt_cnt)", "sampling_size"] and {k.arg: ast.unparse(k.value) for k in c.keywords} == {"replace": "False"}
    ctx.check(ok, rule, VAR + "::vario_estimate", "the sample is `sampling_size` distinct point indices drawn from RandomState(sampling_seed) (reproducible, without replacement)", "choice")
    # no global random state anywhere in the variogram package
    n = 0
    for m, q, f, ci, kind in prog.all_functions():
        if not m.relpath.startswith("variogram/"):
            continue
        for node in ast.walk(f):
            if isinstance(node, ast.Call) and ast.unparse(node.func).startswith(("np.random.", "random.")):
                if isinstance(node.func, ast.Attribute) and isinstance(node.func.value, ast.Call):
                    continue
                n += 1
                ctx.check(ast.unparse(node.func) == "np.random.RandomState" and bool(node.args), rule, "%s::%s" % (m.relpath, q), "only an explicitly seeded RandomState is used: %s" % ast.unparse(node)[:60], ast.unparse(node.func))
    ctx.floor(rule, "random call sites in variogram/", n, 1)


def directions(ctx, rule="R09.4"):
    prog = ctx.prog
    ve = prog.func(VAR, "vario_estimate")
    site = VAR + "::vario_estimate"
    prep = [s for s in ve.body if isinstance(s, ast.If) and ast.unparse(s.test) == "dir_no > 0"]
    if len(prep) != 1:
        raise AnalysisError("anchor vanished: directional preparation block")
    t = [norm_stmt(x) for x in prep[0].body]
    ok = "norms = np.linalg.norm(direction, axis=1)" in t and any(divides_by(x, "direction", "norms") and "norms[:, np.newaxis]" in ast.unparse(x) for x in prep[0].body)
    ctx.check(ok, rule, site, "direction vectors are normalised to unit length before the kernel (which assumes normed directions)", "unit-dirs")
    ok = any(x.startswith("if np.any(np.isclose(norms, 0)): raise") for x in t)
    ctx.check(ok, rule, site, "zero-length directions raise", "zero-dir")
    bw = [ifexp_arms(x.value, "bandwidth is None") for x in prep[0].body if isinstance(x, ast.Assign) and ast.unparse(x.targets[0]) == "bandwidth"]
    ok = len(bw) == 1 and bw[0] is not None and ast.unparse(bw[0][0]) == "-1.0" and ast.unparse(bw[0][1]) == "float(bandwidth)" and "angles_tol = float(angles_tol)" in t
    ctx.check(ok, rule, site, "no bandwidth given -> -1.0, the kernel's 'off' value (kernel tests bandwidth > 0)", "bandwidth-off")
    dt = prog.func("variogram/estimator.pyx", "dir_test")
    ctx.check(any(isinstance(s, ast.If) and ast.unparse(s.test) == "bandwidth > 0.0" for s in dt.body), rule, "variogram/estimator.pyx::dir_test", "band criterion is applied only for bandwidth > 0", "kernel-bandwidth")
    d1 = [s for s in ve.body if isinstance(s, ast.If) and ast.unparse(s.test) == "direction is not None and dim > 1"]
    ok = len(d1) == 1 and any("if direction.shape[1] != dim: raise" in norm_stmt(x) for x in d1[0].body) and any(norm_stmt(x) == "dir_no = direction.shape[0]" for x in d1[0].body)
    ctx.check(ok, rule, site, "direction vectors must have `dim` components; one output row per direction", "dir-shape")
    d2 = [s for s in ve.body if isinstance(s, ast.If) and ast.unparse(s.test) == "angles is not None and direction is None and (dim > 1)"]
    ok = len(d2) == 1 and any(norm_stmt(x) == "direction = ang2dir(angles=angles, dtype=np.double, dim=dim)" for x in d2[0].body)
    ctx.check(ok, rule, site, "angles are converted to direction vectors only when no direction vectors are given", "angles")
    run = [s for s in ve.body if isinstance(s, ast.If) and ast.unparse(s.test) == "dir_no == 0"]
    dc = [n for n in ast.walk(run[0]) if isinstance(n, ast.Call) and getattr(n.func, "id", "") == "_directional"] if run else []
    ok = len(dc) == 1 and [ast.unparse(a) for a in dc[0].args] == ["field", "bin_edges", "pos", "direction", "angles_tol", "bandwidth"] and "separate_dirs" in {k.arg for k in dc[0].keywords}
    ctx.check(ok, rule, site, "the kernel receives the directions, tolerance, bandwidth and a separated-directions flag", "kernel-args")
    from .. import small

    if ok:
        dd = small.last_def_before(ve, "direction", dc[0]._ord)
        okn = dd is not None and divides_by(dd, "direction", "norms")
        sc = [n for n in ast.walk(ve) if isinstance(n, ast.Call) and getattr(n.func, "id", "") == "_separate_dirs_test"]
        oks = len(sc) == 1 and small.last_def_before(ve, "direction", sc[0]._ord) is dd
        ctx.check(okn and oks, rule, site, "the directions reaching the kernel - and the separated-directions test - are the normalised ones", "normalised-reach")
    sd = prog.func(VAR, "_separate_dirs_test")
    t = ast.unparse(sd)
    ok = "np.arccos(s_prod) >= 2 * angles_tol" in t
    # every unordered pair of directions is tested once, with the absolute value of the projection clamped to 1: the pair loops are
    # unrolled statically for 2, 3 and 4 directions (index loops, enumerate or slices alike)
    from ..small import UnrollError, subst_fold, unroll_for

    outer = [s for s in sd.body if isinstance(s, ast.For)]
    pairs_ok = len(outer) == 1
    if pairs_ok:
        for n_dir in (2, 3, 4):
            lens, env = {"direction": n_dir}, {"direction.shape[0]": n_dir, "len(direction)": n_dir}
            got = []
            try:
                for b1 in unroll_for(outer[0], lens, env):
                    for st in outer[0].body:
                        if not isinstance(st, ast.For):
                            continue
                        st1 = subst_fold(st, b1, lens)
                        for b2 in unroll_for(st1, lens, env):
                            bb = dict(b1)
                            bb.update(b2)
                            for x in st.body:
                                if isinstance(x, ast.Assign) and ast.unparse(x.targets[0]) == "s_prod":
                                    got.append(ast.unparse(subst_fold(x.value, bb, lens)))
            except UnrollError:
                pairs_ok = False
                break
            want = ["np.minimum(np.abs(np.dot(direction[%d], direction[%d])), 1)" % (a, b) for a in range(n_dir) for b in range(a + 1, n_dir)]
            if sorted(got) != sorted(want):
                pairs_ok = False
    ctx.check(ok and pairs_ok, rule, VAR + "::_separate_dirs_test", "directions count as separated iff every pair encloses at least twice the tolerance (smallest angle via |cos| clamped to 1; all unordered pairs, unrolled for 2-4 directions)", "separated")
    sq = [s for s in ast.walk(run[0]) if isinstance(s, ast.If) and ast.unparse(s.test) == "dir_no == 1"] if run else []
    ctx.check(len(sq) == 1 and norm_stmt(sq[0].body[0]) in ("(estimates, counts) = (estimates[0], counts[0])", "estimates, counts = (estimates[0], counts[0])", "estimates, counts = estimates[0], counts[0]"), rule, site, "a single direction returns 1-D results", "squeeze")


# ---------------------------------------------------------------------------------------------------------------- R09.7
class _Trig:
    """Product of sin/cos of angle columns: ({j: power of sin a_j}, {j: power of cos a_j}) - a monomial in the trigonometric ring."""

    def __init__(self, s=None, c=None):
        self.s, self.c = dict(s or {}), dict(c or {})

    def mul(self, o):
        s, c = dict(self.s), dict(self.c)
        for k, v in o.s.items():
            s[k] = s.get(k, 0) + v
        for k, v in o.c.items():
            c[k] = c.get(k, 0) + v
        return _Trig(s, c)

    def key(self):
        return (tuple(sorted(self.s.items())), tuple(sorted(self.c.items())))


def _norm2_is_one(comps, n_ang):
    """sum_i comp_i^2 == 1 identically, using cos^2 = 1 - sin^2: polynomial arithmetic in S_j = sin^2 a_j (exact)."""
    poly = {}  # monomial (tuple of exponents of S_j) -> integer coefficient

    def add(mono, coef):
        poly[mono] = poly.get(mono, 0) + coef

    for t in comps:
        terms = {tuple([0] * n_ang): 1}
        for j in range(n_ang):
            ps, pc = t.s.get(j, 0), t.c.get(j, 0)  # squared component: sin^(2 ps) cos^(2 pc) = S^ps (1 - S)^pc
            new = {}
            for mono, coef in terms.items():
                for k in range(pc + 1):
                    binom = 1
                    for x in range(k):
                        binom = binom * (pc - x) // (x + 1)
                    m = list(mono)
                    m[j] += ps + k
                    new[tuple(m)] = new.get(tuple(m), 0) + coef * binom * (-1) ** k
            terms = new
        for mono, coef in terms.items():
            add(mono, coef)
    poly = {m: c for m, c in poly.items() if c != 0}
    return poly == {tuple([0] * n_ang): 1}


def ang2dir_rule(ctx, rule="R09.7"):
    """ang2dir turns d-1 angles into a direction: the components, evaluated symbolically for d = 2, 3, 4 by unrolling the loop, must be
    the hyperspherical coordinates - in particular of unit length for every angle (the kernel's angle test assumes normed vectors and
    vario_estimate renormalises only explicitly given direction vectors)."""
    from ..small import UnrollError, subst_fold, unroll_for

    fn = ctx.prog.func("tools/geometric.py", "ang2dir")
    site = "tools/geometric.py::ang2dir"
    body = [s for s in fn.body if not (isinstance(s, ast.Expr) and isinstance(s.value, ast.Constant))]
    start = [i for i, s in enumerate(body) if isinstance(s, ast.Assign) and ast.unparse(s.targets[0]) == "vec" and "np.empty" in ast.unparse(s.value)]
    if len(start) != 1:
        raise AnalysisError("anchor vanished: vec = np.empty(...) in ang2dir")
    tail = body[start[0] + 1:]

    class Undecided(Exception):
        pass

    trig = {}  # local name -> "np.sin" / "np.cos" for `name = np.sin(angles)`

    def columns(e, n_ang, base="angles"):
        """angle columns selected by `angles`, `angles[:, a:b]`, `angles[:, k]` -> list of column indices"""
        if isinstance(e, ast.Name) and e.id == base:
            return list(range(n_ang))
        if isinstance(e, ast.Subscript) and isinstance(e.value, ast.Name) and e.value.id == base and isinstance(e.slice, ast.Tuple) and len(e.slice.elts) == 2 \
                and isinstance(e.slice.elts[0], ast.Slice) and e.slice.elts[0].lower is None and e.slice.elts[0].upper is None:
            c = e.slice.elts[1]
            if isinstance(c, ast.Slice) and c.step is None:
                lo = 0 if c.lower is None else fold(c.lower, {})
                hi = n_ang if c.upper is None else fold(c.upper, {})
                return list(range(n_ang))[int(lo):int(hi)]
            k = fold(c, {})
            if isinstance(k, (int, float)) and int(k) == k:
                k = int(k)
                if k < 0:
                    k += n_ang
                if not 0 <= k < n_ang:
                    raise Undecided("column %d of %d angle columns" % (k, n_ang))
                return [k]
        raise Undecided("angle selection %s" % ast.unparse(e))

    def trig_base(e):
        """`sin_a`, `sin_a[:, ...]` for a local bound to np.sin(angles) / np.cos(angles) -> (function, local name)"""
        b = e.value if isinstance(e, ast.Subscript) else e
        if isinstance(b, ast.Name) and b.id in trig:
            return trig[b.id], b.id
        return None, None

    class _PushIndex(ast.NodeTransformer):
        """np.sin(A)[S] -> np.sin(A[S]): an elementwise function commutes with indexing (the spelling left when a local `s = np.sin(A)` is inlined)"""

        def visit_Subscript(self, n):
            self.generic_visit(n)
            if isinstance(n.value, ast.Call) and ast.unparse(n.value.func) in ("np.sin", "np.cos") and len(n.value.args) == 1 and not n.value.keywords:
                return ast.Call(n.value.func, [ast.Subscript(n.value.args[0], n.slice, ast.Load())], [])
            return n

    def value(e, n_ang, vec):
        import copy as _copy

        e = ast.fix_missing_locations(_PushIndex().visit(_copy.deepcopy(e)))
        if isinstance(e, ast.Call) and ast.unparse(e.func) == "np.prod" and len(e.args) == 1 and {k.arg: ast.unparse(k.value) for k in e.keywords} == {"axis": "1"}:
            inner = e.args[0]
            fnm, loc = trig_base(inner)
            if fnm is not None:
                t = _Trig()
                for j in columns(inner, n_ang, loc):
                    t = t.mul(_Trig({j: 1}, {}) if fnm == "np.sin" else _Trig({}, {j: 1}))
                return t
            if isinstance(inner, ast.Call) and ast.unparse(inner.func) in ("np.sin", "np.cos") and len(inner.args) == 1:
                cols = columns(inner.args[0], n_ang)
                t = _Trig()
                for j in cols:
                    t = t.mul(_Trig({j: 1}, {}) if ast.unparse(inner.func) == "np.sin" else _Trig({}, {j: 1}))
                return t
        if isinstance(e, ast.Call) and ast.unparse(e.func) in ("np.sin", "np.cos") and len(e.args) == 1:
            cols = columns(e.args[0], n_ang)
            if len(cols) == 1:
                return _Trig({cols[0]: 1}, {}) if ast.unparse(e.func) == "np.sin" else _Trig({}, {cols[0]: 1})
        fnm, loc = trig_base(e)
        if fnm is not None:
            cols = columns(e, n_ang, loc)
            if len(cols) == 1:
                return _Trig({cols[0]: 1}, {}) if fnm == "np.sin" else _Trig({}, {cols[0]: 1})
        if isinstance(e, ast.BinOp) and isinstance(e.op, ast.Mult):
            return value(e.left, n_ang, vec).mul(value(e.right, n_ang, vec))
        if isinstance(e, ast.Subscript) and ast.unparse(e.value) == "vec":
            k = vec_col(e)
            if isinstance(k, int) and vec[k] is not None:
                return vec[k]
        raise Undecided("component expression %s" % ast.unparse(e))

    def vec_col(t):
        """vec[:, k] -> k ; vec[:, [a, b]] -> [a, b]"""
        if isinstance(t, ast.Subscript) and ast.unparse(t.value) == "vec" and isinstance(t.slice, ast.Tuple) and len(t.slice.elts) == 2 and isinstance(t.slice.elts[0], ast.Slice):
            c = t.slice.elts[1]
            if isinstance(c, ast.List):
                return [int(fold(x, {})) for x in c.elts]
            k = fold(c, {})
            if int(k) == k:
                return int(k)
        raise Undecided("store target %s" % ast.unparse(t))

    def run_stmts(stmts, dim, vec, bind):
        n_ang = dim - 1
        for st in stmts:
            st2 = subst_fold(st, bind) if bind else st
            if isinstance(st2, ast.Assign) and len(st2.targets) == 1:
                # sin_a = np.sin(angles)   /   sin_a, cos_a = np.sin(angles), np.cos(angles)
                tg = st2.targets[0].elts if isinstance(st2.targets[0], ast.Tuple) else [st2.targets[0]]
                vs = st2.value.elts if isinstance(st2.value, ast.Tuple) else [st2.value]
                if len(tg) == len(vs) and all(isinstance(t_, ast.Name) and isinstance(v_, ast.Call) and ast.unparse(v_.func) in ("np.sin", "np.cos") and len(v_.args) == 1
                                              and ast.unparse(v_.args[0]) == "angles" for t_, v_ in zip(tg, vs)):
                    for t_, v_ in zip(tg, vs):
                        trig[t_.id] = ast.unparse(v_.func)
                    continue
            if isinstance(st2, ast.Assign) and len(st2.targets) == 1 and ast.unparse(st2.targets[0].value if isinstance(st2.targets[0], ast.Subscript) else st2.targets[0]) == "vec":
                k = vec_col(st2.targets[0])
                if isinstance(k, list):
                    src = vec_col(st2.value)
                    if not (isinstance(src, list) and len(src) == len(k)):
                        raise Undecided("column permutation %s" % norm_stmt(st2))
                    vals = [vec[j] for j in src]
                    for kk, v in zip(k, vals):
                        vec[kk] = v
                else:
                    vec[k] = value(st2.value, n_ang, vec)
            elif isinstance(st2, ast.AugAssign) and isinstance(st2.op, ast.Mult) and isinstance(st2.target, ast.Subscript) and ast.unparse(st2.target.value) == "vec":
                k = vec_col(st2.target)
                if not isinstance(k, int) or vec[k] is None:
                    raise Undecided("in-place update %s" % norm_stmt(st2))
                vec[k] = vec[k].mul(value(st2.value, n_ang, vec))
            elif isinstance(st2, ast.For):
                try:
                    its = unroll_for(st2, {}, {"dim": dim})
                except UnrollError as e:
                    raise Undecided(str(e))
                for b in its:
                    bb = dict(bind)
                    bb.update(b)
                    run_stmts(st.body, dim, vec, bb)
            elif isinstance(st2, ast.If):
                try:
                    c = fold_bool(st2.test, dim)
                except FoldError as e:
                    raise Undecided("branch condition %s: %s" % (ast.unparse(st2.test), e))
                run_stmts(st.body if c else st.orelse, dim, vec, bind)
            elif isinstance(st2, ast.Return):
                return
            else:
                raise Undecided("statement %s" % norm_stmt(st2)[:80])

    def fold_bool(t, dim):
        if isinstance(t, ast.Compare) and len(t.ops) == 1 and isinstance(t.ops[0], ast.In) and isinstance(t.comparators[0], (ast.List, ast.Tuple)):
            return fold(t.left, {"dim": dim}) in [fold(x, {"dim": dim}) for x in t.comparators[0].elts]
        if isinstance(t, ast.Compare) and len(t.ops) == 1 and isinstance(t.ops[0], (ast.Eq, ast.NotEq, ast.Lt, ast.LtE, ast.Gt, ast.GtE)):
            a, b = fold(t.left, {"dim": dim}), fold(t.comparators[0], {"dim": dim})
            return {ast.Eq: a == b, ast.NotEq: a != b, ast.Lt: a < b, ast.LtE: a <= b, ast.Gt: a > b, ast.GtE: a >= b}[type(t.ops[0])]
        raise FoldError("not a comparison on dim")

    # documented convention (2-D: (cos, sin) of the azimuth; 3-D: azimuth + polar angle from z; d-D: hyperspherical)
    want = {
        2: [((), ((0, 1),)), (((0, 1),), ())],
        3: [(((1, 1),), ((0, 1),)), (((0, 1), (1, 1)), ()), ((), ((1, 1),))],
        4: [(((0, 1), (1, 1), (2, 1)), ()), (((1, 1), (2, 1)), ((0, 1),)), (((2, 1),), ((1, 1),)), ((), ((2, 1),))],
    }
    for dim in (2, 3, 4):
        vec = [None] * dim
        try:
            run_stmts(tail, dim, vec, {})
            if any(v is None for v in vec):
                raise Undecided("component never assigned")
        except Undecided as e:
            ctx.undecided(rule, site, "symbolic evaluation for dim=%d stopped at: %s" % (dim, e))
            continue
        txt = ["*".join(["sin(a%d)" % j + ("^%d" % p if p > 1 else "") for j, p in sorted(v.s.items())] + ["cos(a%d)" % j + ("^%d" % p if p > 1 else "") for j, p in sorted(v.c.items())]) or "1" for v in vec]
        ctx.check(_norm2_is_one(vec, dim - 1), rule, site, "dim=%d: the components %s have unit length for all angles (exact polynomial identity with cos^2 = 1 - sin^2)" % (dim, txt), "unit:%d" % dim)
        ctx.check([v.key() for v in vec] == want[dim], rule, site, "dim=%d: components follow the documented convention (azimuth first; hyperspherical in d > 3): %s" % (dim, txt), "convention:%d" % dim)


def grid_layout(ctx, rule="R09.5"):
    prog = ctx.prog
    n = 0
    for m, q, f, ci, kind in prog.all_functions():
        if m.relpath.endswith("plot.py"):
            continue
        for node in ast.walk(f):
            if isinstance(node, ast.Call) and ast.unparse(node.func) == "np.meshgrid":
                n += 1
                kw = {k.arg: ast.unparse(k.value) for k in node.keywords}
                ctx.check(kw.get("indexing") == "'ij'", rule, "%s::%s" % (m.relpath, q), "meshgrid uses matrix indexing ('ij'): the flattened grid matches a C-order reshape of the field", "indexing")
    ctx.floor(rule, "meshgrid call sites outside plotting", n, 1)
    gg = prog.func("tools/geometric.py", "generate_grid")
    ret = [ast.unparse(s.value) for s in gg.body if isinstance(s, ast.Return)]
    ctx.check(ret == ["np.asarray(np.meshgrid(*pos, indexing='ij'), dtype=np.double).reshape((len(pos), -1))"], rule, "tools/geometric.py::generate_grid", "grid = (dim, n_points) in C order", "grid")
    callers = []
    for m, q, f, ci, kind in prog.all_functions():
        if kind == "nested" or m.relpath.endswith("plot.py"):
            continue
        if any(isinstance(n_, ast.Call) and getattr(n_.func, "id", "") == "generate_grid" for n_ in ast.walk(f)):
            callers.append("%s::%s" % (m.relpath, q))
    ctx.check(len(callers) >= 4, rule, "src/gstools", "all structured-mesh expansions go through generate_grid: %s" % sorted(callers), "callers")


def run(ctx):
    from .C08 import mask_guard, nan_guard
    from .C08 import axis_wrapper

    axis_wrapper(ctx, rule="R09.13")  # masked cells and missing values of a grid behave like removed points only if the mask handed to the kernel is (given mask) OR (missing) (shared with C08)

    nan_guard(ctx, rule="R09.12")  # missing values behave like removed points only if a pair needs BOTH values present (shared with C08)

    mask_guard(ctx, rule="R09.12")  # masked cells behave like removed points only if a pair needs BOTH cells unmasked (shared with C08)
    from .C13 import forcing_sites, radius_sites

    radius_sites(ctx, rule="R09.11")  # automatic lat-lon bins: every sphere conversion receives the caller's geo_scale (shared with C13)

    forcing_sites(ctx, rule="R09.9")  # lat-lon preprocessing of vario_estimate: bins to radians exactly once, 2-D, no directions (shared with C13)
    from ..small import none_default_rule

    none_default_rule(ctx, "R09.8", ["variogram/"], 10)
    differences_only(ctx)
    preprocessing(ctx)
    sampling(ctx)
    directions(ctx)
    ang2dir_rule(ctx)
    grid_layout(ctx)
    from .C08 import run as _c08  # noqa: F401  (R08.2 / R08.6 carry the pair-once / evenness / symmetry clauses)
    from .. import small

    for nm in ("estimator_matheron", "estimator_cressie"):
        fn = ctx.prog.func(EST, nm)
        par = small.Parity("negate", fn.args.args[0].arg).run_function(fn)
        ctx.check(par == small.EVEN, "R09.6", "%s::%s" % (EST, nm), "estimator is even in the increment: exchanging the two points of a pair cannot change the result", "even")
    for nm in ("dist_euclid", "dist_haversine"):
        fn = ctx.prog.func(EST, nm)
        a = [x.arg for x in fn.args.args]
        par = small.Parity("swap", a[2], a[3]).run_function(fn)
        ctx.check(par == small.EVEN, "R09.6", "%s::%s" % (EST, nm), "distance is symmetric in the two points", "symmetric")

    return (
        "Decides the structural clauses of C09: (R09.1) the kernels read positions only inside differences of one coordinate at two points (cos(lat) for great-circle distances) and field values only inside differences "
        "or NaN tests, so a common shift of positions or of the field cannot change any output; (R09.2) every sub-selection is applied to positions and values alike, point count refreshed, masked/no-data values become "
        "NaN, the field is copied first, stages run in the documented order, structured meshes are expanded to the point list; (R09.3) down-sampling is seeded and without replacement; (R09.4) directions are normalised, "
        "bandwidth off-value, shapes; (R09.5) 'ij' grid layout; (R09.6) estimator even, distance symmetric (with R08.2: permutation invariance). NOT decided: rotation covariance, quadratic scaling, equality with point lists as values."
    )
