"""Apply a seeded patch to /repo, run every claimed check (quick), print which ones fire, revert.  python3 -m sa.tryseed <patch.diff> [ids...]"""
import json
import os
import subprocess
import sys

VERIF = os.path.dirname(os.path.dirname(os.path.abspath(__file__)))


def main():
    patch = os.path.abspath(sys.argv[1])
    ids = sys.argv[2:]
    man = json.load(open(os.path.join(VERIF, "MANIFEST.json")))
    if not ids:
        ids = [c["property_id"] for c in man["checks"]]
    st = subprocess.run(["git", "-C", "/repo", "status", "--porcelain", "--untracked-files=no"], capture_output=True, text=True).stdout.strip()
    if st:
        print("refusing: /repo has local modifications:\n" + st)
        return 2
    r = subprocess.run(["git", "-C", "/repo", "apply", patch], capture_output=True, text=True)
    if r.returncode != 0:
        print("patch does not apply:", r.stderr)
        return 2
    fired = {}
    try:
        for pid in ids:
            p = subprocess.run([os.path.join(VERIF, "check"), pid, "--no-evidence"], capture_output=True, text=True, cwd=VERIF)
            lines = [l for l in p.stdout.splitlines() if "VIOLATION-DETAIL" in l or l.startswith("ANALYSIS-ERROR")]
            fired[pid] = (p.returncode, lines)
    finally:
        subprocess.run(["git", "-C", "/repo", "checkout", "--", "."], check=True)
    for pid, (rc, lines) in fired.items():
        if rc != 0:
            print("%s exit %d" % (pid, rc))
            for l in lines[:6]:
                print("    " + l.strip()[:260])
    print("FIRED:", [p for p, (rc, _) in fired.items() if rc == 1], " ERROR:", [p for p, (rc, _) in fired.items() if rc == 2])
    return 0


if __name__ == "__main__":
    sys.exit(main())
