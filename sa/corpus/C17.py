G = "field/generator.py"
CASES = [
    dict(name="revert-fourier-delta-k", file=G, expect="R17.1", old="        if period is not None or new_model:\n", new="        if period is not None:\n"),
    dict(name="period-branch-no-set-modes", file=G, expect="R17.1", old="            if mode_no is None:\n                self._set_modes(self._mode_no, dim)\n", new=""),
    dict(name="period-setter-direct-store", file=G, expect=["R17.1", "R17.2"], old="        self.update(period=period)\n", new="        self._period = self._fill_to_dim(period, self._model.dim)\n"),
    dict(name="no-parity-check", file=G, expect="R17.2",
         old="""            if (np.asarray([m % 2 for m in mode_no]) != 0).any():
                raise ValueError("Fourier: Odd mode_no not supported.")
""", new=""),
    dict(name="parity-check-after", expect=["R17.2", "R17.1"], edits=[
        dict(file=G, old='        if mode_no is not None:\n            mode_no = self._fill_to_dim(mode_no, dim)\n            if (np.asarray([m % 2 for m in mode_no]) != 0).any():\n                raise ValueError("Fourier: Odd mode_no not supported.")\n        if period is not None:', new='        if period is not None:'),
        dict(file=G, old='        if mode_no is not None:\n            self._set_modes(mode_no, dim)\n', new='        if mode_no is not None:\n            mode_no = self._fill_to_dim(mode_no, dim)\n            self._set_modes(mode_no, dim)\n            if (np.asarray([m % 2 for m in mode_no]) != 0).any():\n                raise ValueError("Fourier: Odd mode_no not supported.")\n')]),
    # the state before the repair 22c1aeb: period and wave number spacing are stored, then an odd mode_no is rejected
    dict(name="validate-after-store", expect="R17.1", edits=[
        dict(file=G, old='        if mode_no is not None:\n            mode_no = self._fill_to_dim(mode_no, dim)\n            if (np.asarray([m % 2 for m in mode_no]) != 0).any():\n                raise ValueError("Fourier: Odd mode_no not supported.")\n        if period is not None:', new='        if period is not None:'),
        dict(file=G, old='        if mode_no is not None:\n            self._set_modes(mode_no, dim)\n', new='        if mode_no is not None:\n            mode_no = self._fill_to_dim(mode_no, dim)\n            if (np.asarray([m % 2 for m in mode_no]) != 0).any():\n                raise ValueError("Fourier: Odd mode_no not supported.")\n            self._set_modes(mode_no, dim)\n')]),
    dict(name="grid-off-by-half", file=G, expect="R17.3", old="            np.arange(-mode_no[d] / 2.0, mode_no[d] / 2.0) * self._delta_k[d]", new="            np.arange(-(mode_no[d] - 1) / 2.0, mode_no[d] / 2.0) * self._delta_k[d]"),
    dict(name="grid-wrong-step", file=G, expect="R17.3", old="            np.arange(-mode_no[d] / 2.0, mode_no[d] / 2.0) * self._delta_k[d]", new="            np.arange(-mode_no[d] / 2.0, mode_no[d] / 2.0) * self._delta_k[0]"),
    dict(name="revert-float-step-arange", file=G, expect="R17.3", old="            np.arange(-mode_no[d] / 2.0, mode_no[d] / 2.0) * self._delta_k[d]", new="            np.arange(-mode_no[d] / 2.0 * self._delta_k[d], mode_no[d] / 2.0 * self._delta_k[d], self._delta_k[d])"),
    dict(name="grid-dim-minus-1", file=G, expect="R17.3", old="            for d in range(dim)\n        ]", new="            for d in range(dim - 1)\n        ]"),
    dict(name="delta-k-anis-dropped", file=G, expect="R17.3", old="            self._delta_k = 2.0 * np.pi / self._period * anis", new="            self._delta_k = 2.0 * np.pi / self._period"),
    dict(name="delta-k-no-2pi", file=G, expect="R17.3", old="            self._delta_k = 2.0 * np.pi / self._period * anis", new="            self._delta_k = 1.0 / self._period * anis"),
    dict(name="phase-missing-component", file="field/summator.pyx", expect="R17.3",
         old="""            for d in range(dim):
                phase += modes[d, j] * pos[d, i]""", new="""            for d in range(dim - 1):
                phase += modes[d, j] * pos[d, i]"""),
    dict(name="twin-grid-rewritten", kind="twin", file=G,
         old="            np.arange(-mode_no[d] / 2.0, mode_no[d] / 2.0) * self._delta_k[d]", new="            self._delta_k[d] * np.arange(-mode_no[d] / 2, mode_no[d] / 2)"),
    dict(name="fill-in-front", file="field/generator.py", expect="R17.3", old='            r = np.pad(r, (0, dim - len(r)), "edge")', new='            r = np.pad(r, (dim - len(r), 0), "edge")'),
    dict(name="fill-with-zero", file="field/generator.py", expect="R17.3", old='            r = np.pad(r, (0, dim - len(r)), "edge")', new='            r = np.pad(r, (0, dim - len(r)), "constant")'),
    dict(name="twin-fill-keywords", kind="twin", file="field/generator.py", old='            r = np.pad(r, (0, dim - len(r)), "edge")', new='            r = np.pad(r, pad_width=(0, dim - len(r)), mode="edge")'),
]
