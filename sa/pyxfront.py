"""Source-to-source front end: the Cython subset used by GSTools' kernels -> plain Python.

Cython is not installed in the sandbox, so the three ``.pyx`` files are rewritten
(line numbers preserved) to syntax ``ast`` can parse.  Everything that is stripped
(parameter types, ``cdef`` locals, return types, ``nogil``) is kept in a side table.

Fail-closed: anything the front end does not understand raises ``PyxFrontError``.
"""
import ast
import re


class PyxFrontError(Exception):
    pass


TYPE_RE = (
    r"(?:const\s+)?(?:unsigned\s+)?[A-Za-z_][\w.]*(?:\s*\[[^\]]*\])?(?:\s*\*)?"
)
DECL_RE = re.compile(
    r"^(?P<ind>\s*)cdef\s+(?P<type>" + TYPE_RE + r")\s+"
    r"(?P<names>[A-Za-z_]\w*(?:\s*,\s*[A-Za-z_]\w*)*)\s*(?P<init>=.*)?$"
)
CDEF_FUNC_RE = re.compile(
    r"^(?P<ind>\s*)cdef\s+(?:inline\s+)?(?P<ret>\(?[\w.\s]+?\)?)\s+(?P<name>[A-Za-z_]\w*)\s*\($"
    r"|^(?P<ind2>\s*)cdef\s+(?:inline\s+)?(?P<ret2>\(?[\w.\s]+?\)?)\s+(?P<name2>[A-Za-z_]\w*)\s*\((?P<rest>.*)$"
)


def _split_top(text, sep=","):
    out, depth, cur = [], 0, ""
    for ch in text:
        if ch in "([{":
            depth += 1
        elif ch in ")]}":
            depth -= 1
        if ch == sep and depth == 0:
            out.append(cur)
            cur = ""
        else:
            cur += ch
    out.append(cur)
    return [x.strip() for x in out]


MULTI_RE = re.compile(r"^(?P<ind>\s*)cdef\s+(?P<type>" + TYPE_RE + r")\s+(?P<rest>[A-Za-z_]\w*\s*(?:=|,).*)$")


def _declarators(code):
    """`cdef T a = e1, b = e2, c`  ->  (indent, T, [(a, 'e1'), (b, 'e2'), (c, None)]) or None"""
    mm = MULTI_RE.match(code)
    if not mm:
        return None
    parts = _split_top(mm.group("rest"))
    decls = []
    for part in parts:
        m2 = re.match(r"^([A-Za-z_]\w*)\s*(?:=\s*(.+))?$", part, re.S)
        if not m2:
            return None
        decls.append((m2.group(1), m2.group(2)))
    return mm.group("ind"), mm.group("type"), decls


class PyxInfo:
    """Side table for one converted .pyx module."""

    def __init__(self):
        self.directives = {}  # boundscheck, wraparound, cdivision, language_level
        self.functions = {}  # name -> dict(kind, params=[(name, type, const)], ret, nogil, locals={name:type})
        self.ctypedefs = []  # raw text
        self.cimports = []
        self.compile_time_names = set()


def _strip_comment(line):
    out = []
    q = None
    for ch in line:
        if q:
            out.append(ch)
            if ch == q:
                q = None
            continue
        if ch in "'\"":
            q = ch
            out.append(ch)
            continue
        if ch == "#":
            break
        out.append(ch)
    return "".join(out).rstrip()


def _split_top(s, sep=","):
    parts, depth, cur = [], 0, []
    q = None
    for ch in s:
        if q:
            cur.append(ch)
            if ch == q:
                q = None
            continue
        if ch in "'\"":
            q = ch
            cur.append(ch)
            continue
        if ch in "([{":
            depth += 1
        elif ch in ")]}":
            depth -= 1
        if ch == sep and depth == 0:
            parts.append("".join(cur))
            cur = []
        else:
            cur.append(ch)
    if "".join(cur).strip():
        parts.append("".join(cur))
    return [p.strip() for p in parts if p.strip()]


def _parse_param(p):
    """'const double[:, :] pos' / 'str estimator_type=\'m\'' / 'num_threads=None'"""
    default = None
    m = re.match(r"^(.*?)(?<![=!<>])=(?!=)(.*)$", p)
    if m:
        p, default = m.group(1).strip(), m.group(2).strip()
    toks = p.rsplit(None, 1)
    # handle "double[:, :] name": rsplit on whitespace may split inside brackets
    mm = re.match(r"^(?P<type>" + TYPE_RE + r")\s+(?P<name>[A-Za-z_]\w*)$", p)
    if mm:
        typ, name = mm.group("type"), mm.group("name")
    elif re.match(r"^[A-Za-z_]\w*$", p):
        typ, name = None, p
    else:
        raise PyxFrontError("cannot parse parameter %r" % p)
    del toks
    return name, typ, default


def convert(src, filename="<pyx>"):
    """Return (python_source, PyxInfo).  Line numbers are preserved."""
    info = PyxInfo()
    lines = src.split("\n")
    out = []
    i = 0
    n = len(lines)
    cur_func = None
    cur_indent = None
    m = re.match(r"^#\s*cython:\s*(.*)$", lines[0]) if lines else None
    if m:
        for kv in m.group(1).split(","):
            if "=" in kv:
                k, v = kv.split("=", 1)
                info.directives[k.strip()] = v.strip()
    while i < n:
        line = lines[i]
        # C casts `<int>expr` / `<double>expr`: the value is the expression (narrowing is what the declared type of the target does anyway)
        if "<" in line and ">" in line:
            line = re.sub(r"<\s*(?:unsigned\s+)?(?:int|long|double|float|bint|size_t|Py_ssize_t|np\.\w+)\s*>\s*(?=[A-Za-z_(])", "", line)
        # address-of `&x[i, j]` (raw pointers): the converted source keeps the operand; the pointer type stays in the side table
        if "&" in line and re.search(r"(?<=[=(,\s])&(?=[A-Za-z_])", line):
            line = re.sub(r"(?<=[=(,\s])&(?=[A-Za-z_])", "", line)
        code = _strip_comment(line)
        stripped = code.strip()
        ind = len(line) - len(line.lstrip())
        # track end of current function (dedent to column 0 with content)
        if stripped and cur_func is not None and ind <= cur_indent and not stripped.startswith(")"):
            cur_func = None
        # ---- cimport
        if re.match(r"^(from\s+[\w.]+\s+)?cimport\s+", stripped):
            info.cimports.append(stripped)
            if stripped.startswith("from"):
                out.append(" " * ind + stripped.replace(" cimport ", " import ", 1))
            elif ind > 0:
                out.append(" " * ind + "pass")
            else:
                out.append(stripped.replace("cimport ", "import ", 1))
            i += 1
            continue
        # ---- ctypedef (possibly multi-line)
        if stripped.startswith("ctypedef "):
            depth = code.count("(") - code.count(")")
            text = [stripped]
            out.append("")
            i += 1
            while depth > 0 and i < n:
                c2 = _strip_comment(lines[i])
                depth += c2.count("(") - c2.count(")")
                text.append(c2.strip())
                out.append("")
                i += 1
            info.ctypedefs.append(" ".join(text))
            continue
        # ---- function headers: cdef ... name( ... ) [nogil]:   |   def name( typed params ):
        is_cdef_func = bool(
            re.match(r"^cdef\s+(?:inline\s+)?\(?[\w.\s]+?\)?\s+[A-Za-z_]\w*\s*\(", stripped)
        ) and not DECL_RE.match(code)
        is_def = stripped.startswith("def ")
        if is_cdef_func or is_def:
            # join header lines until ':' at depth 0 ends the header
            hdr = [code]
            depth = code.count("(") - code.count(")")
            j = i + 1
            while (depth > 0 or not hdr[-1].rstrip().endswith(":")) and j < n:
                c2 = _strip_comment(lines[j])
                depth += c2.count("(") - c2.count(")")
                hdr.append(c2)
                j += 1
            joined = " ".join(h.strip() for h in hdr)
            if is_cdef_func:
                mm = re.match(
                    r"^cdef\s+(?P<inl>inline\s+)?(?P<ret>\(?[\w.\s]+?\)?)\s+(?P<name>[A-Za-z_]\w*)\s*\((?P<params>.*)\)\s*(?P<nogil>nogil)?\s*:$",
                    joined,
                )
                kind = "cdef"
            else:
                mm = re.match(
                    r"^def\s+(?P<name>[A-Za-z_]\w*)\s*\((?P<params>.*)\)\s*:$", joined
                )
                kind = "def"
            if not mm:
                raise PyxFrontError("%s:%d: unparsable function header %r" % (filename, i + 1, joined))
            params = []
            plain = []
            for p in _split_top(mm.group("params")):
                name, typ, default = _parse_param(p)
                params.append(
                    dict(
                        name=name,
                        type=typ,
                        const=bool(typ and typ.startswith("const")),
                        rank=(typ.count(":") if typ and "[" in typ else 0),
                        default=default,
                    )
                )
                plain.append(name if default is None else "%s=%s" % (name, default))
            fname = mm.group("name")
            info.functions[fname] = dict(
                kind=kind,
                params=params,
                ret=(mm.group("ret").strip("() ") if kind == "cdef" else None),
                nogil=bool(kind == "cdef" and mm.group("nogil")),
                inline=bool(kind == "cdef" and mm.group("inl")),
                locals={},
                lineno=i + 1,
            )
            out.append(" " * ind + "def %s(%s):" % (fname, ", ".join(plain)))
            for _ in range(j - i - 1):
                out.append("")
            cur_func = fname
            cur_indent = ind
            i = j
            continue
        # ---- cdef: block of local declarations (one `TYPE names [= init]` per indented line)
        if stripped == "cdef:":
            if cur_func is None:
                raise PyxFrontError("%s:%d: module-level cdef block not supported" % (filename, i + 1))
            out.append(" " * ind + "pass")
            i += 1
            while i < n:
                l2 = lines[i]
                c2 = _strip_comment(l2)
                if not c2.strip():
                    out.append("")
                    i += 1
                    continue
                ind2 = len(l2) - len(l2.lstrip())
                if ind2 <= ind:
                    break
                mm = DECL_RE.match(" " * ind + "cdef " + c2.strip())
                if not mm:
                    raise PyxFrontError("%s:%d: unparsable declaration in cdef block %r" % (filename, i + 1, c2.strip()))
                names = [x.strip() for x in mm.group("names").split(",")]
                for nm in names:
                    info.functions[cur_func]["locals"][nm] = mm.group("type")
                if mm.group("init"):
                    if len(names) != 1:
                        raise PyxFrontError("%s:%d: multi-name cdef with initialiser" % (filename, i + 1))
                    out.append(" " * ind + names[0] + " " + mm.group("init"))
                else:
                    out.append(" " * ind + "pass")
                i += 1
            continue
        # ---- cdef local declarations
        if stripped.startswith("cdef "):
            mm = DECL_RE.match(code)
            multi = _declarators(code) if (not mm or (mm.group("init") and "," in mm.group("init"))) else None
            if multi is not None and len(multi[2]) > 1 and any(init is not None for _, init in multi[2]):
                # cdef T a = e1, b = e2   (several declarators, each with its own initialiser)
                if cur_func is None:
                    raise PyxFrontError("%s:%d: module-level cdef variable not supported" % (filename, i + 1))
                ind_, typ_, decls = multi
                for nm, _init in decls:
                    info.functions[cur_func]["locals"][nm] = typ_
                stmts_ = ["%s = %s" % (nm, init_) for nm, init_ in decls if init_ is not None]
                out.append(ind_ + "; ".join(stmts_) if stmts_ else ind_ + "pass")
                i += 1
                continue
            if not mm:
                raise PyxFrontError("%s:%d: unparsable cdef %r" % (filename, i + 1, stripped))
            names = [x.strip() for x in mm.group("names").split(",")]
            typ = mm.group("type")
            if cur_func is None:
                raise PyxFrontError("%s:%d: module-level cdef variable not supported" % (filename, i + 1))
            for nm in names:
                info.functions[cur_func]["locals"][nm] = typ
            if mm.group("init"):
                if len(names) != 1:
                    raise PyxFrontError("%s:%d: multi-name cdef with initialiser" % (filename, i + 1))
                out.append(mm.group("ind") + names[0] + " " + mm.group("init"))
            else:
                out.append(mm.group("ind") + "pass")
            i += 1
            continue
        # ---- f-strings with Cython-only tolerated syntax: make them plain strings
        if re.search(r"\bf(['\"])", line):
            line = re.sub(r"\bf(['\"])", r"\1", line)
        if re.match(r"^if\s+OPENMP\s*:", stripped) or re.match(r"^if\s+OPENMP\s*:", stripped):
            info.compile_time_names.add("OPENMP")
        out.append(line)
        i += 1
    py = "\n".join(out)
    if re.search(r"^\s*(cdef|ctypedef|cimport)\b", py, re.M):
        raise PyxFrontError("%s: leftover Cython construct after conversion" % filename)
    try:
        ast.parse(py, filename)
    except SyntaxError as e:
        raise PyxFrontError("%s: converted source does not parse: %s" % (filename, e))
    return py, info
