"""E6 UNITS: dimensional-homogeneity type inference over the model formulas.

Unit = L^e * V^c.  `e` is a linear form over symbols (1, dim, hurst, alpha, nu, ...), `c` a rational.
One pass per function body, branch refinement on `self.dim == n`; no values, no solver.
A construct the engine does not understand yields TOP (unknown) and the obligation is reported UNDECIDED.
"""
import ast
from fractions import Fraction


class UnitError(Exception):
    pass


class Lin:
    """linear form over symbols: {sym: Fraction}; '1' is the constant symbol"""

    def __init__(self, d=None):
        self.d = {k: Fraction(v) for k, v in (d or {}).items() if v != 0}

    @staticmethod
    def const(v):
        return Lin({"1": v})

    @staticmethod
    def sym(s):
        return Lin({s: 1})

    def __add__(self, o):
        d = dict(self.d)
        for k, v in o.d.items():
            d[k] = d.get(k, 0) + v
        return Lin(d)

    def __neg__(self):
        return Lin({k: -v for k, v in self.d.items()})

    def __sub__(self, o):
        return self + (-o)

    def scale(self, f):
        return Lin({k: v * f for k, v in self.d.items()})

    def is_const(self):
        return all(k == "1" for k in self.d)

    def cval(self):
        return self.d.get("1", Fraction(0))

    def mul(self, o):
        if self.is_const():
            return o.scale(self.cval())
        if o.is_const():
            return self.scale(o.cval())
        raise UnitError("product of two symbolic exponents")

    def subst(self, env):
        out = Lin()
        for k, v in self.d.items():
            if k in env:
                out = out + Lin.const(v * env[k])
            else:
                out = out + Lin({k: v})
        return out

    def __eq__(self, o):
        return self.d == o.d

    def __repr__(self):
        if not self.d:
            return "0"
        parts = []
        for k in sorted(self.d):
            v = self.d[k]
            if k == "1":
                parts.append(str(v))
            else:
                parts.append(k if v == 1 else "-" + k if v == -1 else "%s*%s" % (v, k))
        return "+".join(parts).replace("+-", "-")


class Unit:
    def __init__(self, L=None, V=0):
        self.L = L if L is not None else Lin()
        self.V = Fraction(V)

    def __mul__(self, o):
        return Unit(self.L + o.L, self.V + o.V)

    def __truediv__(self, o):
        return Unit(self.L - o.L, self.V - o.V)

    def pow(self, p):
        """p: Lin (dimensionless exponent form)"""
        if not self.L.d and self.V == 0:
            return Unit()
        if not p.is_const():
            if self.V != 0:
                raise UnitError("symbolic power of a variance-carrying quantity")
            return Unit(self.L.mul(p), 0)
        return Unit(self.L.scale(p.cval()), self.V * p.cval())

    def is_one(self):
        return not self.L.d and self.V == 0

    def subst(self, env):
        return Unit(self.L.subst(env), self.V)

    def eq(self, o, env=None):
        env = env or {}
        return self.L.subst(env) == o.L.subst(env) and self.V == o.V

    def __repr__(self):
        if self.is_one():
            return "1"
        parts = []
        if self.L.d:
            parts.append("L^(%r)" % self.L)
        if self.V:
            parts.append("V^%s" % self.V)
        return "*".join(parts)


ONE = Unit()
LEN = Unit(Lin.const(1))
INVLEN = Unit(Lin.const(-1))
VAR = Unit(Lin(), 1)
ANY = "ANY"  # polymorphic (zeros / empty / inf): unifies with everything
TOP = "TOP"  # unknown


def Ldim(k=1, c=0):
    """L^(k*dim + c)"""
    return Unit(Lin({"dim": k, "1": c}))


DIMLESS_FUNCS = {
    "np.exp", "np.log", "np.log1p", "np.expm1", "np.sin", "np.cos", "np.tan", "np.arctan", "np.arccos", "np.arcsin", "sps.erf", "sps.erfinv", "sps.gamma", "sps.loggamma",
    "sps.jv", "sps.kv", "sps.hyp2f1", "sps.expn", "sps.exp1", "sps.gammainc", "sps.gammaincc", "sps.beta", "sps.betainc", "erf", "erfinv", "np.around", "int", "float", "min", "max",
    "exp_int", "inc_gamma", "inc_gamma_low", "inc_beta", "np.log2", "np.ceil",
}
TRANSPARENT_FUNCS = {"np.abs", "abs", "np.asarray", "np.array", "np.asanyarray", "np.atleast_1d", "np.double", "np.squeeze", "np.real", "np.copy", "float"}
SAME_UNIT_FUNCS = {"np.maximum", "np.minimum", "np.add", "np.subtract", "np.where"}
BOOL_FUNCS = {"np.isclose", "np.logical_not", "np.logical_and", "np.logical_or", "np.isfinite", "np.isnan", "np.all", "np.any"}
POLY_FUNCS = {"np.empty_like", "np.zeros_like", "np.empty", "np.zeros", "np.full_like"}


class Inference:
    def __init__(self, seeds, contracts, symbols):
        """seeds: {'self.len_scale': Unit, ...}; contracts: {callee text: (arg units list or None, result Unit)};
        symbols: {'self.dim': 'dim', 'self.nu': 'nu', ...} names usable inside exponents"""
        self.seeds = seeds
        self.contracts = contracts
        self.symbols = symbols
        self.problems = []

    # ---- exponent forms
    def expo(self, e, env):
        """Evaluate a dimensionless expression as a linear form over symbols (for use as an exponent)."""
        if isinstance(e, ast.Constant) and isinstance(e.value, (int, float)) and not isinstance(e.value, bool):
            return Lin.const(Fraction(e.value).limit_denominator(10 ** 6))
        t = ast.unparse(e)
        if t in self.symbols:
            return Lin.sym(self.symbols[t])
        if isinstance(e, ast.Name) and ("$exp:" + e.id) in env:
            return env["$exp:" + e.id]
        if isinstance(e, ast.UnaryOp) and isinstance(e.op, ast.USub):
            return -self.expo(e.operand, env)
        if isinstance(e, ast.BinOp):
            if isinstance(e.op, ast.Add):
                return self.expo(e.left, env) + self.expo(e.right, env)
            if isinstance(e.op, ast.Sub):
                return self.expo(e.left, env) - self.expo(e.right, env)
            if isinstance(e.op, ast.Mult):
                return self.expo(e.left, env).mul(self.expo(e.right, env))
            if isinstance(e.op, ast.Div):
                r = self.expo(e.right, env)
                if not r.is_const() or r.cval() == 0:
                    raise UnitError("division by symbolic exponent")
                return self.expo(e.left, env).scale(1 / r.cval())
        raise UnitError("exponent not a linear form: %s" % t)

    # ---- units of expressions
    def unify(self, a, b, what):
        if a is TOP or b is TOP:
            return TOP
        if a is ANY:
            return b
        if b is ANY:
            return a
        if not a.eq(b, self.dimenv):
            self.problems.append("%s: %r vs %r" % (what, a.subst(self.dimenv), b.subst(self.dimenv)))
            return TOP
        return a

    def need_one(self, u, what):
        if u is TOP:
            return
        if u is ANY:
            return
        if not u.subst(self.dimenv).is_one():
            self.problems.append("%s must be dimensionless, is %r" % (what, u.subst(self.dimenv)))

    def unit(self, e, env):
        if isinstance(e, ast.Constant):
            if isinstance(e.value, (int, float)) and not isinstance(e.value, bool) and e.value == 0:
                return ANY
            return ONE
        t = ast.unparse(e)
        if isinstance(e, ast.Attribute) and t in env:
            return env[t]
        if t in self.seeds:
            return self.seeds[t]
        if t in ("np.pi", "np.inf", "np.nan", "np.e"):
            return ANY if t in ("np.inf", "np.nan") else ONE
        if t in self.symbols:
            return ONE
        if isinstance(e, ast.Name):
            if ("$masks:" + e.id) in env and env["$masks:" + e.id]:
                u = env.get(e.id, ANY)
                for key, mu in env["$masks:" + e.id].items():
                    u = self.unify(u, mu, "regions of %s" % e.id)
                return u
            if e.id in env:
                return env[e.id]
            self.problems.append("unknown name %s" % e.id)
            return TOP
        if isinstance(e, ast.Attribute):
            if e.attr in ("T", "real"):
                return self.unit(e.value, env)
            self.problems.append("unknown attribute %s" % t)
            return TOP
        if isinstance(e, ast.Subscript):
            return self.unit(e.value, env)
        if isinstance(e, ast.UnaryOp):
            if isinstance(e.op, ast.Not):
                return ONE
            return self.unit(e.operand, env)
        if isinstance(e, ast.BinOp):
            if isinstance(e.op, (ast.Add, ast.Sub)):
                return self.unify(self.unit(e.left, env), self.unit(e.right, env), "operands of %s" % t[:60])
            a, b = self.unit(e.left, env), self.unit(e.right, env)
            if isinstance(e.op, ast.Pow):
                if a is TOP:
                    return TOP
                self.need_one(b, "exponent in %s" % t[:60])
                if a is ANY or a.is_one():
                    return ONE if a is not ANY else ANY
                try:
                    return a.pow(self.expo(e.right, env).subst(self.dimenv))
                except UnitError as ex:
                    self.problems.append("%s in %s" % (ex, t[:60]))
                    return TOP
            if a is TOP or b is TOP:
                return TOP
            if isinstance(e.op, ast.Mult):
                if a is ANY or b is ANY:
                    return ANY if (a is ANY and b is ANY) else (b if a is ANY else a)
                return a * b
            if isinstance(e.op, ast.Div):
                if a is ANY:
                    return ANY
                if b is ANY:
                    return a
                return a / b
            if isinstance(e.op, (ast.BitAnd, ast.BitOr)):
                return ONE
            self.problems.append("unsupported operator in %s" % t[:60])
            return TOP
        if isinstance(e, ast.Compare):
            u = self.unit(e.left, env)
            for c in e.comparators:
                u = self.unify(u, self.unit(c, env), "comparison %s" % t[:60])
            return ONE
        if isinstance(e, ast.BoolOp):
            for v in e.values:
                self.unit(v, env)
            return ONE
        if isinstance(e, ast.IfExp):
            return self.unify(self.unit(e.body, env), self.unit(e.orelse, env), "branches of %s" % t[:60])
        if isinstance(e, (ast.Tuple, ast.List)):
            u = ANY
            for x in e.elts:
                u = self.unify(u, self.unit(x, env), "elements of %s" % t[:60])
            return u
        if isinstance(e, ast.Call):
            return self.call(e, env)
        self.problems.append("unsupported expression %s" % t[:60])
        return TOP

    def call(self, e, env):
        fn = ast.unparse(e.func)
        t = ast.unparse(e)
        if fn in self.contracts:
            argu, res = self.contracts[fn]
            if argu is not None:
                for i, (a, want) in enumerate(zip(e.args, argu)):
                    if want is None:
                        continue
                    got = self.unit(a, env)
                    if want == "same":
                        continue
                    self.unify(got, want, "argument %d of %s" % (i + 1, fn))
                if "same" in argu:
                    idx = [i for i, w in enumerate(argu) if w == "same" and i < len(e.args)]
                    u = ANY
                    for i in idx:
                        u = self.unify(u, self.unit(e.args[i], env), "arguments of %s must share one unit" % fn)
            return res
        if fn in DIMLESS_FUNCS:
            for i, a in enumerate(e.args):
                self.need_one(self.unit(a, env), "argument %d of %s in %s" % (i + 1, fn, t[:50]))
            return ONE
        if fn == "np.sqrt":
            u = self.unit(e.args[0], env)
            if u in (TOP, ANY):
                return u
            return u.pow(Lin.const(Fraction(1, 2)))
        if fn == "np.power":
            return self.unit(ast.BinOp(e.args[0], ast.Pow(), e.args[1]), env)
        if fn in ("np.multiply",):
            return self.unit(ast.BinOp(e.args[0], ast.Mult(), e.args[1]), env)
        if fn in ("np.divide",):
            return self.unit(ast.BinOp(e.args[0], ast.Div(), e.args[1]), env)
        if fn in TRANSPARENT_FUNCS:
            return self.unit(e.args[0], env)
        if fn in SAME_UNIT_FUNCS:
            args = e.args[1:] if fn == "np.where" else e.args
            u = ANY
            for a in args:
                u = self.unify(u, self.unit(a, env), "arguments of %s in %s" % (fn, t[:50]))
            return u
        if fn in BOOL_FUNCS:
            us = [self.unit(a, env) for a in e.args]
            if fn == "np.isclose" and len(us) == 2:
                self.unify(us[0], us[1], "np.isclose operands in %s" % t[:50])
            return ONE
        if fn in POLY_FUNCS:
            return ANY
        if fn == "np.ones_like":
            return ONE
        if fn == "np.prod" and e.args:
            u = self.unit(e.args[0], env)
            if u in (TOP, ANY):
                return u
            return u.pow(Lin.sym("dim").subst(self.dimenv))
        if fn == "np.linalg.norm" and e.args:
            return self.unit(e.args[0], env)
        if fn == "np.insert" and len(e.args) == 3:
            return self.unify(self.unit(e.args[0], env), self.unit(e.args[2], env), "np.insert value")
        if isinstance(e.func, ast.Attribute) and e.func.attr in ("copy", "reshape", "ravel"):
            return self.unit(e.func.value, env)
        self.problems.append("unknown function %s" % fn)
        return TOP

    # ---- function bodies: every path through the if/elif structure is walked with its own dim refinement
    def run(self, fn, param_units, dimenv=None, sym_env=None):
        """Return ([(return-unit | None | TOP, branch description, dimenv)], problems). param_units: {name: Unit}."""
        self.dimenv = dict(dimenv or {})
        self.problems = []
        results = []
        env0 = dict(param_units)
        for k, v in (sym_env or {}).items():
            env0["$exp:" + k] = v

        def refine_of(tt):
            if isinstance(tt, ast.Compare) and len(tt.ops) == 1 and isinstance(tt.ops[0], ast.Eq) and isinstance(tt.comparators[0], ast.Constant):
                lt = ast.unparse(tt.left)
                if self.symbols.get(lt) == "dim":
                    return tt.comparators[0].value
            return None

        def copy_env(env):
            out = {}
            for k, v in env.items():
                out[k] = dict(v) if isinstance(v, dict) else v
            return out

        def walk(stmts, env, desc):
            for i, st in enumerate(stmts):
                if isinstance(st, ast.Expr) and isinstance(st.value, ast.Constant):
                    continue
                if isinstance(st, ast.If):
                    self.unit(st.test, env)
                    rest = stmts[i + 1:]
                    saved = dict(self.dimenv)
                    r = refine_of(st.test)
                    if r is not None:
                        self.dimenv["dim"] = r
                    if "dim" not in saved or r is None or saved.get("dim") == r:
                        walk(list(st.body) + rest, copy_env(env), desc + [ast.unparse(st.test)[:40]])
                    self.dimenv = dict(saved)
                    if not (r is not None and saved.get("dim") == r):
                        walk(list(st.orelse) + rest, copy_env(env), desc + ["not(%s)" % ast.unparse(st.test)[:40]])
                    self.dimenv = saved
                    return
                if isinstance(st, ast.Return):
                    if st.value is None or (isinstance(st.value, ast.Constant) and st.value.value is None):
                        results.append((None, desc, dict(self.dimenv)))
                    else:
                        u = self.unit(st.value, env)
                        if isinstance(st.value, ast.Name) and ("$masks:" + st.value.id) in env:
                            for key, mu in env["$masks:" + st.value.id].items():
                                u = self.unify(u, mu, "regions of %s" % st.value.id)
                        results.append((u, desc, dict(self.dimenv)))
                    return
                if isinstance(st, ast.Assign) and len(st.targets) == 1:
                    tg = st.targets[0]
                    u = self.unit(st.value, env)
                    if isinstance(tg, ast.Name):
                        env[tg.id] = u
                        env.pop("$masks:" + tg.id, None)
                        try:
                            if u is not TOP and u is not ANY and u.is_one():
                                env["$exp:" + tg.id] = self.expo(st.value, env)
                            else:
                                env.pop("$exp:" + tg.id, None)
                        except UnitError:
                            env.pop("$exp:" + tg.id, None)
                    elif isinstance(tg, ast.Subscript) and isinstance(tg.value, ast.Name):
                        nm = tg.value.id
                        masks = env.setdefault("$masks:" + nm, {})
                        masks[ast.unparse(tg.slice)] = u
                    elif isinstance(tg, ast.Attribute):
                        env[ast.unparse(tg)] = u
                    else:
                        self.problems.append("unsupported assignment target %s" % ast.unparse(tg))
                elif isinstance(st, ast.AugAssign):
                    tg = st.target
                    u = self.unit(st.value, env)
                    if isinstance(tg, ast.Subscript) and isinstance(tg.value, ast.Name):
                        masks = env.setdefault("$masks:" + tg.value.id, {})
                        key = ast.unparse(tg.slice)
                        cur = masks.get(key, ANY)
                    elif isinstance(tg, ast.Name):
                        cur = env.get(tg.id, ANY)
                    else:
                        self.problems.append("unsupported augmented target")
                        continue
                    if isinstance(st.op, (ast.Add, ast.Sub)):
                        new = self.unify(cur, u, "augmented %s" % ast.unparse(st)[:60])
                    elif cur is TOP or u is TOP:
                        new = TOP
                    elif u is ANY:
                        new = cur
                    elif cur is ANY:
                        new = ANY
                    elif isinstance(st.op, ast.Mult):
                        new = cur * u
                    elif isinstance(st.op, ast.Div):
                        new = cur / u
                    else:
                        new = TOP
                    if isinstance(tg, ast.Subscript):
                        masks[key] = new
                    else:
                        env[tg.id] = new
                elif isinstance(st, ast.For):
                    if isinstance(st.target, ast.Name):
                        env[st.target.id] = ONE
                    walk_inner(st.body, env)
                elif isinstance(st, ast.With):
                    walk(list(st.body) + stmts[i + 1:], env, desc)
                    return
                elif isinstance(st, (ast.Raise,)):
                    return
                elif isinstance(st, ast.Pass):
                    pass
                elif isinstance(st, ast.Expr):
                    self.unit(st.value, env)
                else:
                    self.problems.append("unsupported statement %s" % type(st).__name__)

        def walk_inner(stmts, env):
            for st in stmts:
                if isinstance(st, (ast.Assign, ast.AugAssign, ast.Expr)):
                    walk([st], env, [])
                else:
                    self.problems.append("unsupported statement in loop: %s" % type(st).__name__)

        walk(list(fn.body), env0, [])
        return results, list(self.problems)
