"""C06 Exactness and variance bounds: clamp dominance, exact-mode wiring, pseudo-inverse selection."""
import ast

from ..loader import AnalysisError, norm_stmt
from ..small import UnrollError, cond_defaults, return_cases

KB = "krige/base.py"
BASE = "covmodel/base.py"


def clamp(ctx, rule="R06.1"):
    prog = ctx.prog
    call = prog.func(KB, "Krige.__call__")
    site = KB + "::Krige.__call__"
    # def-use chain of `krige_var` in statement order
    defs = []
    for st in sorted((x for x in ast.walk(call) if isinstance(x, ast.Assign)), key=lambda x: x._ord):
        for t in st.targets:
            if isinstance(t, ast.Name) and t.id == "krige_var":
                defs.append(st)
    if len(defs) < 2:
        raise AnalysisError("anchor vanished: krige_var definitions in Krige.__call__")
    rets = [s for s in ast.walk(call) if isinstance(s, ast.Return) and isinstance(s.value, ast.Tuple)]
    if len(rets) != 1:
        raise AnalysisError("anchor vanished: `return field, krige_var`")
    # every definition reaching the return/store after the kernel loop must be the clamped one or derived from it
    clamp_defs = []
    for d in defs:
        v = d.value
        for n in ast.walk(v):
            if isinstance(n, ast.Call) and ast.unparse(n.func) == "np.maximum" and len(n.args) == 2:
                a0, a1 = n.args
                if isinstance(a0, ast.BinOp) and isinstance(a0.op, ast.Sub) and ast.unparse(a0.left) == "self.model.sill" and ast.unparse(a0.right) == "krige_var" and ast.unparse(a1) in ("0", "0.0"):
                    clamp_defs.append(d)
    ctx.check(len(clamp_defs) == 1, rule, site, "the kriging variance is computed as max(sill - k^T K^-1 k, 0) (kernel's second output subtracted from the model sill, clipped at 0)", "clamp")
    if clamp_defs:
        cl = clamp_defs[0]
        SHAPE_OPS = ("np.reshape", "self.post_field", "np.asarray", "np.ascontiguousarray")
        state = None  # None: raw kernel output; True: clamped
        stored_ok = True
        pf = []
        for d in defs:
            v = d.value
            if d is cl:
                state = True
            elif "np.empty(" in ast.unparse(v) or ast.unparse(v) == "None":
                state = None
            elif isinstance(v, ast.Call) and ast.unparse(v.func) in SHAPE_OPS and v.args and ast.unparse(v.args[0]) == "krige_var":
                if ast.unparse(v.func) == "self.post_field":
                    pf.append(d)
                    stored_ok = stored_ok and state is True
            else:
                state = False
        # a store through post_field without re-binding
        for n in ast.walk(call):
            if isinstance(n, ast.Expr) and isinstance(n.value, ast.Call) and ast.unparse(n.value.func) == "self.post_field" and any("krige_var" in ast.unparse(a) for a in n.value.args):
                pf.append(n)
                stored_ok = stored_ok and n._ord > cl._ord and "np.maximum" not in ast.unparse(n.value) and False
        ctx.check(state is True and stored_ok and rets[0]._ord > cl._ord, rule, site,
                  "every value stored or returned as kriging variance is the clamped one (after the clamp only shape-preserving operations follow)", "dominates")
        ok = len(pf) == 1 and isinstance(pf[0], ast.Assign) and [ast.unparse(a) for a in pf[0].value.args[1:]] == ["name[1]", "False", "save[1]"]
        ctx.check(ok, rule, site, "the stored variance is not post-processed (no mean/normalizer/trend applied to a variance)", "store-raw")
        guard = [s for s in call.body if isinstance(s, ast.If) and ast.unparse(s.test) == "return_var" and any(x is cl for x in ast.walk(s))]
        ctx.check(len(guard) == 1, rule, site, "clamp and return happen under `return_var`", "guard")
    ctx.check(ast.unparse(rets[0].value) in ("(field, krige_var)", "field, krige_var"), rule, site, "returns (field, variance)", "return")
    aug = [s for s in call.body if isinstance(s, ast.AugAssign) and ast.unparse(s.target) == "return_var"]
    ctx.check(len(aug) == 1 and norm_stmt(aug[0]) == "return_var &= not only_mean", rule, site, "no variance for mean-only estimation", "only-mean")
    # the kernel's second output is k^T K^-1 k (checked in C05 R05.5); sill = var + nugget (C14 R14.4)
    sill = ctx.prog.cls(BASE, "CovModel").getters["sill"]
    ctx.check([ast.unparse(s.value) for s in sill.body if isinstance(s, ast.Return)] == ["self.var + self.nugget"], rule, BASE + "::CovModel.sill", "sill = var + nugget", "sill")


def exact_mode(ctx, rule="R06.2"):
    prog = ctx.prog
    vec = prog.func(KB, "Krige._get_krige_vecs")
    cf = [n for n in ast.walk(vec) if isinstance(n, ast.Assign) and ast.unparse(n.targets[0]) == "cf"]
    ok = len(cf) == 1 and ast.unparse(cf[0].value) == "self.model.cov_nugget if self.exact else self.model.covariance"
    ctx.check(ok, rule, KB + "::Krige._get_krige_vecs", "the nugget-aware covariance (sill at zero lag) is used iff the interpolator is exact", "cf")
    cm = prog.cls(KB, "Krige")
    st = cm.setters["cond_err"]
    ifs = [s for s in st.body if isinstance(s, ast.If)]
    ok = len(ifs) == 1 and ast.unparse(ifs[0].test) == "isinstance(value, str) and value == 'nugget'" and [norm_stmt(x) for x in ifs[0].body] == ["self._cond_err = value"]
    if ok:
        els = ifs[0].orelse
        ok = isinstance(els[0], ast.If) and ast.unparse(els[0].test) == "self.exact" and any(isinstance(x, ast.Raise) for x in els[0].body)
    ctx.check(ok, rule, KB + "::Krige.cond_err@set", "explicit measurement errors are refused when the interpolator is exact; 'nugget' keeps the symbolic default", "setter")
    g = cm.getters["cond_err"]
    body = [norm_stmt(s) for s in g.body if not (isinstance(s, ast.Expr) and isinstance(s.value, ast.Constant))]
    ok = body == ["if isinstance(self._cond_err, str) and self._cond_err == 'nugget': return self.model.nugget", "return self._cond_err"]
    ctx.check(ok, rule, KB + "::Krige.cond_err", "the default measurement error resolves to the model's current nugget at use time", "getter")
    sc = cm.methods["set_condition"]
    txt = [norm_stmt(s) for s in sc.body]
    ok = ("cond_err is None", "'nugget'") in [(t, ast.unparse(v)) for t, v in cond_defaults(sc.body, "cond_err")] and "self.cond_err = cond_err" in txt
    ctx.check(ok, rule, KB + "::Krige.set_condition", "missing cond_err defaults to 'nugget' and goes through the validating setter", "default")
    ex = cm.getters["exact"]
    init = cm.methods["__init__"]
    ok = [ast.unparse(s.value) for s in ex.body if isinstance(s, ast.Return)] == ["self._exact"] and any(norm_stmt(s) == "self._exact = bool(exact)" for s in init.body) and "exact" not in cm.setters
    ctx.check(ok, rule, KB + "::Krige.exact", "exactness is fixed at construction (no setter): matrix and right-hand sides cannot disagree about it", "immutable")
    # nugget-aware functions: exact constant at zero lag
    bc = prog.cls(BASE, "CovModel")
    for name, base, const in (("cov_nugget", "self.covariance", "self.sill"), ("vario_nugget", "self.variogram", "0.0")):
        fn = bc.methods[name]
        st = [norm_stmt(s) for s in fn.body if isinstance(s, ast.Assign)]
        ok = ("r_gz = np.logical_not(np.isclose(r, 0))" in st and "res[r_gz] = %s(r[r_gz])" % base in st and "res[np.logical_not(r_gz)] = %s" % const in st)
        ctx.check(ok, rule, "%s::CovModel.%s" % (BASE, name), "%s equals %s away from zero lag and exactly %s at zero lag" % (name, base[5:], const), "nugget-" + name)


def pinv(ctx, rule="R06.3"):
    prog = ctx.prog
    mod = prog.mod(KB)
    pi = mod.assigns.get("P_INV")
    keys = sorted(k.value for k in pi.keys) if isinstance(pi, ast.Dict) else None
    vals = sorted(ast.unparse(v) for v in pi.values) if isinstance(pi, ast.Dict) else None
    ctx.check(keys == ["pinv", "pinvh"] and vals == ["spl.pinv", "spl.pinvh"], "R06.3", KB + "::P_INV", "registry of pseudo-inverse routines: %s -> %s" % (keys, vals), "registry")
    cm = prog.cls(KB, "Krige")
    st = cm.setters["pseudo_inv_type"]
    first = st.body[0]
    ok = isinstance(first, ast.If) and ast.unparse(first.test) == "val not in P_INV and (not callable(val))" and any(isinstance(x, ast.Raise) for x in first.body)
    ctx.check(ok, rule, KB + "::Krige.pseudo_inv_type@set", "the type must be a registry key or a callable", "validate")
    inv = cm.methods["_inv"]
    try:
        table = return_cases(inv)
    except UnrollError as e:
        raise AnalysisError("Krige._inv is no longer a decision table: %s" % e)
    want = [(frozenset(["self.pseudo_inv", "callable(self.pseudo_inv_type)"]), "self.pseudo_inv_type(mat)"),
            (frozenset(["self.pseudo_inv", "not callable(self.pseudo_inv_type)"]), "P_INV[self.pseudo_inv_type](mat)"),
            (frozenset(["not self.pseudo_inv"]), "spl.inv(mat)")]
    ok = sorted(table, key=lambda x: x[1]) == sorted(want, key=lambda x: x[1])
    ctx.check(ok, rule, KB + "::Krige._inv", "callable -> call it; registry key -> registry routine; pseudo_inv off -> plain inverse (exhaustive)", "inv")
    ctx.check(mod.imports.get("spl") == "scipy.linalg", rule, KB, "spl is scipy.linalg", "spl")


def run(ctx):
    from .C14 import no_shared_fields

    # exactness is stated for the conditioning data the matrix was built from: they must be the object's own copy (shared with C05)
    no_shared_fields(ctx, "R06.10", "krige/base.py", "Krige", {"_cond_pos", "_cond_val"}, floor=2)
    from . import C15_kernels as _K

    _K.accumulator_reset(ctx, rule="R06.9")  # variance sum kernel: same loop-shape obligations as C15 / C05
    _K.accumulator_complete(ctx, rule="R06.9")
    _K.build_independent(ctx, rule="R06.9")
    _K.kernel_shape(ctx, rule="R06.9")
    _K.full_extent(ctx, rule="R06.9")
    _K.zero_init(ctx, rule="R06.9")
    from .C05 import kernel_sums

    kernel_sums(ctx, rule="R06.9")  # the variance at a data point vanishes only if error[k] is the quadratic form v_k^T M v_k
    from . import C15_bounds
    from .C15 import inputs_not_written

    C15_bounds.run(ctx, rule="R06.9", files=("krige/krigesum.pyx",), floor=10)
    inputs_not_written(ctx, rule="R06.9", files=("krige/krigesum.pyx",))
    _K.double_precision(ctx, rule="R06.9")  # single-precision accumulators / phases lose the exactness the property states
    _K.branch_free_krige_sums(ctx, rule="R06.9")
    from .C12 import swap_lint
    from .C18 import mirror_pipelines

    mirror_pipelines(ctx, rule="R06.7")  # conditions are transformed by the exact inverse of what post_field applies, else data are not honoured (shared with C18)
    swap_lint(ctx, rule="R06.8")  # swapped same-typed arguments (mean / trend ...) at in-package call sites (shared with C12)
    from .C05 import covariance_family, krige_state, layout, symmetric

    # exactness at the data needs the whole system to be the kriging system of the current model: assembly and derived state (shared with C05)
    layout(ctx, rule="R06.5")
    symmetric(ctx, rule="R06.5")
    covariance_family(ctx, rule="R06.5")
    krige_state(ctx, rule="R06.6")
    clamp(ctx)
    exact_mode(ctx)
    pinv(ctx)
    return (
        "Decides the structural clauses of C06: (R06.1) every kriging variance returned or stored is max(sill - k^T K^-1 k, 0): the clamp dominates all exits, so the variance is never negative; "
        "(R06.2) exact mode is wired consistently (nugget-aware covariance on the right-hand side iff exact, explicit errors refused, default error = model nugget, exactness immutable, sill / 0 written exactly at zero lag); "
        "(R06.3) pseudo-inverse selection is validated and exhaustive. NOT decided: interpolation exactness as a value, the sill upper bound, duplicate-point averaging."
    )
