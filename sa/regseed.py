"""Register confirmed seeded changes: python3 -m sa.regseed <dir with patch.diff/demo.py/meta.json> <name> [--first]
Copies to /verif/seeded/<name>/ and (re)computes meta.json:caught_by by running every claimed check on the patched tree in memory."""
import json
import multiprocessing as mp
import os
import shutil
import sys

from . import core
from .trydiff import _one

PROPS = ["C%02d" % i for i in range(2, 21)]


def caught_by(patch):
    with mp.get_context("fork").Pool(16) as pool:
        base = {p: k for p, _, _, k in pool.map(_one, [(p, None, None) for p in PROPS])}
        res = pool.map(_one, [(p, patch, base) for p in PROPS])
    out = {}
    for p, _, st, items in res:
        viol = [i for i in items if not i.startswith(("UNDECIDED", "floor"))]
        if st == "OK" and viol:
            out[p] = sorted({v.split("::")[0] for v in viol})
    return out


def main():
    args = [a for a in sys.argv[1:] if not a.startswith("--")]
    first = "--first" in sys.argv
    if len(args) == 2:
        src, name = args
        dst = os.path.join(core.VERIF, "seeded", name)
        os.makedirs(dst, exist_ok=True)
        for f in ("patch.diff", "demo.py", "meta.json"):
            if os.path.abspath(src) != os.path.abspath(dst):
                shutil.copy(os.path.join(src, f), os.path.join(dst, f))
    else:
        name = args[0]
        dst = os.path.join(core.VERIF, "seeded", name)
    mp_ = os.path.join(dst, "meta.json")
    meta = json.load(open(mp_))
    cb = caught_by(os.path.join(dst, "patch.diff"))
    meta["caught_by"] = sorted(cb)
    meta["caught_by_rules"] = cb
    meta.setdefault("confirmed", "fresh clone of /repo HEAD: demo.py exits 0 without and non-zero with the patch; pytest tests -> 120 passed with the patch (seeded/confirm2.sh)")
    if first:
        meta["caught_on_first_run"] = sorted(cb)
    json.dump(meta, open(mp_, "w"), indent=1)
    print(name, "caught_by", cb)


if __name__ == "__main__":
    main()
