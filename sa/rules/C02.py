"""C02 Positive semi-definiteness where validity is claimed: dimension gate, validity tables, Yadrenko routing."""
import ast
import math

from .. import paths
from ..loader import AnalysisError, norm_stmt
from ..small import FoldError, cond_defaults, fold

BASE = "covmodel/base.py"
TOOLS = "covmodel/tools.py"
INF = float("inf")

# literature validity of the dimension (docstrings of the classes; Chiles & Delfiner): set of valid dims within 1..5
VALID_DIMS = {"Linear": {1}, "Circular": {1, 2}, "Spherical": {1, 2, 3}}
# literature validity interval of shape parameters as a function of dim: (lo, lo_closed, hi, hi_closed)
# the declared bound interval must be CONTAINED in it for every dim (tightening is fine, loosening is not)
VALID_ARGS = {
    ("Stable", "alpha"): lambda d: (0.0, False, 2.0, True),  # stable correlation is p.d. iff 0 < alpha <= 2
    ("TPLStable", "alpha"): lambda d: (0.0, False, 2.0, True),
    ("Matern", "nu"): lambda d: (0.0, False, INF, False),
    ("Integral", "nu"): lambda d: (0.0, False, INF, False),
    ("Rational", "alpha"): lambda d: (0.0, False, INF, False),
    ("SuperSpherical", "nu"): lambda d: ((d - 1) / 2.0, True, INF, False),  # Matern 1960
    ("JBessel", "nu"): lambda d: (d / 2.0 - 1.0, True, INF, False),
    ("TPLSimple", "nu"): lambda d: ((d + 1) / 2.0, True, INF, False),  # Wendland 1995
    ("TPLGaussian", "hurst"): lambda d: (0.0, False, 1.0, False),
    ("TPLExponential", "hurst"): lambda d: (0.0, False, 1.0, False),
    ("TPLStable", "hurst"): lambda d: (0.0, False, 1.0, False),
    ("TPLGaussian", "len_low"): lambda d: (0.0, True, INF, False),
    ("TPLExponential", "len_low"): lambda d: (0.0, True, INF, False),
    ("TPLStable", "len_low"): lambda d: (0.0, True, INF, False),
}


def dimension_gate(ctx, rule="R02.1"):
    prog = ctx.prog
    cm = prog.cls(BASE, "CovModel")
    tools = prog.mod(TOOLS)
    sd = prog.func(TOOLS, "set_dim")
    ex = paths.Explorer(prog, cm, extra_self_funcs={"set_dim": (tools, sd)}, inline_filter=lambda q: False)
    res = ex.explore(sd, "set_dim")
    normal = [p for p, k in res if k == "normal"]
    n_bad_nocheck = n_bad_nowarn = 0
    for p in normal:
        evs = p.events
        w = [i for i, e in enumerate(evs) if e[0] == "write" and e[1] == "_dim"]
        c = [i for i, e in enumerate(evs) if e[0] == "call" and e[1] == "self.check_dim"]
        if not w:
            continue
        if not c or c[-1] > w[0]:
            n_bad_nocheck += 1
            continue
        decided = [(t, r) for t, r in p.decisions if "check_dim" in t]
        if not decided:
            n_bad_nowarn += 1  # the verdict of check_dim is ignored
            continue
        invalid = any((r and t.startswith("not ")) or (not r and not t.startswith("not ")) for t, r in decided)
        if invalid:
            warned = [i for i, e in enumerate(evs) if e[0] == "call" and e[1] == "warnings.warn" and c[-1] < i < w[0] and "AttributeWarning" in e[3]]
            if not warned:
                n_bad_nowarn += 1
    site = TOOLS + "::set_dim"
    ctx.check(n_bad_nocheck == 0 and normal, rule, site, "on all %d normal-exit paths the dimension is validated by check_dim before it is stored" % len(normal), "check-before-store")
    ctx.check(n_bad_nowarn == 0, rule, site, "whenever check_dim rejects the dimension an AttributeWarning is issued before the store", "warn-if-invalid")
    ctx.floor(rule, "paths through set_dim", len(res), 6)
    # the checked value is the stored value: no reassignment of `dim` between check and store; store is int(dim)
    idx_check = idx_store = None
    reassigned_after = False
    check_args = []
    for i, st in enumerate(sd.body):
        for n in ast.walk(st):
            if isinstance(n, ast.Call) and isinstance(n.func, ast.Attribute) and n.func.attr == "check_dim":
                idx_check = i
                check_args.append(ast.unparse(n.args[0]) if len(n.args) == 1 and not n.keywords else ast.unparse(n))
        if norm_stmt(st).startswith("model._dim = "):
            idx_store = i
            store_txt = norm_stmt(st)
    if idx_check is None or idx_store is None:
        raise AnalysisError("anchor vanished: check_dim call / _dim store in set_dim")
    # the model works in `dim` dimensions (for metric spatio-temporal models time is one more Euclidean axis): that is the number to validate
    ctx.check(check_args == ["dim"], rule, site, "check_dim validates exactly the dimension that is stored and used (argument: %s)" % check_args, "checked-value")
    for st in sd.body[idx_check:idx_store]:
        for n in ast.walk(st):
            if isinstance(n, ast.Assign) and any(isinstance(t, ast.Name) and t.id == "dim" for t in n.targets):
                reassigned_after = True
    ctx.check(idx_check < idx_store and not reassigned_after and store_txt == "model._dim = int(dim)", rule, site, "the validated value is the value stored (model._dim = int(dim), no reassignment in between)", "same-value")
    guard = [s for s in sd.body if isinstance(s, ast.If) and ast.unparse(s.test) == "dim < 1" and any(isinstance(x, ast.Raise) for x in s.body)]
    ctx.check(len(guard) == 1 and sd.body.index(guard[0]) < idx_store, rule, site, "dim < 1 raises before anything is stored", "dim-ge-1")
    # nobody else stores _dim
    others = []
    for m, q, f, ci, kind in prog.all_functions():
        if f is sd or m.relpath.endswith("plot.py"):
            continue
        for n in ast.walk(f):
            if isinstance(n, ast.Attribute) and n.attr == "_dim" and isinstance(n.ctx, ast.Store) and ci is not None and ci.is_subclass_of(cm):
                if not (q == "CovModel.__init__" and isinstance(getattr(n, "_parent", None), object)):
                    others.append("%s::%s" % (m.relpath, q))
    others = [o for o in others if not o.endswith("CovModel.__init__")]
    ctx.check(not others, rule, BASE, "set_dim is the only writer of a model's dimension (besides the None initialiser): %s" % others, "single-writer")
    ds = prog.func(BASE, "CovModel.dim@set")
    ctx.check([norm_stmt(s) for s in ds.body if not isinstance(getattr(s, "value", None), ast.Constant)] == ["set_dim(self, dim)"], rule, BASE + "::CovModel.dim@set", "the dim setter goes through set_dim", "setter")


def shipped_classes(prog):
    cm = prog.cls(BASE, "CovModel")
    return cm, [c for c in prog.subclasses(cm) if c.module.relpath in ("covmodel/models.py", "covmodel/tpl_models.py") and c.name != "TPLCovModel"]


def _ret_expr(fn):
    rets = [s for s in fn.body if isinstance(s, ast.Return)]
    if len(rets) != 1:
        raise FoldError("not a single-return function")
    return rets[0].value


def validity_tables(ctx, rule="R02.2"):
    prog = ctx.prog
    cm, classes = shipped_classes(prog)
    ctx.floor(rule, "shipped model classes", len(classes), 17)
    for ci in classes:
        site = "%s::%s" % (ci.module.relpath, ci.name)
        owner, cd = ci.find("check_dim", "methods")
        try:
            valid = {d for d in range(1, 6) if fold(_ret_expr(cd), {"dim": d})}
        except FoldError as e:
            ctx.undecided(rule, site, "cannot fold check_dim: %s" % e)
            continue
        want = VALID_DIMS.get(ci.name, {1, 2, 3, 4, 5})
        ctx.check(valid <= want, rule, site + ".check_dim", "dimensions accepted without warning %s are within the model's validity %s (dims 1-5)" % (sorted(valid), sorted(want)), "dims")
        if valid != want:
            ctx.note(rule, "%s.check_dim is stricter than the literature validity: %s vs %s" % (ci.name, sorted(valid), sorted(want)))
        # optional-argument bounds
        ob, bfn = ci.find("default_opt_arg_bounds", "methods")
        od, dfn = ci.find("default_opt_arg", "methods")
        if ob is cm:
            continue
        for d in (1, 2, 3, 4):
            env = {"self.dim": d, "np.inf": INF}
            try:
                bounds = _fold_dict(_ret_expr(bfn), env)
                defaults = _fold_dict(_ret_expr(dfn), env) if od is not cm else None
            except FoldError as e:
                ctx.undecided(rule, site, "cannot fold optional-argument bounds at dim=%d: %s" % (d, e))
                break
            for arg, b in bounds.items():
                lo, hi = b[0], b[1]
                typ = b[2] if len(b) > 2 else "cc"
                key = (ci.name, arg)
                if key not in VALID_ARGS:
                    ctx.undecided(rule, site, "no literature validity recorded for %s.%s" % key)
                    continue
                vlo, vloc, vhi, vhic = VALID_ARGS[key](d)
                ok_lo = lo > vlo or (lo == vlo and (vloc or typ[0] == "o"))
                ok_hi = hi < vhi or (hi == vhi and (vhic or typ[1] == "o"))
                ctx.check(ok_lo and ok_hi, rule, site + ".default_opt_arg_bounds",
                          "dim=%d: declared bounds %s%g, %g%s of `%s` lie inside the validity interval %s%g, %g%s" % (d, "[" if typ[0] == "c" else "(", lo, hi, "]" if typ[1] == "c" else ")", arg, "[" if vloc else "(", vlo, vhi, "]" if vhic else ")"),
                          "bounds:%s:%d" % (arg, d))
                if defaults is not None and arg in defaults:
                    v = defaults[arg]
                    inside = (v > lo or (v == lo and typ[0] == "c")) and (v < hi or (v == hi and typ[1] == "c"))
                    ctx.check(inside, rule, site + ".default_opt_arg", "dim=%d: default %s=%g lies inside its declared bounds" % (d, arg, v), "default:%s:%d" % (arg, d))
            if defaults is not None:
                ctx.check(set(defaults) == set(bounds), rule, site, "dim=%d: every optional argument has a default and bounds (%s)" % (d, sorted(bounds)), "keys:%d" % d)


def _fold_dict(e, env):
    if not isinstance(e, ast.Dict):
        raise FoldError("not a dict literal")
    out = {}
    for k, v in zip(e.keys, e.values):
        out[k.value] = fold(v, env)
    return out


def yadrenko(ctx, rule="R02.3"):
    prog = ctx.prog
    for name, base in (("vario_yadrenko", "variogram"), ("cov_yadrenko", "covariance"), ("cor_yadrenko", "correlation")):
        fn = prog.func(BASE, "CovModel." + name)
        rets = [ast.unparse(s.value) for s in fn.body if isinstance(s, ast.Return)]
        ctx.check(rets == ["self.%s(great_circle_to_chordal(zeta, self.geo_scale))" % base], rule, "%s::CovModel.%s" % (BASE, name),
                  "great-circle lag is replaced by the chordal distance on the sphere of radius geo_scale before the isotropic %s is evaluated" % base, "chordal")
    # lat-lon models are 3-D (+time) internally: forced in set_dim
    sd = prog.func(TOOLS, "set_dim")
    forced = [(t, ast.unparse(v)) for t, v in cond_defaults(sd.body, "dim")]
    ctx.check(("model.latlon", "3 + int(model.temporal)") in forced, rule, TOOLS + "::set_dim", "lat-lon models are validated and used in 3 (+1) dimensions (Yadrenko construction)", "latlon-dim")
    # derived correlation uses |r|
    isub = prog.func(TOOLS, "_init_subclass")
    inner = {n.name: n for n in ast.walk(isub) if isinstance(n, ast.FunctionDef) and n is not isub}
    ok = "correlation_from_cor" in inner and any("np.abs(r)" in ast.unparse(s) for s in inner["correlation_from_cor"].body)
    ctx.check(ok, rule, TOOLS + "::_init_subclass", "the derived correlation evaluates cor at |r| / len_rescaled", "abs-lag")


def run(ctx):
    from .C03 import dimension_attribute

    dimension_attribute(ctx, rule="R02.9")  # validity is claimed for `dim`; a formula written for another dimension attribute is a different (possibly invalid) function for lat-lon models
    from .C14 import no_subclass_caches

    no_subclass_caches(ctx, rule="R02.8")  # a normalising constant cached on a model instance outlives the shape parameter it was computed for (shared with C14)
    from .C03 import rounding_consistency

    rounding_consistency(ctx, rule="R02.7")  # the order of the exponential integral must be rounded, not truncated: E_{n-1} instead of E_n gives |cor| > 1 (shared with C03)
    from .C13 import pair_agreement

    pair_agreement(ctx, rule="R02.6")  # the Yadrenko construction needs the exact great-circle -> chord map on the whole sphere: shared with C13
    from .C03 import gamma_recurrence

    gamma_recurrence(ctx, rule="R02.5")
    dimension_gate(ctx)
    validity_tables(ctx)
    yadrenko(ctx)
    from .C03 import tpl_weights

    tpl_weights(ctx, rule="R02.4")

    return (
        "Decides the structural clauses of C02: (R02.1) on every path of set_dim the final dimension is validated by check_dim before it is stored and a rejection produces an AttributeWarning; "
        "(R02.2) check_dim of every shipped class, folded over dim 1-5, accepts only dimensions in which the model is valid, and the declared bounds of every shape parameter, folded at dim 1-4, lie "
        "inside the literature validity interval (frozen value table; compared by value so any rewrite keeping or tightening validity is silent), defaults inside bounds; (R02.3) Yadrenko variants "
        "route the lag through the chordal distance; (R02.4) the truncated-power-law models are one superposition with weights len**(2 hurst) at all six sites (a validity-preserving mixture). NOT decided: non-negativity of the spectra themselves (analysis), |rho| <= 1."
    )
