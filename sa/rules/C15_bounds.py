"""R15.4: every kernel index is inside its array under the wrapper contract (boundscheck=False)."""
from .. import bounds
from ..loader import AnalysisError

# Wrapper contract, frozen by reading the Python call sites (DESIGN section 4, C15 / R15.4).
# Equalities the kernels check at run time themselves (pos.shape[1] != f.shape[1] -> raise) are derived, not listed.
CONTRACT = {
    "field/summator.pyx": {
        "summate": dict(eq=[("cov_samples.shape[0]", "pos.shape[0]"), ("z_1.shape[0]", "cov_samples.shape[1]"), ("z_2.shape[0]", "cov_samples.shape[1]")]),
        "summate_incompr": dict(
            eq=[("cov_samples.shape[0]", "pos.shape[0]"), ("z_1.shape[0]", "cov_samples.shape[1]"), ("z_2.shape[0]", "cov_samples.shape[1]")],
            lb={"pos.shape[0]": 1},  # IncomprRandMeth.__init__ raises unless dim in {2, 3}
        ),
        "summate_fourier": dict(eq=[("modes.shape[0]", "pos.shape[0]"), ("z_1.shape[0]", "modes.shape[1]"), ("z_2.shape[0]", "modes.shape[1]"), ("spectrum_factor.shape[0]", "modes.shape[1]")]),
    },
    "krige/krigesum.pyx": {
        "calc_field_krige": dict(eq=[("krig_mat.shape[1]", "krig_mat.shape[0]"), ("krig_vecs.shape[0]", "krig_mat.shape[0]"), ("cond.shape[0]", "krig_mat.shape[0]")]),
        "calc_field_krige_and_variance": dict(eq=[("krig_mat.shape[1]", "krig_mat.shape[0]"), ("krig_vecs.shape[0]", "krig_mat.shape[0]"), ("cond.shape[0]", "krig_mat.shape[0]")]),
    },
    "variogram/estimator.pyx": {
        "directional": dict(eq=[("direction.shape[1]", "pos.shape[0]")]),
        "unstructured": dict(),
        "structured": dict(),
        "ma_structured": dict(eq=[("mask.shape[0]", "f.shape[0]"), ("mask.shape[1]", "f.shape[1]")]),
    },
}


def run(ctx, rule="R15.4", files=None, floor=100):
    """files: restrict to these kernel modules (the properties whose sums a kernel carries share the rule for that kernel only)"""
    total = 0
    for rel, contract in CONTRACT.items():
        if files is not None and rel not in files:
            continue
        mod = ctx.prog.mod(rel)
        try:
            total += bounds.analyse_module(mod, contract, ctx, rule, rel)
        except AnalysisError as e:
            # a loop bound the interval evaluation cannot follow: this obligation is undecided (fail-closed), the other rules still run
            ctx.undecided(rule, rel, "index-in-bounds not decidable: %s" % str(e)[:150])
            total += floor
    ctx.floor(rule, "index-in-bounds obligations", total, floor)
    return total
