K = "krige/base.py"
S = "krige/krigesum.pyx"
M = "krige/methods.py"
CASES = [
    dict(name="drop-mirror-unbias", file=K, expect="R05.2", old="            res[self.cond_no, : self.cond_no] = 1\n            res[: self.cond_no, self.cond_no] = 1", new="            res[self.cond_no, : self.cond_no] = 1"),
    dict(name="drop-mirror-drift", file=K, expect="R05.2", old="            res[-self.drift_no + i, : self.cond_no] = drift_tmp\n            res[: self.cond_no, -self.drift_no + i] = drift_tmp", new="            res[-self.drift_no + i, : self.cond_no] = drift_tmp"),
    dict(name="ext-drift-no-transpose", file=K, expect="R05.2", old="            res[: self.cond_no, ext_size:] = self.cond_ext_drift.T", new="            res[: self.cond_no, ext_size:] = self.cond_ext_drift"),
    dict(name="zero-block-missing", file=K, expect="R05.2", old="        # set lower right part of the matrix to 0\n        res[self.cond_no :, self.cond_no :] = 0\n", new=""),
    dict(name="twin-zero-block-also-first", kind="twin", file=K,
         old="""        # fill the kriging matrix with the covariance
        res[: self.cond_no, : self.cond_no] = self.model.covariance(""",
         new="""        res[self.cond_no :, self.cond_no :] = 1
        # fill the kriging matrix with the covariance
        res[: self.cond_no, : self.cond_no] = self.model.covariance("""),
    dict(name="error-on-full-diagonal", file=K, expect="R05.2", old="        res[np.diag_indices(self.cond_no)] += self.cond_err", new="        res[np.diag_indices(self.krige_size)] += self.cond_err"),
    dict(name="drift-row-off-by-one-rhs", file=K, expect="R05.1", old="            res[-self.drift_no + i, :] = f(*chunk_pos)", new="            res[-self.drift_no + i + 1, :] = f(*chunk_pos)"),
    dict(name="unbias-row-unconditional-rhs", file=K, expect="R05.1", old="        if self.unbiased:\n            res[self.cond_no, :] = 1\n        # drift function need", new="        if True:\n            res[self.cond_no, :] = 1\n        # drift function need"),
    dict(name="ext-size-differs", file=K, expect="R05.1", old="            ext_size = self.krige_size - self.ext_drift_no\n            res[ext_size:, :] = ext_drift[:, slice(*chunk_slice)]", new="            ext_size = self.cond_no + self.int_drift_no\n            res[ext_size:, :] = ext_drift[:, slice(*chunk_slice)]"),
    dict(name="krige-size-forgets-unbiased", file=K, expect="R05.1", old="        return self.cond_no + self.drift_no + int(self.unbiased)", new="        return self.cond_no + self.drift_no"),
    dict(name="cond-pad-wrong", file=K, expect="R05.1", old="        pad_size = self.drift_no + int(self.unbiased)", new="        pad_size = self.drift_no"),
    dict(name="mean-rhs-wrong-slot", file=K, expect="R05.1", old="            mean_est = np.concatenate((np.full_like(self.cond_val, 0.0), [1]))", new="            mean_est = np.concatenate(([1], np.full_like(self.cond_val, 0.0)))"),
    dict(name="only-mean-rows-unset", file=K, expect="R05.1", old="            # set points to limit of the covariance to only get the mean\n            res[: self.cond_no, :] = 0", new="            pass"),
    dict(name="lhs-variogram", file=K, expect="R05.3", old="        res[: self.cond_no, : self.cond_no] = self.model.covariance(", new="        res[: self.cond_no, : self.cond_no] = self.model.variogram("),
    dict(name="rhs-correlation", file=K, expect=["R05.3", "R06.2"], old="            cf = self.model.cov_nugget if self.exact else self.model.covariance", new="            cf = self.model.cov_nugget if self.exact else self.model.correlation"),
    dict(name="dists-transposed-slice", file=K, expect="R05.3", old="        return cdist(pos1.T, pos2.T[slice(*pos2_slice), ...])", new="        return cdist(pos1.T, pos2.T)"),
    dict(name="rhs-drift-at-cond-pos", file=K, expect=["R05.3", "R05.4"], old="            res[-self.drift_no + i, :] = f(*chunk_pos)", new="            res[-self.drift_no + i, :] = f(*self.cond_pos)"),
    dict(name="rhs-dists-raw-pos", file=K, expect="R05.4", old="                self._get_dists(self._krige_pos, pos, chunk_slice)", new="                self._get_dists(self.cond_pos, pos, chunk_slice)"),
    dict(name="chunk-overlap", file=K, expect="R05.5", old="                    min(pnt_cnt, (i + 1) * chunk_size),", new="                    min(pnt_cnt, (i + 1) * chunk_size + 1),"),
    dict(name="chunk-count-floor", file=K, expect="R05.5", old="            chunk_no = int(np.ceil(pnt_cnt / chunk_size))", new="            chunk_no = int(pnt_cnt / chunk_size)"),
    dict(name="summate-wrong-slice", file=K, expect="R05.5",
         old="            field[c_slice] = _calc_field_krige(\n                self._krige_mat, k_vec, self._krige_cond\n            )", new="            field[:] = _calc_field_krige(\n                self._krige_mat, k_vec, self._krige_cond\n            )"),
    dict(name="ext-drift-unsliced", file=K, expect=["R05.3", "R05.5"], old="            res[ext_size:, :] = ext_drift[:, slice(*chunk_slice)]", new="            res[ext_size:, :] = ext_drift[:, : chunk_size]"),
    dict(name="kernel-transposed-matrix", file=S, expect="R05.5",
         old="""                krig_fac += krig_mat[i, j] * krig_vecs[j, k]
            field[k] += cond[i] * krig_fac

    return np.asarray(field)""",
         new="""                krig_fac += krig_mat[i, j] * krig_vecs[i, k]
            field[k] += cond[i] * krig_fac

    return np.asarray(field)"""),
    dict(name="kernel-fac-not-reset", file=S, expect=["R05.5"],
         old="""    # error = krig_vecs * krig_mat * krig_vecs
    # field = cond * krig_mat * krig_vecs
    for k in prange(res_i, nogil=True, num_threads=num_threads_c):
        for i in range(mat_i):
            krig_fac = 0.0
            for j in range(mat_i):""",
         new="""    # error = krig_vecs * krig_mat * krig_vecs
    # field = cond * krig_mat * krig_vecs
    for k in prange(res_i, nogil=True, num_threads=num_threads_c):
        krig_fac = 0.0
        for i in range(mat_i):
            for j in range(mat_i):"""),
    dict(name="simple-unbiased", file=M, expect="R05.7", old="            mean=mean,\n            normalizer=normalizer,\n            trend=trend,\n            unbiased=False,", new="            mean=mean,\n            normalizer=normalizer,\n            trend=trend,"),
    dict(name="universal-drops-trend", file=M, expect="R05.7", old="            drift_functions=drift_functions,\n            normalizer=normalizer,\n            trend=trend,", new="            drift_functions=drift_functions,\n            normalizer=normalizer,"),
    dict(name="twin-store-order", kind="twin", file=K, old="            res[self.cond_no, : self.cond_no] = 1\n            res[: self.cond_no, self.cond_no] = 1", new="            res[: self.cond_no, self.cond_no] = 1\n            res[self.cond_no, : self.cond_no] = 1"),
]
