"""C18 Normalizers and the mean/norm/trend pipeline: range = domain, mirror pipelines, paired branches, NaN template."""
import ast
import itertools

from .. import domain as D
from .. import ordtype as O
from ..loader import AnalysisError, norm_stmt

NM = "normalizer/methods.py"
NB = "normalizer/base.py"
NT = "normalizer/tools.py"
INVERSE_FUNCS = {"np.exp": "np.log", "np.expm1": "np.log1p", "np.log": "np.exp", "np.log1p": "np.expm1"}


def class_params(ci):
    for c in ci.mro():
        v = c.class_assigns.get("default_parameter")
        if isinstance(v, ast.Dict):
            return [k.value for k in v.keys if isinstance(k, ast.Constant)]
    return []


def thresholds_for(ci, param):
    ts = {0.0}
    for kind in ("methods", "getters"):
        for fn in getattr(ci, kind).values():
            for n in ast.walk(fn):
                if isinstance(n, ast.Call) and ast.unparse(n.func) == "np.isclose" and len(n.args) == 2 and ast.unparse(n.args[0]) == "self." + param:
                    v = D.num(n.args[1])
                    if v is not None:
                        ts.add(float(v))
                if isinstance(n, ast.Compare) and ast.unparse(n.left) == "self." + param and len(n.comparators) == 1 and D.num(n.comparators[0]) is not None:
                    ts.add(float(D.num(n.comparators[0])))
    return sorted(ts)


def samples_for(ts):
    out = [(ts[0] - 1.5, "< %g" % ts[0]), (ts[0] - 0.4, "< %g" % ts[0])]
    for i, t in enumerate(ts):
        out.append((t, "= %g" % t))
        if i + 1 < len(ts):
            g = ts[i + 1] - t
            out.append((t + g / 3.0, "in (%g, %g)" % (t, ts[i + 1])))
            out.append((t + 2 * g / 3.0, "in (%g, %g)" % (t, ts[i + 1])))
    out += [(ts[-1] + 0.6, "> %g" % ts[-1]), (ts[-1] + 1.7, "> %g" % ts[-1])]
    return out


def declared_range(ci, name, env):
    """Evaluate the class's normalize_range / denormalize_range under env."""
    for c in ci.mro():
        if name in c.getters:
            return D.run_scalar_function(c.getters[name], env), "%s.%s (property)" % (c.name, name)
        if name in c.class_assigns:
            return D.feval(c.class_assigns[name], env), "%s.%s (class attribute)" % (c.name, name)
    raise AnalysisError("no %s along the MRO of %s" % (name, ci.name))


def close(a, b):
    if a == b:
        return True
    if abs(a) == D.INF or abs(b) == D.INF:
        return False
    return abs(a - b) <= 1e-9 * max(1.0, abs(a), abs(b))


def range_domain(ctx, rule="R18.1"):
    prog = ctx.prog
    base = prog.cls(NB, "Normalizer")
    classes = [c for c in prog.subclasses(base) if c.module.relpath == NM]
    ctx.floor(rule, "normalizer classes", len(classes), 6)
    n_eval = 0
    for ci in classes:
        params = class_params(ci)
        grids = [samples_for(thresholds_for(ci, p)) for p in params]
        for side, fname, rname in (("normalize", "_normalize", "normalize_range"), ("denormalize", "_denormalize", "denormalize_range")):
            owner, fn = ci.find(fname, "methods")
            if fn is None:
                raise AnalysisError("anchor vanished: %s.%s" % (ci.name, fname))
            site = "%s::%s.%s" % (NM, ci.name, fname)
            data_name = fn.args.args[1].arg
            mismatches = {}
            n_here = 0
            for combo in itertools.product(*grids) if grids else [()]:
                env = {"self." + p: v for p, (v, _) in zip(params, combo)}
                label = ", ".join("%s %s" % (p, lab) for p, (_, lab) in zip(params, combo)) or "no parameter"
                try:
                    exprs, masks = D.executed_exprs(fn, env, data_name)
                    (lo, hi), details = D.derived_interval(exprs, masks, env, data_name)
                    (dlo, dhi), where = declared_range(ci, rname, env)
                except D.EvalError as e:
                    ctx.undecided(rule, site, "cannot derive the domain for %s: %s" % (label, e))
                    continue
                n_here += 1
                n_eval += 1
                if not (close(lo, dlo) and close(hi, dhi)):
                    kind = "narrower than" if (dlo >= lo and dhi <= hi) else "wider than" if (dlo <= lo and dhi >= hi) else "different from"
                    mismatches.setdefault((label, kind), (lo, hi, dlo, dhi, where, env, details))
            if mismatches:
                for (label, kind), (lo, hi, dlo, dhi, where, env, details) in sorted(mismatches.items()):
                    ctx.violation(rule, site,
                                  "declared %s is %s the domain of the transform for %s: declared (%g, %g) [%s], derived (%g, %g) from %s, e.g. at %s"
                                  % (rname, kind, label, dlo, dhi, where, lo, hi, details or "no partial operation", {k: round(v, 3) for k, v in env.items()}),
                                  "%s:%s:%s" % (rname, label, kind))
            else:
                ctx.ok(rule, site, "declared %s equals the domain derived from the partial operations for all %d parameter sign classes" % (rname, n_here))
    ctx.floor(rule, "parameter samples folded", n_eval, 90)


def stage_sequence(fn):
    """[('+'|'-', 'mean'|'trend') | ('normalize',) | ('denormalize',) | ('fit',)] in statement order."""
    seq = []
    eval_args = []
    for st in fn.body:
        txt = ast.unparse(st)
        if "eval_func(" in txt:
            calls = [n for n in ast.walk(st) if isinstance(n, ast.Call) and getattr(n.func, "id", "") == "eval_func"]
            what = ast.unparse(calls[0].args[0])
            eval_args.append([ast.unparse(a) for a in calls[0].args[1:]])
            ops = {type(n.op).__name__ for n in ast.walk(st) if isinstance(n, (ast.BinOp, ast.AugAssign)) and isinstance(n.op, (ast.Add, ast.Sub))
                   and any(c is calls[0] for c in ast.walk(n))}
            if len(ops) != 1:
                seq.append(("?", what))
            else:
                seq.append(("+" if ops == {"Add"} else "-", what))
        elif "normalizer.denormalize(" in txt:
            seq.append(("denormalize",))
        elif "normalizer.normalize(" in txt:
            seq.append(("normalize",))
        elif "normalizer.fit(" in txt:
            seq.append(("fit",))
    return seq, eval_args


def mirror_pipelines(ctx, rule="R18.2"):
    prog = ctx.prog
    ap = prog.func(NT, "apply_mean_norm_trend")
    rm = prog.func(NT, "remove_trend_norm_mean")
    sa, ea = stage_sequence(ap)
    sr, er = stage_sequence(rm)
    ctx.check(sa == [("+", "mean"), ("denormalize",), ("+", "trend")], rule, NT + "::apply_mean_norm_trend", "output = trend + denormalize(mean + field): stages %s" % sa, "apply-stages")
    sr_nofit = [s for s in sr if s != ("fit",)]
    inv = {"+": "-", "-": "+"}
    want = [((inv[s[0]], s[1]) if len(s) == 2 else (("normalize",) if s == ("denormalize",) else ("denormalize",))) for s in reversed(sa)] if all(len(s) == 1 or s[0] in inv for s in sa) else None
    ctx.check(sr_nofit == want, rule, NT + "::remove_trend_norm_mean", "removal is the mirror image (reversed order, inverse operations): %s" % sr, "remove-stages")
    if ("fit",) in sr:
        ctx.check(sr.index(("fit",)) == sr.index(("normalize",)) - 1 and sr.index(("fit",)) > 0, rule, NT + "::remove_trend_norm_mean", "the normalizer is fitted to the detrended data, right before normalisation", "fit-pos")
    ctx.check(len({tuple(a) for a in ea + er}) == 1 and (ea + er)[0] == ["pos", "dim", "mesh_type", "value_type", "True"], rule, NT, "all four mean/trend evaluations use the same (pos, dim, mesh_type, value_type, broadcast)", "eval-args")
    for fn, nm in ((ap, "apply_mean_norm_trend"), (rm, "remove_trend_norm_mean")):
        first = [s for s in fn.body if isinstance(s, ast.Assign) and ast.unparse(s.targets[0]) == "normalizer"]
        ctx.check(len(first) == 1 and ast.unparse(first[0].value) == "_check_normalizer(normalizer)", rule, NT + "::" + nm, "None is replaced by the identity normalizer", "check-norm")
    # users hand over the field's own settings
    users = [
        ("field/base.py", "Field.post_field", "apply_mean_norm_trend", "self"),
        ("transform/field.py", "_post_process", "apply_mean_norm_trend", "fld"),
        ("transform/field.py", "_pre_process", "remove_trend_norm_mean", "fld"),
    ]
    for rel, q, callee, obj in users:
        fn = prog.func(rel, q)
        calls = [n for n in ast.walk(fn) if isinstance(n, ast.Call) and getattr(n.func, "id", "") == callee]
        ok = len(calls) == 1
        if ok:
            kw = {k.arg: ast.unparse(k.value) for k in calls[0].keywords}
            ok = all(kw.get(a) == "%s.%s" % (obj, a) for a in ("pos", "normalizer", "trend", "mesh_type", "value_type")) and kw.get("check_shape") == "False"
            ok = ok and kw.get("mean") in ("%s.mean" % obj, "None if keep_mean else %s.mean" % obj)
        ctx.check(ok, rule, "%s::%s" % (rel, q), "%s receives the object's own pos/mean/normalizer/trend/mesh_type/value_type" % callee, "user-args")
    pre = prog.func("transform/field.py", "_pre_process")
    post = prog.func("transform/field.py", "_post_process")
    k1 = {k.arg: ast.unparse(k.value) for n in ast.walk(pre) if isinstance(n, ast.Call) and getattr(n.func, "id", "") == "remove_trend_norm_mean" for k in n.keywords if k.arg != "field"}
    k2 = {k.arg: ast.unparse(k.value) for n in ast.walk(post) if isinstance(n, ast.Call) and getattr(n.func, "id", "") == "apply_mean_norm_trend" for k in n.keywords if k.arg != "field"}
    ctx.check(k1 == k2 and k1, rule, "transform/field.py", "pre- and post-processing of a transformation use identical settings", "pre-post")
    # kriging conditions: -trend -> normalize -> -mean
    kc = prog.func("krige/base.py", "Krige._krige_cond@get")
    body = [norm_stmt(s) for s in kc.body if isinstance(s, (ast.Assign, ast.AugAssign))]
    ok = "val = self.normalizer.normalize(self.cond_val - self.cond_trend)" in body and "val -= self.cond_mean" in body and body.index("val = self.normalizer.normalize(self.cond_val - self.cond_trend)") < body.index("val -= self.cond_mean")
    ctx.check(ok, rule, "krige/base.py::Krige._krige_cond", "conditioning values are detrended, normalised, then centred (same order as remove_trend_norm_mean)", "krige-cond")
    cm = ast.unparse(prog.func("krige/base.py", "Krige.cond_mean@get").body[-1])
    ct = ast.unparse(prog.func("krige/base.py", "Krige.cond_trend@get").body[-1])
    ctx.check(cm == "return eval_func(self.mean, self.cond_pos, self.dim, broadcast=True)" and ct == "return eval_func(self.trend, self.cond_pos, self.dim, broadcast=True)", rule, "krige/base.py::Krige", "mean and trend at the conditions are evaluated at cond_pos", "cond-eval")


def _calls(expr):
    return [ast.unparse(n.func) for n in ast.walk(expr) if isinstance(n, ast.Call) and ast.unparse(n.func) in INVERSE_FUNCS]


def _exponents(expr):
    out = []
    for n in ast.walk(expr):
        if isinstance(n, ast.BinOp) and isinstance(n.op, ast.Pow) and not D.is_int_literal(n.right):
            out.append(n.right)
        elif isinstance(n, ast.Call) and ast.unparse(n.func) == "np.power" and len(n.args) == 2 and not D.is_int_literal(n.args[1]):
            out.append(n.args[1])
    return out


def paired_branches(ctx, rule="R18.3"):
    prog = ctx.prog
    base = prog.cls(NB, "Normalizer")
    n_pred = 0
    for ci in [c for c in prog.subclasses(base) if c.module.relpath == NM]:
        params = class_params(ci)
        nf, df = ci.methods.get("_normalize"), ci.methods.get("_denormalize")
        if nf is None or df is None:
            raise AnalysisError("anchor vanished: %s transform pair" % ci.name)
        site = "%s::%s" % (NM, ci.name)
        preds_n = sorted({ast.unparse(n.test) for n in ast.walk(nf) if isinstance(n, ast.If)})
        preds_d = sorted({ast.unparse(n.test) for n in ast.walk(df) if isinstance(n, ast.If)})
        ctx.check(preds_n == preds_d, rule, site, "the same special-value predicates select the formula in both directions: %s" % preds_n, "preds")
        n_pred += len(preds_n)
        grids = [samples_for(thresholds_for(ci, p)) for p in params]
        seen = set()
        for combo in itertools.product(*grids) if grids else [()]:
            env = {"self." + p: v for p, (v, _) in zip(params, combo)}
            label = ", ".join("%s %s" % (p, lab) for p, (_, lab) in zip(params, combo)) or "no parameter"
            if label in seen:
                continue
            seen.add(label)
            try:
                en, mn = D.executed_exprs(nf, env, nf.args.args[1].arg)
                ed, md = D.executed_exprs(df, env, df.args.args[1].arg)
            except D.EvalError as e:
                ctx.undecided(rule, site, "cannot select branches for %s: %s" % (label, e))
                continue
            cn = sorted(c for e in en for c in _calls(e))
            cd = sorted(INVERSE_FUNCS[c] for e in ed for c in _calls(e))
            okc = cn == cd
            try:
                pn = sorted(round(float(D.feval(x, env)), 9) for e in en for x in _exponents(e))
                pd = sorted(round(1.0 / float(D.feval(x, env)), 9) for e in ed for x in _exponents(e))
            except (D.EvalError, ZeroDivisionError) as e:
                ctx.undecided(rule, site, "cannot fold exponents for %s: %s" % (label, e))
                continue
            ctx.check(okc and pn == pd, rule, site, "for %s the inverse uses the inverse elementary functions (%s <-> %s) and reciprocal exponents (%s <-> 1/%s)" % (label, cn, [c for e in ed for c in _calls(e)], pn, [round(1 / p, 6) if p else p for p in pd]),
                      "pair:%s" % label)
    ctx.floor(rule, "special-value predicates", n_pred, 6)


def ev_none(test):
    """condition value for data_range = None: only the `data_range is not None and ...` shape is supported (short-circuit)"""
    if isinstance(test, ast.BoolOp) and isinstance(test.op, ast.And) and ast.unparse(test.values[0]) == "data_range is not None":
        return False
    if ast.unparse(test) == "data_range is not None":
        return False
    raise ValueError("condition does not start with `data_range is not None`")


def nan_template(ctx, rule="R18.4"):
    prog = ctx.prog
    ci = prog.cls(NB, "Normalizer")
    fn = ci.methods["_check_input"]
    site = NB + "::Normalizer._check_input"
    asg = {ast.unparse(n.targets[0]): n.value for n in ast.walk(fn) if isinstance(n, ast.Assign)}
    ctx.check(ast.unparse(asg.get("is_data")) == "np.logical_not(np.isnan(data))", rule, site, "NaN inputs are excluded from the data mask", "isnan")
    ctx.check("out" in asg and ast.unparse(asg["out"]).startswith("np.full_like(data, np.nan"), rule, site, "the output template is all-NaN", "template")
    di = asg.get("dat_in")
    tab = None
    if di is not None:
        try:
            tab = O.truth_table([(di, True)], "data", ["data_range[0]", "data_range[1]"])
        except O.NotOrd as e:
            ctx.undecided(rule, site, "range test not an order guard: %s" % e)
    if tab is not None:
        ctx.check(tab == "FFTFF", rule, site, "a value counts as in range exactly on the open interval (truth table over 5 order types: %s)" % tab, "open-range")
    # the range test runs iff the range has at least one finite bound: evaluate its condition for the four kinds of range
    rif = [s for s in fn.body if isinstance(s, ast.If) and any(isinstance(n, ast.Name) and n.id == "dat_in" and isinstance(n.ctx, ast.Store) for n in ast.walk(s))]
    if len(rif) == 1:
        import math

        def ev(e, rng):
            t = ast.unparse(e)
            if t == "data_range":
                return rng
            if isinstance(e, ast.Constant):
                return e.value
            if t in ("np.inf", "math.inf"):
                return math.inf
            if isinstance(e, ast.UnaryOp) and isinstance(e.op, ast.USub):
                return -ev(e.operand, rng)
            if isinstance(e, ast.UnaryOp) and isinstance(e.op, ast.Not):
                return not ev(e.operand, rng)
            if isinstance(e, ast.Subscript) and ast.unparse(e.value) == "data_range" and isinstance(e.slice, ast.Constant):
                return rng[e.slice.value]
            if isinstance(e, ast.Call):
                f = ast.unparse(e.func)
                a = [ev(x, rng) for x in e.args]
                lift = lambda g, v: [g(x) for x in v] if isinstance(v, (list, tuple)) else g(v)
                if f in ("np.min", "min", "np.amin"):
                    return min(a[0]) if isinstance(a[0], (list, tuple)) else a[0]
                if f in ("np.max", "max", "np.amax"):
                    return max(a[0]) if isinstance(a[0], (list, tuple)) else a[0]
                if f in ("np.abs", "abs", "np.absolute", "np.fabs"):
                    return lift(abs, a[0])
                if f == "np.isfinite":
                    return lift(math.isfinite, a[0])
                if f == "np.isinf":
                    return lift(math.isinf, a[0])
                if f in ("np.any", "any"):
                    return any(a[0])
                if f in ("np.all", "all"):
                    return all(a[0])
                if f == "np.logical_not":
                    return lift(lambda x: not x, a[0])
                raise ValueError("call " + f)
            if isinstance(e, ast.BoolOp):
                vals = [ev(v, rng) for v in e.values]
                return all(vals) if isinstance(e.op, ast.And) else any(vals)
            if isinstance(e, ast.Compare) and len(e.ops) == 1:
                l, r = ev(e.left, rng), ev(e.comparators[0], rng)
                op = e.ops[0]
                if isinstance(op, (ast.Is, ast.IsNot)):
                    res = (l is None) == (r is None) and (l is None or l == r)
                    return res if isinstance(op, ast.Is) else not res
                return {ast.Lt: l < r, ast.LtE: l <= r, ast.Gt: l > r, ast.GtE: l >= r, ast.Eq: l == r, ast.NotEq: l != r}[type(op)]
            raise ValueError("expression " + t)

        kinds = [("(-inf, inf)", (-math.inf, math.inf), False), ("(a, inf)", (0.0, math.inf), True), ("(-inf, b)", (-math.inf, 0.5), True), ("(a, b)", (-1.0, 1.0), True), ("None", None, False)]
        got = []
        try:
            for label, rng, want in kinds:
                got.append((label, bool(ev(rif[0].test, rng)) if rng is not None else bool(ev_none(rif[0].test)), want))
        except NameError:
            got = None
        except (ValueError, TypeError, KeyError) as e:
            ctx.undecided(rule, site, "range-test condition not evaluable: %s" % e)
            got = None
        if got is not None:
            bad = [g for g in got if g[1] != g[2]]
            ctx.check(not bad, rule, site, "the range test is applied exactly when the range has a finite bound: %s" % [(g[0], g[1]) for g in got], "range-test-when")
    else:
        ctx.undecided(rule, site, "no `if <range has a finite bound>: dat_in = ...` block found in _check_input")
    aug = [norm_stmt(n) for n in ast.walk(fn) if isinstance(n, ast.AugAssign)]
    ctx.check("is_data[is_data] &= dat_in" in aug, rule, site, "out-of-range values are removed from the data mask", "mask-update")
    sel = [norm_stmt(n) for n in ast.walk(fn) if isinstance(n, ast.Assign) and ast.unparse(n.targets[0]) == "data"]
    ctx.check("data = data[dat_in]" in sel and any(s.endswith("[is_data]") for s in sel), rule, site, "only in-range, non-NaN values are handed to the transform", "select")
    for m, rng, inner in (("normalize", "self.normalize_range", "self._normalize(data)"), ("denormalize", "self.denormalize_range", "self._denormalize(data)"), ("derivative", "self.normalize_range", "self._derivative(data)")):
        f = ci.methods[m]
        body = [norm_stmt(s) for s in f.body if not (isinstance(s, ast.Expr) and isinstance(s.value, ast.Constant))]
        ok = body == ["(data, is_data, out) = self._check_input(data, %s)" % rng, "out[is_data] = %s" % inner, "return out"] or body == ["data, is_data, out = self._check_input(data, %s)" % rng, "out[is_data] = %s" % inner, "return out"]
        ctx.check(ok, rule, NB + "::Normalizer." + m, "%s checks against %s, writes only valid positions of the NaN template" % (m, rng), "tmpl:" + m)
    # subclasses must not override the public wrappers
    for c in prog.subclasses(ci):
        over = sorted(set(c.methods) & {"normalize", "denormalize", "derivative", "_check_input"})
        ctx.check(not over, rule, "%s::%s" % (c.module.relpath, c.name), "range/NaN handling of the base class is not overridden: %s" % over, "override")


def fit_vector_agreement(ctx, rule="R18.5"):
    """The optimiser's parameter vector is packed and unpacked with one and the same name list."""
    prog = ctx.prog
    fit = prog.func(NB, "Normalizer.fit")
    site = NB + "::Normalizer.fit"
    zips = []
    for n in ast.walk(fit):
        if isinstance(n, ast.Call) and getattr(n.func, "id", "") == "zip" and len(n.args) == 2:
            zips.append((ast.unparse(n.args[0]), ast.unparse(n.args[1])))
    packs = [ast.unparse(g.iter) for n in ast.walk(fit) if isinstance(n, ast.ListComp) and "getattr(self" in ast.unparse(n.elt) for g in n.generators if isinstance(n.elt, ast.Call)]
    names = {z[0] for z in zips} | set(packs)
    ctx.check(len(zips) >= 2 and len(names) == 1, rule, site,
              "objective (unpack), start vector (pack) and write-back of the optimum all use the same list of free parameter names: %s / %s" % (zips, packs), "one-name-list")
    pn = [n for n in ast.walk(fit) if isinstance(n, ast.Assign) and ast.unparse(n.targets[0]) == "para_names"]
    ok = len(pn) == 1 and ast.unparse(pn[0].value) == "[name for name in all_names if name not in skip]"
    an = [n for n in ast.walk(fit) if isinstance(n, ast.Assign) and ast.unparse(n.targets[0]) == "all_names"]
    ok = ok and len(an) == 1 and ast.unparse(an[0].value) == "sorted(self.default_parameter)"
    ctx.check(ok, rule, site, "free parameters = all parameters (sorted) minus the skipped ones", "free-names")
    ret = [ast.unparse(s.value) for s in fit.body if isinstance(s, ast.Return)]
    ctx.check(ret == ["{name: getattr(self, name) for name in all_names}"], rule, site, "the returned dictionary reports the model's own parameter values after the write-back", "result-dict")
    obj = [n for n in ast.walk(fit) if isinstance(n, ast.FunctionDef) and n.name == "_neg_kllf"]
    ok = len(obj) == 1 and [ast.unparse(s.value) for s in obj[0].body if isinstance(s, ast.Return)] == ["-self.kernel_loglikelihood(dat)"]
    ctx.check(ok, rule, site, "the objective is the negative kernel log-likelihood of the data", "objective")
    opt = sorted(ast.unparse(n.func) for n in ast.walk(fit) if isinstance(n, ast.Call) and ast.unparse(n.func).startswith("spo."))
    ctx.check(opt == ["spo.minimize", "spo.minimize_scalar"], rule, site, "one free parameter -> scalar minimiser, several -> general minimiser", "optimisers")


def raw_data_discipline(ctx, rule="R18.7"):
    """Typestate RAW -> CHECKED of the `data` argument in the public Normalizer methods: before `data = self._check_input(data, ...)`
    the raw input (which may contain NaN / out-of-range values that count as missing) may only be handed to _check_input or to another
    public method (which checks for itself); sizes, sums and the private kernels must see the checked samples only - otherwise the sample
    count of the likelihood constant and of its kernel disagree as soon as a value is missing."""
    prog = ctx.prog
    ci = prog.cls(NB, "Normalizer")
    n = 0
    for name, fn in sorted(ci.methods.items()):
        if name.startswith("_") or "data" not in [a.arg for a in fn.args.args]:
            continue
        site = "%s::Normalizer.%s" % (NB, name)
        parents = {}
        for p in ast.walk(fn):
            for c in ast.iter_child_nodes(p):
                parents[c] = p
        checked_at = None
        for st in fn.body:
            if isinstance(st, ast.Assign) and isinstance(st.value, ast.Call) and ast.unparse(st.value.func) == "self._check_input" \
                    and any(isinstance(t, ast.Name) and t.id == "data" for tt in st.targets for t in ast.walk(tt)):
                checked_at = st._ord
                break
        inner_fns = [x for x in ast.walk(fn) if isinstance(x, (ast.FunctionDef, ast.Lambda)) and x is not fn]
        for node in ast.walk(fn):
            if not (isinstance(node, ast.Name) and node.id == "data" and isinstance(node.ctx, ast.Load)):
                continue
            if any(any(y is node for y in ast.walk(x)) for x in inner_fns):
                continue
            n += 1
            if checked_at is not None and node._ord > checked_at and not (parents.get(node) is not None and _in_check_call(node, parents)):
                continue  # CHECKED
            # RAW use: allowed sinks
            p = parents.get(node)
            ok = False
            while p is not None and not isinstance(p, ast.stmt):
                if isinstance(p, ast.Call):
                    f = ast.unparse(p.func)
                    if f == "self._check_input" or (f.startswith("self.") and not f[5:].startswith("_") and "." not in f[5:]):
                        ok = True
                    break
                if isinstance(p, ast.Compare) and all(isinstance(op, (ast.Is, ast.IsNot)) for op in p.ops):
                    ok = True
                    break
                if isinstance(p, ast.keyword) and p.arg == "args":
                    ok = True
                    break
                p = parents.get(p)
            if not ok:
                stmt = node
                while not isinstance(stmt, ast.stmt):
                    stmt = parents[stmt]
                ctx.violation(rule, site, "the raw `data` (before _check_input removed NaN / out-of-range samples) is used in `%s`" % norm_stmt(stmt)[:100], "raw-use:" + norm_stmt(stmt)[:60])
    ctx.floor(rule, "uses of `data` in public Normalizer methods", n, 10)
    ctx.ok(rule, NB + "::Normalizer", "raw data reaches only _check_input or public methods; everything else sees the checked samples (%d uses)" % n)


def _in_check_call(node, parents):
    p = parents.get(node)
    while p is not None and not isinstance(p, ast.stmt):
        if isinstance(p, ast.Call) and ast.unparse(p.func) == "self._check_input":
            return True
        p = parents.get(p)
    return False


def _formula_cases(fn):
    """[(condition literals, sign restriction or None, expression node, spellings of the data variable)] of a transformation given either as
    a decision table of returned expressions or as stores into a result buffer under masks `m = data >= 0` / `~m` (YeoJohnson)."""
    import re as _re
    from ..small import UnrollError, _cond_atoms, return_cases

    param = fn.args.args[1].arg if len(fn.args.args) > 1 else "data"
    masks = {}
    for st in fn.body:
        if isinstance(st, ast.Assign) and len(st.targets) == 1 and isinstance(st.targets[0], ast.Name) and isinstance(st.value, ast.Compare) and len(st.value.ops) == 1 \
                and ast.unparse(st.value.left) == param and ast.unparse(st.value.comparators[0]) in ("0", "0.0"):
            op = st.value.ops[0]
            if isinstance(op, (ast.GtE, ast.Gt)):
                masks[st.targets[0].id] = 1
            elif isinstance(op, (ast.Lt, ast.LtE)):
                masks[st.targets[0].id] = -1
    out = []
    if masks:
        def mask_sign(sl):
            if isinstance(sl, ast.Name) and sl.id in masks:
                return masks[sl.id]
            if isinstance(sl, ast.UnaryOp) and isinstance(sl.op, ast.Invert) and isinstance(sl.operand, ast.Name) and sl.operand.id in masks:
                return -masks[sl.operand.id]
            return None

        def walk(stmts, conds):
            for st in stmts:
                if isinstance(st, ast.If):
                    walk(st.body, conds + _cond_atoms(st.test, True))
                    walk(st.orelse, conds + _cond_atoms(st.test, False))
                elif isinstance(st, ast.Assign) and len(st.targets) == 1 and isinstance(st.targets[0], ast.Subscript) and isinstance(st.targets[0].value, ast.Name):
                    sg = mask_sign(st.targets[0].slice)
                    if sg is None:
                        raise AnalysisError("store %s is not under a sign mask of the data" % norm_stmt(st)[:60])
                    names = {"%s[%s]" % (param, ast.unparse(st.targets[0].slice))}
                    out.append((frozenset(conds), sg, st.value, names))

        walk(fn.body, [])
        return out
    try:
        for conds, txt in return_cases(fn):
            out.append((conds, None, ast.parse(txt, mode="eval").body, {param, "np.asanyarray(%s)" % param, "np.asarray(%s)" % param}))
    except UnrollError as e:
        raise AnalysisError("formula of %s is not a decision table: %s" % (fn.name, e))
    del _re
    return out


def derivative_is_derivative(ctx, rule="R18.8"):
    """The reported derivative of every normalizer is the derivative of its normalisation, as formulas: d/dx of each branch of `_normalize`
    (differentiated by the textbook rules, np.abs / np.sign resolved separately for x > 0 and x < 0, a special-value branch
    `np.isclose(self.lmbda, c)` taken at lmbda = c) has the same canonical sum of power products as the matching branch of `_derivative`."""
    import re as _re
    from .. import diffalg as DA
    from ..small import negation_text

    prog = ctx.prog
    base = prog.cls(NB, "Normalizer")
    n = 0
    for ci in prog.subclasses(base):
        fn_n, fn_d = ci.methods.get("_normalize"), ci.methods.get("_derivative")
        if fn_n is None or fn_d is None:
            continue
        site = "%s::%s" % (ci.module.relpath, ci.name)
        ncases, dcases = _formula_cases(fn_n), _formula_cases(fn_d)
        # lower end of the declared input range: 0 -> only x > 0 is in the range; -shift -> (shift + x) is positive on the range
        lo = None
        for st in ci.node.body:
            if isinstance(st, ast.Assign) and ast.unparse(st.targets[0]) == "normalize_range" and isinstance(st.value, ast.Tuple):
                lo = ast.unparse(st.value.elts[0])
        g = ci.getters.get("normalize_range")
        if g is not None:
            rets = [r.value for r in ast.walk(g) if isinstance(r, ast.Return) and isinstance(r.value, ast.Tuple)]
            lo = ast.unparse(rets[0].elts[0]) if len(rets) == 1 else "?"
        if lo not in (None, "0.0", "0", "-self.shift", "-np.inf"):
            ctx.undecided(rule, site, "lower end of normalize_range not understood (%s): monotonicity on the range is not decided" % lo)
            lo = "?"
        pos_sums = (DA.vkey(DA.canon(DA.add(DA.sym("S"), DA.sym("x")))),) if lo == "-self.shift" else ()
        for conds, sg_n, e_n, names_n in ncases:
            fixed = {}
            for c in conds:
                m = _re.fullmatch(r"np\.isclose\(self\.(\w+), ([-0-9.]+)\)", c)
                if m:
                    fixed[{"lmbda": "L", "shift": "S"}.get(m.group(1), m.group(1))] = m.group(2)
            for sign in ((sg_n,) if sg_n else (1, -1)):
                for dconds, sg_d, e_d, names_d in dcases:
                    if sg_d and sg_d != sign:
                        continue
                    if any(negation_text(c) in conds for c in dconds):
                        continue
                    try:
                        DA.set_domain(*((0, None) if sign > 0 else (None, 0)))
                        tn = DA.from_ast(e_n, names_n, sign)
                        td = DA.from_ast(e_d, names_d, sign)
                        for s_, v_ in fixed.items():
                            tn, td = DA.substitute(tn, s_, DA.num(v_)), DA.substitute(td, s_, DA.num(v_))
                        dn = DA.canon(DA.diff(tn))
                        dd = DA.canon(td)
                    except DA.DiffError as ex:
                        ctx.undecided(rule, site, "formula outside the algebra: %s" % ex)
                        continue
                    n += 1
                    where = "%s, %s" % ("x > 0" if sign > 0 else "x < 0", ", ".join(sorted(conds)) or "all parameters")
                    ctx.check(DA.same(dn, dd), rule, site, "[%s] d/dx normalize = %s ; reported derivative = %s" % (where, DA.vtext(dn), DA.vtext(dd)),
                              "derivative:%s:%s" % ("pos" if sign > 0 else "neg", ",".join(sorted(conds))))
                    # strictly increasing: the derivative is ONE power product with a positive coefficient; its bases are the affine arguments of the
                    # logarithms / powers of the transformation, which R18.1 proves positive on the declared range, and exp(.) > 0
                    if sign < 0 and lo in ("0.0", "0"):
                        continue  # x < 0 is outside the declared range
                    if lo == "?":
                        continue
                    mono = DA.sign_on(dn, sign, positive_sums=pos_sums) == 1
                    ctx.check(mono, rule, site, "[%s] d/dx normalize = %s is a single power product that is positive on this half line (strictly increasing on the range)" % (where, DA.vtext(dn)),
                              "monotone:%s:%s" % ("pos" if sign > 0 else "neg", ",".join(sorted(conds))))
    ctx.floor(rule, "normalize branches compared with the reported derivative", n, 16)


def _odd_form(e, param):
    """`np.sign(data) * F(np.abs(data))` -> F as an expression in the placeholder name `__t`; None when the expression is not of that form"""
    class R(ast.NodeTransformer):
        def visit_Call(self, n):
            if ast.unparse(n) == "np.abs(%s)" % param:
                return ast.Name("__t", ast.Load())
            return self.generic_visit(n)

    def factors(x):
        if isinstance(x, ast.BinOp) and isinstance(x.op, ast.Mult):
            return factors(x.left) + factors(x.right)
        if isinstance(x, ast.BinOp) and isinstance(x.op, ast.Div):
            return factors(x.left) + [("/", x.right)]
        return [x]

    fs = factors(e)
    sg = [f for f in fs if not isinstance(f, tuple) and ast.unparse(f) == "np.sign(%s)" % param]
    if len(sg) != 1:
        return None
    rest = None
    for f in fs:
        if f is sg[0]:
            continue
        node = f[1] if isinstance(f, tuple) else f
        rest = node if rest is None else (ast.BinOp(rest, ast.Div() if isinstance(f, tuple) else ast.Mult(), node))
    if rest is None:
        return None
    import copy as _copy

    out = R().visit(_copy.deepcopy(rest))
    if any(isinstance(x, ast.Name) and x.id == param for x in ast.walk(out)):
        return None
    return ast.fix_missing_locations(out)


def round_trip(ctx, rule="R18.9"):
    """denormalize(normalize(x)) = x as formulas: the normalisation branch substituted into the matching denormalisation branch reduces
    to x in the power / log / exp normal form (x^a)^b = x^(ab), exp(c log u) = u^c, log(exp E) = E - identities that hold on the
    declared ranges, which R18.1 decides separately.  Odd extensions sign(x) F(|x|) are composed on t = |x|."""
    import re as _re
    from .. import diffalg as DA
    from ..small import negation_text

    prog = ctx.prog
    base = prog.cls(NB, "Normalizer")
    n = 0
    for ci in prog.subclasses(base):
        fn_n, fn_d = ci.methods.get("_normalize"), ci.methods.get("_denormalize")
        if fn_n is None or fn_d is None:
            continue
        site = "%s::%s" % (ci.module.relpath, ci.name)
        pn = fn_n.args.args[1].arg
        pd = fn_d.args.args[1].arg
        for conds, sg_n, e_n, names_n in _formula_cases(fn_n):
            fixed = {}
            for c in conds:
                m = _re.fullmatch(r"np\.isclose\(self\.(\w+), ([-0-9.]+)\)", c)
                if m:
                    fixed[{"lmbda": "L", "shift": "S"}.get(m.group(1), m.group(1))] = m.group(2)
            for dconds, sg_d, e_d, names_d in _formula_cases(fn_d):
                if any(negation_text(c) in conds for c in dconds) or any(negation_text(c) in dconds for c in conds):
                    continue
                if sg_n and sg_d and sg_n != sg_d:
                    continue
                odd_n, odd_d = _odd_form(e_n, pn), _odd_form(e_d, pd)
                for sign in ((sg_n or sg_d,) if (sg_n or sg_d) else (1, -1)):
                    try:
                        DA.set_domain(*((0, None) if (sign > 0 or (odd_n is not None and odd_d is not None)) else (None, 0)))
                        if odd_n is not None and odd_d is not None:
                            tn = DA.from_ast(odd_n, {"__t"}, 1)
                            td = DA.from_ast(odd_d, {"__never__"}, 1, subst={"__t": tn})
                            want = DA.sym("x")
                        else:
                            tn = DA.from_ast(e_n, names_n, sign)
                            td = DA.from_ast(e_d, set(), sign, subst={k_: tn for k_ in names_d})
                            want = DA.sym("x")
                        for s_, v_ in fixed.items():
                            td = DA.substitute(td, s_, DA.num(v_))
                        got = DA.canon(td)
                    except DA.DiffError as ex:
                        ctx.undecided(rule, site, "formula outside the algebra: %s" % ex)
                        continue
                    n += 1
                    where = "%s, %s" % ("t = |x|" if odd_n is not None and odd_d is not None else ("x > 0" if sign > 0 else "x < 0"), ", ".join(sorted(conds)) or "all parameters")
                    ctx.check(DA.same(got, DA.canon(want)), rule, site, "[%s] denormalize(normalize(x)) = %s" % (where, DA.vtext(got)), "round-trip:%s:%s" % ("pos" if sign > 0 else "neg", ",".join(sorted(conds))))
    ctx.floor(rule, "normalize / denormalize branch pairs composed", n, 16)


def get_mean_pipeline(ctx, rule="R18.10"):
    """Krige.get_mean applies the output pipeline to the (estimated or given) mean: without post-processing it returns the raw value,
    with post-processing `normalizer.denormalize(raw + mean)` - the mean is added BEFORE the back-transformation, on every path
    (ordinary and simple kriging alike)."""
    from ..small import UnrollError, merge_cases, return_cases

    fn = ctx.prog.func("krige/base.py", "Krige.get_mean")
    try:
        table = merge_cases(return_cases(fn, opaque=("res", "mean")))
    except UnrollError as e:
        raise AnalysisError("Krige.get_mean is not a decision table: %s" % e)
    vals = {}
    for conds, txt in table:
        if txt == "None":
            continue
        key = "post" if "post_process" in conds else ("raw" if "not post_process" in conds else "?")
        vals.setdefault(key, set()).add(txt)
    ok = vals.get("post") == {"self.normalizer.denormalize(res + mean)"} and vals.get("raw") == {"res"} and "?" not in vals
    ctx.check(ok, rule, "krige/base.py::Krige.get_mean", "post-processed mean = denormalize(raw + mean), otherwise the raw value, on every path: %s" % {k: sorted(v) for k, v in vals.items()}, "get-mean")


def run(ctx):
    get_mean_pipeline(ctx)
    round_trip(ctx)
    derivative_is_derivative(ctx)
    from ..small import none_default_rule

    raw_data_discipline(ctx)

    none_default_rule(ctx, "R18.6", ["normalizer/"], 5)
    fit_vector_agreement(ctx)
    range_domain(ctx)
    mirror_pipelines(ctx)
    paired_branches(ctx)
    nan_template(ctx)
    return (
        "Decides the structural clauses of C18: (R18.1) for every normalizer, every transform direction and every sign class of its parameters (order types of the parameter against the "
        "special values 0, 2 and the sign changes of the coefficients; closed expressions folded), the declared open range equals the interval on which the transform's partial "
        "operations (log, log1p, non-integer powers of operands affine in the data) are defined; (R18.2) apply/remove pipelines are mirror images and all users pass the field's own settings; "
        "(R18.3) special-value predicates and inverse elementary functions/exponents are paired; (R18.4) NaN template and open-interval range test. (R18.8) the reported derivative is the formula derivative of the normalisation, branch by branch. (R18.9) denormalize(normalize(x)) reduces to x branch by branch; the derivative is a single positive power product (monotone). NOT decided: likelihood/fit."
    )
