"""Regenerate sa/frozen_names.json from /repo (run only when the rules are re-confirmed against a new tree)."""
import json
import sys

from . import norm
from .loader import Program

if __name__ == "__main__":
    root = sys.argv[1] if len(sys.argv) > 1 else "/repo"
    prog = Program(root, normalise=False)
    for m in prog.by_rel.values():
        norm.canon_tree(m.tree, cython=m.pyx is not None)
    data = norm.build_frozen([(rel, m.tree) for rel, m in sorted(prog.by_rel.items())])
    with open(norm.FROZEN_PATH, "w") as fh:
        json.dump(data, fh, indent=0, sort_keys=True)
    print("frozen:", sum(len(v["functions"]) for v in data.values()), "functions in", len(data), "modules")
