"""C17 Fourier fields are exactly periodic: mode grid = integer multiples of delta_k, recomputed after every change."""
import ast

from .. import ordtype as O
from .. import state
from ..loader import AnalysisError, norm_stmt
from ..small import call_arg, pad_side, validated_uses
from .C11 import FOURIER_EDGES, GEN
from .C16 import factors, signed_factors, terms


def run(ctx):
    from . import C15_kernels as _K

    _K.accumulator_reset(ctx, rule="R17.6")  # mode-summation kernels: phase reset per mode, every point and mode visited (shared with C15)
    _K.accumulator_complete(ctx, rule="R17.6")
    _K.build_independent(ctx, rule="R17.6")
    _K.kernel_shape(ctx, rule="R17.6")
    _K.full_extent(ctx, rule="R17.6")
    _K.zero_init(ctx, rule="R17.6")
    from . import C15_bounds

    C15_bounds.run(ctx, rule="R17.6", files=("field/summator.pyx",), floor=20)
    _K.mode_terms(ctx, rule="R17.6")  # the weight multiplies the cosine AND the sine part of every mode
    _K.double_precision(ctx, rule="R17.6")  # single-precision accumulators / phases lose the exactness the property states
    from .C12 import inverse_pairs

    inverse_pairs(ctx, rule="R17.5")  # periodicity holds along the model's main axes only if positions are derotated exactly as isometrize documents (shared with C12)
    from .C11 import private_copy

    private_copy(ctx, rule="R17.4")  # without a private model copy an in-place anisotropy change is invisible to update(): the mode mesh goes stale
    from .C11 import change_detection

    change_detection(ctx, rule="R17.8")  # the mode mesh is rebuilt only if the model comparison notices the change (shared with C11)
    from .C14 import no_shared_fields

    # the stored period is the generator's own copy: the caller's array may change afterwards, the next rebuild of the mode mesh would follow it
    no_shared_fields(ctx, "R17.7", GEN, "Fourier", {"_period", "_mode_no"}, floor=1)
    prog = ctx.prog
    ci = prog.cls(GEN, "Fourier")
    st = state.coherence(ctx, "R17.1", ci, FOURIER_EDGES, type_assumptions={"model": "CovModel"}, rel=GEN,
                         param_alias={"model": "_model"}, equal_atoms=("Eq param:model",), nonnull_methods=("_fill_to_dim",), raise_exits=True,
                         field_types={"_model": "CovModel"})  # the constructor stores a CovModel or fails (it reads tmp_model.dim first)
    ctx.floor("R17.1", "feasible paths explored (Fourier)", st["paths"], 60)
    for e in FOURIER_EDGES:
        if e.derived not in st["fields_written"]:
            raise AnalysisError("edge %s <- %s lost its assignment site" % (e.derived, e.source))

    # ---- R17.2 even mode numbers
    upd = prog.func(GEN, "Fourier.update")
    calls = [n for n in ast.walk(upd) if isinstance(n, ast.Call) and ast.unparse(n.func) == "self._set_modes"]
    n_user = 0
    for c in calls:
        stmt = [s for s in ast.walk(upd) if isinstance(s, ast.Expr) and s.value is c]
        if not stmt:
            ctx.undecided("R17.2", GEN + "::Fourier.update", "_set_modes call in unexpected position")
            continue
        a0 = ast.unparse(c.args[0])
        if a0 == "self._mode_no":
            ctx.ok("R17.2", GEN + "::Fourier.update", "rebuild with the stored (already validated) mode numbers: %s" % ast.unparse(c))
            continue
        n_user += 1
        ok = False
        guard = []
        if isinstance(c.args[0], ast.Name):
            v = c.args[0].id

            def is_parity_check(t, v=v):
                # some element of the very sequence handed to _set_modes is odd: a comprehension over it whose element is `<var> % 2`
                txt = ast.unparse(t)
                comp = [g for g in ast.walk(t) if isinstance(g, (ast.ListComp, ast.GeneratorExp)) and len(g.generators) == 1 and not g.generators[0].ifs
                        and ast.unparse(g.generators[0].iter) == v and isinstance(g.generators[0].target, ast.Name)
                        and ast.unparse(g.elt) == "%s %% 2" % g.generators[0].target.id]
                hit = "!= 0" in txt and ".any()" in txt and len(comp) == 1
                if hit:
                    guard.append(txt)
                return hit

            res = validated_uses(upd, v, is_parity_check, lambda n, c=c: n is c)
            ok = len(res) == 1 and res[0][1] is True
        ctx.check(ok, "R17.2", GEN + "::Fourier.update", "user-supplied mode numbers reach _set_modes only after `any(m %% 2 != 0)` raised for odd values (validate-before-use typestate of `%s`): %s" % (a0, sorted(set(guard))), "parity:" + a0)
    ctx.check(n_user >= 1, "R17.2", GEN + "::Fourier.update", "a user-value _set_modes site exists (%d)" % n_user, "user-site")
    other = []
    for c in ci.mro():
        for kind in ("methods", "setters"):
            for name, fn in getattr(c, kind).items():
                if name in ("update",):
                    continue
                for n in ast.walk(fn):
                    if isinstance(n, ast.Call) and ast.unparse(n.func) == "self._set_modes":
                        other.append(name)
                    if isinstance(n, ast.Assign) and any(ast.unparse(t) in ("self._modes", "self._delta_k") for t in n.targets) and name not in ("__init__", "_set_modes"):
                        other.append(name + ":store")
    ctx.check(not other, "R17.2", GEN + "::Fourier", "the mode mesh is only (re)built through update (no other writer of _modes/_delta_k): %s" % other, "single-writer")
    # setters route through update
    for s, kw in (("mode_no", "mode_no"), ("period", "period"), ("model", None)):
        fn = prog.func(GEN, "Fourier.%s@set" % s)
        body = [x for x in fn.body if not (isinstance(x, ast.Expr) and isinstance(x.value, ast.Constant))]
        ok = len(body) == 1 and isinstance(body[0], ast.Expr) and isinstance(body[0].value, ast.Call) and ast.unparse(body[0].value.func) == "self.update"
        if ok:
            c = body[0].value
            ok = ([k.arg for k in c.keywords] == [kw] and ast.unparse(c.keywords[0].value) == s) if kw else ([ast.unparse(a) for a in c.args] == [s])
        ctx.check(ok, "R17.2", GEN + "::Fourier.%s@set" % s, "setter forwards to update(%s)" % (kw or s), "setter-forward")

    # ---- R17.3 grid shape
    sm = prog.func(GEN, "Fourier._set_modes")
    site = GEN + "::Fourier._set_modes"
    lcs = [n for n in ast.walk(sm) if isinstance(n, ast.ListComp) and any(isinstance(c, ast.Call) and ast.unparse(c.func) == "np.arange" for c in ast.walk(n.elt))]
    ok = False
    exact = False
    detail = "np.arange list comprehension not found"
    if len(lcs) == 1 and len(lcs[0].generators) == 1:
        g = lcs[0].generators[0]
        d = ast.unparse(g.target)
        dk = "self._delta_k[%s]" % d
        n_ = "mode_no[%s]" % d
        elt = lcs[0].elt
        ar = [c for c in ast.walk(elt) if isinstance(c, ast.Call) and ast.unparse(c.func) == "np.arange"][0]
        detail = "%s for %s in %s" % (ast.unparse(elt), d, ast.unparse(g.iter))
        loop_ok = ast.unparse(g.iter) == "range(dim)"
        if len(ar.args) == 3:
            # arange(-n/2*dk, n/2*dk, dk): right skeleton, but the number of entries is not determined for a float step
            s1, n1, d1 = signed_factors(ar.args[0])
            s2, n2, d2 = signed_factors(ar.args[1])
            ok = loop_ok and s1 == -1 and s2 == 1 and n1 == n2 == sorted([dk, n_]) and d1 == d2 and d1 in (["2.0"], ["2"]) and ast.unparse(ar.args[2]) == dk and elt is ar
            exact = False
        elif len(ar.args) == 2:
            # integer index grid times the spacing: arange(-n/2, n/2) * dk
            s1, n1, d1 = signed_factors(ar.args[0])
            s2, n2, d2 = signed_factors(ar.args[1])
            idx_ok = s1 == -1 and s2 == 1 and n1 == n2 == [n_] and d1 == d2 and d1 in (["2.0"], ["2"])
            fs = signed_factors(elt)
            ok = loop_ok and idx_ok and fs[0] == 1 and sorted(fs[1]) == sorted([ast.unparse(ar), dk]) and not fs[2]
            exact = ok
    ctx.check(ok, "R17.3", site, "per axis the wave numbers are the integer multiples -n/2 .. n/2-1 of dk over all dim axes: " + detail, "grid")
    ctx.check(exact, "R17.3", site,
              "the number of modes per axis is exactly mode_no (integer index grid; np.arange with a float step may return one element more, which makes the stored mode count odd)", "grid-count")
    asg = {ast.unparse(n.targets[0]): ast.unparse(n.value) for n in ast.walk(sm) if isinstance(n, ast.Assign)}
    ctx.check(asg.get("self._modes") == "generate_grid(modes)" and asg.get("self._mode_no") == "[len(m) for m in modes]", "R17.3", site,
              "mode mesh is the tensor grid of the per-axis wave numbers; mode count is taken from the grid actually built", "mesh")
    dk_asg = [n for n in ast.walk(upd) if isinstance(n, ast.Assign) and ast.unparse(n.targets[0]) == "self._delta_k"]
    ok = len(dk_asg) == 1 and factors(dk_asg[0].value) == (sorted(["2.0", "np.pi", "anis"]), ["self._period"])
    ctx.check(ok, "R17.3", GEN + "::Fourier.update", "delta_k = 2*pi / period * [1, anis...] : %s" % (norm_stmt(dk_asg[0]) if dk_asg else "?"), "delta-k")
    an = [n for n in ast.walk(upd) if isinstance(n, ast.Assign) and ast.unparse(n.targets[0]) == "anis"]
    ok = len(an) == 1 and ast.unparse(an[0].value) == "np.insert(tmp_model.anis.copy(), 0, 1.0)"
    ctx.check(ok, "R17.3", GEN + "::Fourier.update", "the main axis gets ratio 1 in front of the model's anisotropy ratios: %s" % (norm_stmt(an[0]) if an else "?"), "anis-pad")
    pe = [n for n in ast.walk(upd) if isinstance(n, ast.Assign) and ast.unparse(n.targets[0]) == "self._period"]
    ok = len(pe) == 1 and ast.unparse(pe[0].value) == "self._fill_to_dim(period, dim)"
    ctx.check(ok, "R17.3", GEN + "::Fourier.update", "one period per axis (filled to dim)", "period-fill")
    # a short period / mode_no list is filled BEHIND with its last entry: axis i keeps the i-th given value
    ftd = prog.func(GEN, "Fourier._fill_to_dim")
    pads = [n for n in ast.walk(ftd) if isinstance(n, ast.Call) and ast.unparse(n.func) == "np.pad"]
    ok = len(pads) == 1 and pad_side(pads[0]) == ("behind", "edge", "dim - len(r)") and ast.unparse(call_arg(pads[0], 0, "array")) == "r"
    ctx.check(ok, "R17.3", GEN + "::Fourier._fill_to_dim", "too few per-axis values are filled up behind with the last one (the i-th given period stays on axis i): %s"
              % (ast.unparse(pads[0]) if pads else "no np.pad"), "fill-behind")
    trunc = [n for n in ast.walk(ftd) if isinstance(n, ast.Subscript) and isinstance(n.slice, ast.Slice) and n.slice.lower is None and n.slice.upper is not None and ast.unparse(n.slice.upper) == "dim"]
    ctx.check(bool(trunc), "R17.3", GEN + "::Fourier._fill_to_dim", "values are taken in axis order ([:dim])", "fill-order")
    # phase over all components, kernel receives the mesh
    k = prog.func("field/summator.pyx", "summate_fourier")
    ph = [n for n in ast.walk(k) if isinstance(n, ast.AugAssign) and ast.unparse(n.target) == "phase"]
    ok = len(ph) == 1 and factors(ph[0].value) == (sorted(["modes[d, j]", "pos[d, i]"]), [])
    lp = [n for n in ast.walk(k) if isinstance(n, ast.For) and ph and any(s is ph[0] for s in n.body)]
    dim_def = [n for n in k.body if isinstance(n, ast.Assign) and ast.unparse(n.targets[0]) == "dim"]
    ok = ok and len(lp) == 1 and ast.unparse(lp[0].iter) == "range(dim)" and len(dim_def) == 1 and ast.unparse(dim_def[0].value) == "pos.shape[0]"
    ctx.check(ok, "R17.3", "field/summator.pyx::summate_fourier", "phase = <k_j, x_i> over all pos.shape[0] components", "phase")
    acc = [n for n in ast.walk(k) if isinstance(n, ast.AugAssign) and ast.unparse(n.target) == "summed_modes[i]"]
    ok = len(acc) == 1 and {ast.unparse(c.func) for c in ast.walk(acc[0].value) if isinstance(c, ast.Call)} == {"cos", "sin"} and all(ast.unparse(c.args[0]) == "phase" for c in ast.walk(acc[0].value) if isinstance(c, ast.Call))
    ctx.check(ok, "R17.3", "field/summator.pyx::summate_fourier", "each mode contributes only through cos(phase), sin(phase) (2*pi-periodic in the phase)", "trig")
    call = prog.func(GEN, "Fourier.__call__")
    kc = [n for n in ast.walk(call) if isinstance(n, ast.Call) and getattr(n.func, "id", "") == "_summate_fourier"]
    ok = len(kc) == 1 and [ast.unparse(a) for a in kc[0].args][:5] == ["self._spectrum_factor", "self._modes", "self._z_1", "self._z_2", "pos"]
    ctx.check(ok, "R17.3", GEN + "::Fourier.__call__", "kernel receives this generator's mesh, factors and amplitudes in the kernel's order", "kernel-args")
    ret = [s for s in call.body if isinstance(s, ast.Return)]
    ctx.check(len(ret) == 1 and ast.unparse(ret[0].value) == "summed_modes + nugget", "R17.3", GEN + "::Fourier.__call__", "field = mode sum (+ nugget noise)", "return")
    return (
        "Decides the structural clauses of C17: after every change of period, mode_no or model (all feasible paths of update and the setters) the chain "
        "delta_k -> mode mesh -> amplitudes/spectrum factors is recomputed (R17.1); odd mode numbers raise before any mesh is built (R17.2); the mesh is "
        "arange(-n/2*dk, n/2*dk, dk) per axis with dk = 2*pi/period*[1, anis], i.e. integer multiples of dk, and the phase is <k, x> over all components entering only "
        "through sin/cos (R17.3) - which makes a shift by period_i/anis_i along isometrized axis i change every phase by a multiple of 2*pi. NOT decided: floating-point exactness of that identity."
        " (R17.1 also on exits by `raise`: a rejected update leaves no new source with an old derived field; R17.2 as a validate-before-use typestate; R17.7 the stored period / mode numbers are the generator's own arrays; R17.8 the model comparison gating the rebuild is unconditional.)"
    )
