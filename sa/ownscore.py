"""python3 -m sa.ownscore <seed dirs...> : for each /tmp/sd_X (meta.json has the property), which checks report it; OWN = its own property's check."""
import json
import multiprocessing as mp
import os
import sys

from .regseed import PROPS
from .trydiff import _one


def main():
    dirs = sys.argv[1:]
    with mp.get_context("fork").Pool(16) as pool:
        base = {p: k for p, _, _, k in pool.map(_one, [(p, None, None) for p in PROPS])}
        jobs = [(p, os.path.join(d, "patch.diff"), base) for d in dirs for p in PROPS]
        res = pool.map(_one, jobs, chunksize=1)
    own = anyc = 0
    for d in dirs:
        prop = json.load(open(os.path.join(d, "meta.json")))["property"]
        hits, errs = {}, []
        for p, pd, st, items in res:
            if pd != os.path.join(d, "patch.diff"):
                continue
            v = [i for i in items if not i.startswith(("UNDECIDED", "floor"))]
            if st == "OK" and v:
                hits[p] = sorted({x.split("::")[0] for x in v})
            elif st == "ERR" or (st == "OK" and items):
                errs.append("%s:%s" % (p, (items[0] if items else "")[:50]))
        o = prop in hits
        own += o
        anyc += bool(hits)
        print("%-8s prop=%s own=%s  %s %s" % (os.path.basename(d).replace("sd_", ""), prop, "YES" if o else "no ", hits, ("ERR/UNDEC " + "; ".join(errs)) if errs else ""))
    print("own-property: %d of %d; any check: %d of %d" % (own, len(dirs), anyc, len(dirs)))


if __name__ == "__main__":
    main()
