E = "variogram/estimator.pyx"
V = "variogram/variogram.py"
UN_GUARD = """                dist = distance(dim, pos, j, k)
                if dist < bin_edges[i] or dist >= bin_edges[i+1]:
                    continue  # skip if not in current bin"""
DIR_GUARD = """                dist = dist_euclid(dim, pos, j, k)
                if dist < bin_edges[i] or dist >= bin_edges[i+1]:
                    continue  # skip if not in current bin"""
CASES = [
    dict(name="bin-upper-closed", file=E, expect="R08.1", old=UN_GUARD, new=UN_GUARD.replace("dist >= bin_edges[i+1]", "dist > bin_edges[i+1]")),
    dict(name="bin-lower-open", file=E, expect="R08.1", old=DIR_GUARD, new=DIR_GUARD.replace("dist < bin_edges[i]", "dist <= bin_edges[i]")),
    dict(name="bin-and-for-or", file=E, expect="R08.1", old=UN_GUARD, new=UN_GUARD.replace(" or ", " and ")),
    dict(name="bin-wrong-edge", file=E, expect="R08.1", old=UN_GUARD, new=UN_GUARD.replace("bin_edges[i+1]", "bin_edges[i]")),
    dict(name="dist-of-other-pair", file=E, expect="R08.1", old=UN_GUARD, new=UN_GUARD.replace("distance(dim, pos, j, k)", "distance(dim, pos, j, j)")),
    dict(name="pair-loop-from-j", file=E, expect="R08.2",
         old="""            for k in range(j+1, k_max):
                dist = distance(dim, pos, j, k)""",
         new="""            for k in range(j, k_max):
                dist = distance(dim, pos, j, k)"""),
    dict(name="pair-loop-short", file=E, expect="R08.2",
         old="""    cdef int i_max = bin_edges.shape[0] - 1
    cdef int j_max = pos.shape[1] - 1
    cdef int k_max = pos.shape[1]
    cdef int f_max = f.shape[0]

    cdef double[:, :] variogram""",
         new="""    cdef int i_max = bin_edges.shape[0] - 1
    cdef int j_max = pos.shape[1] - 2
    cdef int k_max = pos.shape[1]
    cdef int f_max = f.shape[0]

    cdef double[:, :] variogram"""),
    dict(name="axis-lag-from-zero", file=E, expect="R08.2",
         old="""                for k in prange(1, k_max-i):
                    counts[k] += 1""",
         new="""                for k in prange(0, k_max-i):
                    counts[k] += 1"""),
    dict(name="axis-wrong-cell", file=E, expect="R08.2",
         old="""                    counts[k] += 1
                    variogram[k] += estimator_func(f[i, j] - f[i+k, j])

    normalization_func(variogram, counts)
    return np.asarray(variogram)


def ma_structured(""",
         new="""                    counts[k] += 1
                    variogram[k] += estimator_func(f[i, j] - f[k, j])

    normalization_func(variogram, counts)
    return np.asarray(variogram)


def ma_structured("""),
    dict(name="count-outside-nan-guard", file=E, expect="R08.3",
         old="""                for m in range(f_max):
                    # skip no data values
                    if not (isnan(f[m, k]) or isnan(f[m, j])):
                        counts[i] += 1
                        variogram[i] += estimator_func(f[m, k] - f[m, j])""",
         new="""                for m in range(f_max):
                    counts[i] += 1
                    # skip no data values
                    if not (isnan(f[m, k]) or isnan(f[m, j])):
                        variogram[i] += estimator_func(f[m, k] - f[m, j])"""),
    dict(name="nan-one-operand", file=E, expect="R08.3",
         old="""                    if not (isnan(f[m, k]) or isnan(f[m, j])):
                        counts[i] += 1""",
         new="""                    if not (isnan(f[m, k])):
                        counts[i] += 1"""),
    dict(name="nan-and-for-or", file=E, expect="R08.3",
         old="""                    if not (isnan(f[m, k]) or isnan(f[m, j])):
                        counts[i] += 1""",
         new="""                    if not (isnan(f[m, k]) and isnan(f[m, j])):
                        counts[i] += 1"""),
    dict(name="mask-or", file=E, expect="R08.3",
         old="if mask[i, j] == 0 and mask[i+k, j] == 0:", new="if mask[i, j] == 0 or mask[i+k, j] == 0:"),
    dict(name="mask-wrong-cell", file=E, expect="R08.3",
         old="if mask[i, j] == 0 and mask[i+k, j] == 0:", new="if mask[i, j] == 0 and mask[k, j] == 0:"),
    dict(name="sum-for-difference", file=E, expect="R08.3",
         old="variogram[d, i] += estimator_func(f[m, k] - f[m, j])",
         new="variogram[d, i] += estimator_func(f[m, k] + f[m, j])"),
    dict(name="structured-on-missing", file=V, expect="R08.3",
         old="    masked = np.ma.is_masked(field) or missing\n    if masked:\n        field = np.ma.array(field, ndmin=1",
         new="    masked = np.ma.is_masked(field)\n    if masked:\n        field = np.ma.array(field, ndmin=1"),
    dict(name="mask-not-swapped", file=V, expect="R08.3",
         old="        mask = mask.swapaxes(0, axis_to_swap)\n", new="        mask = mask.swapaxes(0, 0)\n"),
    dict(name="cressie-gets-matheron-norm", file=E, expect="R08.4",
         old="""    else:  # estimator_type == 'c'
        normalization_func = normalization_cressie""",
         new="""    else:  # estimator_type == 'c'
        normalization_func = normalization_matheron"""),
    dict(name="key-mismatch", file=V, expect="R08.4", old='        cython_estimator = "m"', new='        cython_estimator = "M"'),
    dict(name="normalise-inside-loop", file=E, expect="R08.4",
         old="""                        counts[i] += 1
                        variogram[i] += estimator_func(f[m, k] - f[m, j])

    normalization_func(variogram, counts)""",
         new="""                        counts[i] += 1
                        variogram[i] += estimator_func(f[m, k] - f[m, j])
    normalization_func(variogram, counts)

    normalization_func(variogram, counts)"""),
    dict(name="haversine-for-euclid", file=V, expect="R08.4", old='distance_type = "h" if latlon else "e"', new='distance_type = "e" if latlon else "h"'),
    dict(name="break-before-dirtest", file=E, expect="R08.5",
         old="""                for d in range(d_max):
                    if not dir_test(
                      dim, pos, dist, direction, angles_tol, bandwidth, k, j, d
                    ):
                        continue  # skip if not in current direction""",
         new="""                for d in range(d_max):
                    if separate_dirs and d > 0:
                        break
                    if not dir_test(
                      dim, pos, dist, direction, angles_tol, bandwidth, k, j, d
                    ):
                        continue  # skip if not in current direction"""),
    dict(name="dirtest-or", file=E, expect="R08.5", old="    return in_band and in_angle", new="    return in_band or in_angle"),
    dict(name="dirtest-wrong-direction", file=E, expect="R08.5",
         old="dim, pos, dist, direction, angles_tol, bandwidth, k, j, d", new="dim, pos, dist, direction, angles_tol, bandwidth, k, j, 0"),
    dict(name="estimator-odd", file=E, expect="R08.6", old="    return f_diff * f_diff", new="    return f_diff * fabs(f_diff) * f_diff / f_diff"),
    dict(name="cressie-no-abs", file=E, expect="R08.6", old="    return sqrt(fabs(f_diff))", new="    return sqrt(f_diff)"),
    dict(name="haversine-asymmetric", file=E, expect="R08.6",
         old="        cos(pos[0, i]*deg_2_rad) *\n        cos(pos[0, j]*deg_2_rad) *", new="        cos(pos[0, i]*deg_2_rad) *\n        cos(pos[0, i]*deg_2_rad) *"),
    # twins
    dict(name="twin-guard-rewritten", kind="twin", file=E, old=UN_GUARD,
         new="""                dist = distance(dim, pos, j, k)
                if not (bin_edges[i] <= dist and dist < bin_edges[i+1]):
                    continue  # skip if not in current bin"""),
    dict(name="twin-guard-nested", kind="twin", file=E,
         old="""                if dist < bin_edges[i] or dist >= bin_edges[i+1]:
                    continue  # skip if not in current bin
                for m in range(f_max):
                    # skip no data values
                    if not (isnan(f[m, k]) or isnan(f[m, j])):
                        counts[i] += 1
                        variogram[i] += estimator_func(f[m, k] - f[m, j])""",
         new="""                if dist >= bin_edges[i] and dist < bin_edges[i+1]:
                    for m in range(f_max):
                        if isnan(f[m, k]):
                            continue
                        if isnan(f[m, j]):
                            continue
                        variogram[i] += estimator_func(f[m, k] - f[m, j])
                        counts[i] += 1"""),
    dict(name="twin-estimator-pow", kind="twin", file=E, old="    return f_diff * f_diff", new="    return pow(f_diff, 2)"),
    dict(name="axis-missing-drops-user-mask", file="variogram/variogram.py", expect="R08.3", old="                field, mask=np.logical_or(field.mask, missing_mask)", new="                np.ma.getdata(field), mask=missing_mask"),
]
