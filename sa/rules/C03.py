"""C03 Model functions are mutually consistent: derivation closure, variant siblings, units, switch agreement, TPL weights."""
import ast
import copy
import itertools

from .. import units as U
from ..loader import AnalysisError, norm_stmt
from ..small import FoldError, fold, negation_text
from .C04 import CONTRACTS, SEEDS, SYMBOLS, infer
from .C16 import signed_factors, terms

BASE = "covmodel/base.py"
TOOLS = "covmodel/tools.py"
MODELS = "covmodel/models.py"
TPL = "covmodel/tpl_models.py"
SPECIAL = "tools/special.py"
FOUR = ("cor", "correlation", "covariance", "variogram")


# ---------------------------------------------------------------------------------------- R03.1
def derivation_closure(ctx, rule="R03.1"):
    prog = ctx.prog
    isub = prog.func(TOOLS, "_init_subclass")
    inner = {n.name: n for n in isub.body if isinstance(n, ast.FunctionDef)}
    top = [s for s in isub.body if not isinstance(s, ast.FunctionDef) and not (isinstance(s, ast.Expr) and isinstance(s.value, ast.Constant))]

    def calls_of(fn):
        return {n.func.attr for n in ast.walk(fn) if isinstance(n, ast.Call) and isinstance(n.func, ast.Attribute) and isinstance(n.func.value, ast.Name) and n.func.value.id == "self" and n.func.attr in FOUR}

    n = 0
    for k in range(0, 5):
        for subset in itertools.combinations(FOUR, k):
            n += 1
            defined = set(subset)
            bound = {x: "user" for x in defined}
            raised = [False]
            env = {}

            def ev(e):
                if isinstance(e, ast.Call) and getattr(e.func, "id", "") == "hasattr" and ast.unparse(e.args[0]) == "cls":
                    return e.args[1].value in bound
                if isinstance(e, ast.UnaryOp) and isinstance(e.op, ast.Not):
                    return not ev(e.operand)
                if isinstance(e, ast.Name) and e.id in env:
                    return env[e.id]
                if isinstance(e, ast.Constant):
                    return e.value
                raise AnalysisError("_init_subclass: unsupported predicate %s" % ast.unparse(e))

            def walk(stmts):
                for st in stmts:
                    if isinstance(st, ast.If):
                        walk(st.body if ev(st.test) else st.orelse)
                    elif isinstance(st, ast.Assign) and isinstance(st.targets[0], ast.Attribute) and ast.unparse(st.targets[0].value) == "cls":
                        bound[st.targets[0].attr] = ast.unparse(st.value)
                    elif isinstance(st, ast.Assign) and isinstance(st.targets[0], ast.Name):
                        env[st.targets[0].id] = ev(st.value)
                    elif isinstance(st, ast.Raise):
                        raised[0] = True
                    else:
                        raise AnalysisError("_init_subclass: unsupported statement %s" % norm_stmt(st)[:60])

            walk(top)
            site = TOOLS + "::_init_subclass"
            label = "{%s}" % ", ".join(subset)
            if not subset:
                ctx.check(raised[0], rule, site, "a subclass defining none of the four functions is rejected (TypeError)", "empty-raises")
                continue
            ctx.check(not raised[0] and all(x in bound for x in FOUR), rule, site, "subclass defining %s: all four of cor/correlation/covariance/variogram end up bound: %s" % (label, {k2: v for k2, v in bound.items() if v != "user"}), "bound:" + label)
            # definition graph acyclic: derived function -> functions it calls
            graph = {}
            for name, src in bound.items():
                if src == "user":
                    graph[name] = set()
                else:
                    if src not in inner:
                        raise AnalysisError("_init_subclass binds %s to unknown %s" % (name, src))
                    graph[name] = calls_of(inner[src])
            # reachability to a user-defined function without cycles
            def acyclic(node, stack):
                if node in stack:
                    return False
                return all(acyclic(m, stack | {node}) for m in graph.get(node, ()))

            ctx.check(all(acyclic(x, frozenset()) for x in FOUR), rule, site, "subclass defining %s: the derived functions bottom out in the user-defined ones (no cyclic definition): %s" % (label, {k2: sorted(v) for k2, v in graph.items() if v}), "acyclic:" + label)
    ctx.floor(rule, "subsets of defining functions evaluated", n, 16)
    # identity skeletons of the five derived bodies
    def ret(fn):
        r = [s.value for s in fn.body if isinstance(s, ast.Return)]
        if len(r) != 1:
            raise AnalysisError("derived function %s: expected one return" % fn.name)
        return r[0]

    def sig_terms(e):
        return sorted((s, signed_factors(t)) for s, t in terms(e))

    want = {
        "variogram": sorted([(1, (1, ["self.var"], [])), (-1, (1, ["self.covariance(r)"], [])), (1, (1, ["self.nugget"], []))]),
        "covariance": sorted([(1, (1, sorted(["self.var", "self.correlation(r)"]), []))]),
    }
    for name, w in want.items():
        ctx.check(sig_terms(ret(inner[name])) == w, rule, TOOLS + "::_init_subclass." + name, {"variogram": "variogram = var - covariance + nugget", "covariance": "covariance = var * correlation"}[name], "identity:" + name)
    cr = ret(inner["correlation"])
    tt = terms(cr)
    ok = len(tt) == 2 and any(s == 1 and ast.unparse(t) in ("1.0", "1") for s, t in tt)
    frac = [t for s, t in tt if s == -1]
    if ok and len(frac) == 1 and isinstance(frac[0], ast.BinOp) and isinstance(frac[0].op, ast.Div):
        ok = sig_terms(frac[0].left) == sorted([(1, (1, ["self.variogram(r)"], [])), (-1, (1, ["self.nugget"], []))]) and ast.unparse(frac[0].right) == "self.var"
    else:
        ok = False
    ctx.check(ok, rule, TOOLS + "::_init_subclass.correlation", "correlation = 1 - (variogram - nugget) / var", "identity:correlation")
    cfc = inner["correlation_from_cor"]
    cfr = inner["cor_from_correlation"]
    ok = ast.unparse(ret(cfc)) == "self.cor(r / self.len_rescaled)" and any(norm_stmt(s) == "r = np.asarray(np.abs(r), dtype=np.double)" for s in cfc.body)
    ctx.check(ok, rule, TOOLS + "::_init_subclass.correlation_from_cor", "correlation(r) = cor(|r| / len_rescaled)", "identity:from-cor")
    ok = ast.unparse(ret(cfr)) == "self.correlation(h * self.len_rescaled)" and any(norm_stmt(s) == "h = np.asarray(np.abs(h), dtype=np.double)" for s in cfr.body)
    ctx.check(ok, rule, TOOLS + "::_init_subclass.cor_from_correlation", "cor(h) = correlation(|h| * len_rescaled) (inverse rescaling)", "identity:from-correlation")
    cm = prog.cls(BASE, "CovModel")
    isc = cm.methods["__init_subclass__"]
    ctx.check(any(norm_stmt(s) == "_init_subclass(cls)" for s in isc.body), rule, BASE + "::CovModel.__init_subclass__", "every subclass goes through _init_subclass", "hook")
    lr = [ast.unparse(s.value) for s in cm.getters["len_rescaled"].body if isinstance(s, ast.Return)]
    ctx.check(lr == ["self._len_scale / self._rescale"], rule, BASE + "::CovModel.len_rescaled", "len_rescaled = len_scale / rescale", "len-rescaled")


# ---------------------------------------------------------------------------------------- R03.2
def variant_siblings(ctx, rule="R03.2"):
    prog = ctx.prog
    cm = prog.cls(BASE, "CovModel")
    fam = {"vario": "variogram", "cov": "covariance", "cor": "correlation"}
    for suffix, shape in (("axis", None), ("spatial", None), ("yadrenko", None)):
        bodies = {}
        for pre, base in fam.items():
            fn = cm.methods.get("%s_%s" % (pre, suffix))
            if fn is None:
                raise AnalysisError("anchor vanished: CovModel.%s_%s" % (pre, suffix))
            txt = " ; ".join(norm_stmt(s) for s in fn.body if not (isinstance(s, ast.Expr) and isinstance(s.value, ast.Constant)))
            bodies[pre] = txt.replace("self.%s(" % base, "self.BASE(")
        ctx.check(len(set(bodies.values())) == 1, rule, BASE + "::CovModel.*_%s" % suffix, "the three %s variants are identical up to the base function: %s" % (suffix, list(bodies.values())[0][:110]), "siblings:" + suffix)
    # the Yadrenko variants evaluate the base function at the chordal lag of the given great-circle distance, nothing else done to it
    from ..small import _sym_subst, sym_eval, sym_text

    for pre, base in fam.items():
        fn = cm.methods["%s_yadrenko" % pre]
        rets = [r for r in ast.walk(fn) if isinstance(r, ast.Return) and r.value is not None]
        arg = "?"
        if len(rets) == 1 and isinstance(rets[0].value, ast.Call) and ast.unparse(rets[0].value.func) == "self.%s" % base and len(rets[0].value.args) == 1:
            arg = sym_text(_sym_subst(rets[0].value.args[0], sym_eval(fn.body, stop=rets[0])))
        ctx.check(arg == "great_circle_to_chordal(zeta, self.geo_scale)", rule, BASE + "::CovModel.%s_yadrenko" % pre,
                  "%s is evaluated at great_circle_to_chordal(zeta, geo_scale): %s" % (base, arg[:90]), "yadrenko-lag")
    ax = cm.methods["vario_axis"]
    ifs = [s for s in ax.body if isinstance(s, ast.If)]
    rets = [s for s in ax.body if isinstance(s, ast.Return)]
    ok = len(ifs) == 1 and ast.unparse(ifs[0].test) == "axis == 0" and [ast.unparse(x.value) for x in ifs[0].body if isinstance(x, ast.Return)] == ["self.variogram(r)"]
    ok = ok and len(rets) == 1 and ast.unparse(rets[0].value) == "self.variogram(np.abs(r) / self.anis[axis - 1])"
    ctx.check(ok, rule, BASE + "::CovModel.vario_axis", "along transversal axis i the lag is divided by anis[i-1] (length scale len_scale * anis[i-1]); main axis unchanged", "axis-lag")
    sp = cm.methods["vario_spatial"]
    ctx.check([ast.unparse(s.value) for s in sp.body if isinstance(s, ast.Return)] == ["self.variogram(self._get_iso_rad(pos))"], rule, BASE + "::CovModel.vario_spatial", "spatial variant = base function of the isometrized radius", "spatial")
    vn, cn = cm.methods["vario_nugget"], cm.methods["cov_nugget"]
    def skel(fn, base, const):
        return [norm_stmt(s).replace("self.%s(" % base, "self.BASE(").replace(const, "CONST") for s in fn.body if not (isinstance(s, ast.Expr) and isinstance(s.value, ast.Constant))]
    s1, s2 = skel(vn, "variogram", "= 0.0"), skel(cn, "covariance", "= self.sill")
    ctx.check(s1 == s2 and any("CONST" in x for x in s1), rule, BASE + "::CovModel.vario_nugget/cov_nugget", "nugget-aware variants are identical except for the constant written at zero lag (0 resp. sill)", "nugget-siblings")
    ctx.check(any(norm_stmt(s) == "res[np.logical_not(r_gz)] = 0.0" for s in vn.body) and any(norm_stmt(s) == "res[np.logical_not(r_gz)] = self.sill" for s in cn.body), rule, BASE + "::CovModel.vario_nugget/cov_nugget",
              "vario_nugget(0) = 0, cov_nugget(0) = sill", "nugget-constants")


# ---------------------------------------------------------------------------------------- R03.3
def unit_obligations(ctx, rule="R03.3"):
    prog = ctx.prog
    cm = prog.cls(BASE, "CovModel")
    n = 0
    for ci in prog.subclasses(cm):
        rel = ci.module.relpath
        if "cor" in ci.methods:
            body = [s for s in ci.methods["cor"].body if not (isinstance(s, ast.Expr) and isinstance(s.value, ast.Constant))]
            if body:
                n += infer(ctx, rule, rel, ci.name + ".cor", ci.methods["cor"], {"h": U.ONE}, U.ONE, note="cor(h: 1) -> 1",
                           extra_seeds={"self.nu": U.ONE, "self.alpha": U.ONE, "self.hurst": U.ONE, "self.dim": U.ONE})
        if "correlation" in ci.methods:
            body = [s for s in ci.methods["correlation"].body if not (isinstance(s, ast.Expr) and isinstance(s.value, ast.Constant))]
            if body:
                n += infer(ctx, rule, rel, ci.name + ".correlation", ci.methods["correlation"], {"r": U.LEN}, U.ONE, note="correlation(r: L) -> 1")
        if "calc_integral_scale" in ci.methods:
            n += infer(ctx, rule, rel, ci.name + ".calc_integral_scale", ci.methods["calc_integral_scale"], {}, U.LEN, note="integral scale -> L")
        if "var_factor" in ci.methods:
            n += infer(ctx, rule, rel, ci.name + ".var_factor", ci.methods["var_factor"], {}, U.Unit(U.Lin({"hurst": 2})), note="var_factor -> L^(2 hurst)")
        for g in ("len_up", "len_up_rescaled", "len_low_rescaled"):
            if g in ci.getters:
                n += infer(ctx, rule, rel, "%s.%s" % (ci.name, g), ci.getters[g], {}, U.LEN, note=g + " -> L")
    n += infer(ctx, rule, SPECIAL, "tplstable_cor", prog.func(SPECIAL, "tplstable_cor"), {"r": U.LEN, "len_scale": U.LEN, "hurst": U.ONE, "alpha": U.ONE}, U.ONE, note="tplstable_cor(r: L, len_scale: L) -> 1")
    isub = prog.func(TOOLS, "_init_subclass")
    inner = {x.name: x for x in isub.body if isinstance(x, ast.FunctionDef)}
    for name, par, want, note in (("variogram", {"r": U.LEN}, U.VAR, "variogram -> V"), ("covariance", {"r": U.LEN}, U.VAR, "covariance -> V"), ("correlation", {"r": U.LEN}, U.ONE, "correlation -> 1"),
                                  ("correlation_from_cor", {"r": U.LEN}, U.ONE, "correlation(r) = cor(r / len) -> 1"), ("cor_from_correlation", {"h": U.ONE}, U.ONE, "cor(h) = correlation(h * len) -> 1")):
        n += infer(ctx, rule, TOOLS, "_init_subclass." + name, inner[name], par, want, note=note)
    n += infer(ctx, rule, BASE, "CovModel.vario_axis", cm.methods["vario_axis"], {"r": U.LEN, "axis": U.ONE}, U.VAR, note="vario_axis(r: L) -> V")
    n += infer(ctx, rule, BASE, "CovModel.calc_integral_scale", cm.methods["calc_integral_scale"], {}, U.LEN, extra_contracts={"integral": (None, U.LEN)}, note="default integral scale = integral of the correlation over lags -> L")
    # percentile scale start value
    ps = prog.func(TOOLS, "percentile_scale")
    rt = [s for s in ps.body if isinstance(s, ast.Return)]
    ok = len(rt) == 1 and "root(curve, per * model.len_rescaled)" in ast.unparse(rt[0].value)
    ctx.check(ok, rule, TOOLS + "::percentile_scale", "root search starts at per * len_rescaled (a length)", "percentile-start")
    cv = [x for x in ps.body if isinstance(x, ast.FunctionDef) and x.name == "curve"]
    ok = len(cv) == 1 and [ast.unparse(s.value) for s in cv[0].body if isinstance(s, ast.Return)] == ["1.0 - model.correlation(x) - per"]
    ctx.check(ok, rule, TOOLS + "::percentile_scale", "the root condition is 1 - correlation(x) = per (variogram reaches that fraction of the variance)", "percentile-curve")
    ctx.floor(rule, "unit obligations", n, 35)


# ---------------------------------------------------------------------------------------- R03.4
def switch_agreement(ctx, rule="R03.4"):
    prog = ctx.prog
    cm = prog.cls(BASE, "CovModel")
    n = 0
    for ci in prog.subclasses(cm):
        thr = {}
        for m in ("cor", "correlation", "spectral_density"):
            fn = ci.methods.get(m)
            if fn is None:
                continue
            for node in ast.walk(fn):
                if isinstance(node, ast.If) and isinstance(node.test, ast.Compare) and len(node.test.ops) == 1 and isinstance(node.test.ops[0], (ast.Gt, ast.GtE, ast.Lt, ast.LtE)):
                    l = ast.unparse(node.test.left)
                    if l.startswith("self.") and l[5:] in ("nu", "alpha", "hurst") and isinstance(node.test.comparators[0], ast.Constant):
                        thr.setdefault(l, {})[m] = ast.unparse(node.test)
        for par, by in thr.items():
            n += 1
            site = "%s::%s" % (ci.module.relpath, ci.name)
            # bounds of the parameter
            fnb = ci.methods.get("default_opt_arg_bounds")
            hi = None
            if fnb is not None:
                for d in ast.walk(fnb):
                    if isinstance(d, ast.Dict):
                        for k, v in zip(d.keys, d.values):
                            if isinstance(k, ast.Constant) and k.value == par[5:] and isinstance(v, (ast.List, ast.Tuple)) and isinstance(v.elts[1], ast.Constant):
                                hi = v.elts[1].value
            vals = set(by.values())
            thr_val = float(list(vals)[0].split(">")[-1].strip(" =")) if len(vals) == 1 and ">" in list(vals)[0] else None
            if len(by) >= 2:
                ctx.check(len(vals) == 1, rule, site, "the formula switch on %s is the same predicate in %s: %s" % (par, sorted(by), sorted(vals)), "switch:%s" % par)
            elif hi is not None and thr_val is not None and thr_val >= hi:
                ctx.ok(rule, site, "switch `%s` in %s lies at/beyond the parameter's upper bound %s: unreachable, no counterpart needed" % (list(vals)[0], sorted(by), hi))
            else:
                ctx.check(False, rule, site, "%s switches formula on `%s` but its counterpart does not (cor/correlation and spectral_density must switch together)" % (sorted(by), list(vals)[0]), "switch-unpaired:%s" % par)
    ctx.floor(rule, "shape-parameter switches", n, 2)


# ---------------------------------------------------------------------------------------- R03.5
def rounding_consistency(ctx, rule="R03.5"):
    """Belief contradiction: a value accepted as `isclose(x, np.around(x))` may lie slightly below the integer,
    so a conversion to int inside that branch must round (int(np.around(x))), never truncate (int(x))."""
    prog = ctx.prog
    n = 0
    for m, q, f, ci, kind in prog.all_functions():
        if kind == "nested":
            continue
        for node in ast.walk(f):
            if not isinstance(node, ast.If):
                continue
            xs = set()
            for c in ast.walk(node.test):
                if isinstance(c, ast.Call) and ast.unparse(c.func) == "np.isclose" and len(c.args) == 2:
                    a, b = c.args
                    for u, v in ((a, b), (b, a)):
                        if isinstance(v, ast.Call) and ast.unparse(v.func) in ("np.around", "np.round", "round", "np.rint") and v.args and ast.unparse(v.args[0]) == ast.unparse(u):
                            xs.add(ast.unparse(u))
            if not xs:
                continue
            for st in node.body:
                for c in ast.walk(st):
                    if isinstance(c, ast.Call) and getattr(c.func, "id", "") == "int" and c.args:
                        arg = c.args[0]
                        names = {ast.unparse(z) for z in ast.walk(arg) if isinstance(z, (ast.Name, ast.Attribute))}
                        used = xs & names
                        if not used:
                            continue
                        n += 1
                        rounded = all(
                            any(isinstance(z, ast.Call) and ast.unparse(z.func) in ("np.around", "np.round", "round", "np.rint") and x in {ast.unparse(y) for y in ast.walk(z)} for z in ast.walk(arg))
                            and not _bare_use(arg, x)
                            for x in used)
                        ctx.check(rounded, rule, "%s::%s" % (m.relpath, q), "inside the `nearly an integer` branch the order is converted by rounding, not truncation: %s" % ast.unparse(c), "trunc:" + ast.unparse(c))
    ctx.floor(rule, "int conversions under an is-nearly-integer guard", n, 2)


def _bare_use(arg, x):
    """x occurs in arg outside a rounding call"""
    class V(ast.NodeVisitor):
        found = False

        def visit_Call(self, node):
            if ast.unparse(node.func) in ("np.around", "np.round", "round", "np.rint"):
                return
            self.generic_visit(node)

        def generic_visit(self, node):
            if isinstance(node, (ast.Name, ast.Attribute)) and ast.unparse(node) == x:
                self.found = True
            super().generic_visit(node)

    v = V()
    v.visit(arg)
    return v.found


# ---------------------------------------------------------------------------------------- R03.6
def inline_locals(fn):
    """Copy of fn's statements with single-assignment simple locals substituted into later expressions."""
    assigns = {}
    counts = {}
    for n in ast.walk(fn):
        if isinstance(n, ast.Assign) and len(n.targets) == 1 and isinstance(n.targets[0], ast.Name):
            counts[n.targets[0].id] = counts.get(n.targets[0].id, 0) + 1
            assigns[n.targets[0].id] = n.value
    params = {a.arg for a in fn.args.args}
    simple = {k: v for k, v in assigns.items() if counts[k] == 1 and k not in params and not any(isinstance(c, ast.Call) and ast.unparse(c.func).startswith(("tpl", "np.asarray", "np.array", "np.empty")) for c in ast.walk(v))}

    class T(ast.NodeTransformer):
        def visit_Name(self, n):
            if isinstance(n.ctx, ast.Load) and n.id in simple:
                return self.visit(copy.deepcopy(simple[n.id]))
            return n

    out = []
    for st in fn.body:
        if isinstance(st, ast.Assign) and len(st.targets) == 1 and isinstance(st.targets[0], ast.Name) and st.targets[0].id in simple:
            continue
        out.append(ast.fix_missing_locations(T().visit(copy.deepcopy(st))))
    return out


LEN_BASES = {"self.len_up_rescaled", "self.len_low_rescaled", "len_scale + len_low", "len_low", "self.len_up", "self.len_low"}


def tpl_weights(ctx, rule="R03.6"):
    prog = ctx.prog
    sites = [(TPL, "TPLCovModel.var_factor"), (TPL, "TPLGaussian.correlation"), (TPL, "TPLExponential.correlation"), (TPL, "TPLStable.correlation"), (SPECIAL, "tpl_exp_spec_dens"), (SPECIAL, "tpl_gau_spec_dens")]
    n = 0
    for rel, q in sites:
        fn = prog.func(rel, q)
        body = inline_locals(fn)
        exps = []
        for st in body:
            for node in ast.walk(st):
                base = expo = None
                if isinstance(node, ast.BinOp) and isinstance(node.op, ast.Pow):
                    base, expo = node.left, node.right
                elif isinstance(node, ast.Call) and ast.unparse(node.func) == "np.power" and len(node.args) == 2:
                    base, expo = node.args
                if base is not None and ast.unparse(base).strip("()") in LEN_BASES:
                    exps.append((ast.unparse(base), expo))
        for b, e in exps:
            n += 1
            s, nume, den = signed_factors(e)
            nume = [x.replace("self.", "") for x in nume]
            ok = s == 1 and sorted(nume) == ["2", "hurst"] and not den
            ctx.check(ok, rule, "%s::%s" % (rel, q), "truncation weight %s ** (%s): the superposition weights are len ** (2 * hurst) at every site" % (b, ast.unparse(e)), "weight:%s:%s" % (b, ast.unparse(e)))
    ctx.floor(rule, "truncation-weight powers", n, 16)
    # the three TPL correlations are the same superposition up to the mode shape (alpha)
    shapes = {}
    for q, alpha in (("TPLGaussian.correlation", "2"), ("TPLExponential.correlation", "1"), ("TPLStable.correlation", "self.alpha")):
        body = inline_locals(prog.func(TPL, q))
        txt = []
        for st in body:
            if isinstance(st, ast.Expr) and isinstance(st.value, ast.Constant):
                continue
            t = norm_stmt(st)
            t = t.replace(", %s)" % alpha, ", ALPHA)")
            txt.append(t)
        shapes[q] = " ; ".join(txt)
    ctx.check(len(set(shapes.values())) == 1, rule, TPL, "TPLGaussian / TPLExponential / TPLStable correlations are the same truncated superposition, differing only in the mode exponent passed to tplstable_cor", "tpl-siblings")
    for q, alpha in (("TPLGaussian.cor", "2"), ("TPLExponential.cor", "1"), ("TPLStable.cor", "self.alpha")):
        fn = prog.func(TPL, q)
        r = [ast.unparse(s.value) for s in fn.body if isinstance(s, ast.Return)]
        ctx.check(r == ["tplstable_cor(h, 1.0, self.hurst, %s)" % alpha], rule, TPL + "::" + q, "normalised correlation uses the same mode exponent (%s) as the dimensional one" % alpha, "cor-alpha:" + q)
    for q, f in (("TPLGaussian.spectral_density", "tpl_gau_spec_dens"), ("TPLExponential.spectral_density", "tpl_exp_spec_dens")):
        fn = prog.func(TPL, q)
        r = [ast.unparse(s.value) for s in fn.body if isinstance(s, ast.Return)]
        ctx.check(r == ["%s(k, self.dim, self.len_rescaled, self.hurst, self.len_low_rescaled)" % f], rule, TPL + "::" + q, "spectral density receives (k, dim, len_rescaled, hurst, len_low_rescaled)", "specdens-args:" + q)
    lu = prog.func(TPL, "TPLCovModel.len_up@get")
    ctx.check([ast.unparse(s.value) for s in lu.body if isinstance(s, ast.Return)] == ["self.len_low + self.len_scale"], rule, TPL + "::TPLCovModel.len_up", "upper truncation = len_low + len_scale", "len-up")


def gamma_recurrence(ctx, rule="R03.7"):
    """Incomplete gamma functions of negative order are reached by the downward recurrence
         Gamma(t, x) = (Gamma(t + 1, x) - x**t e**-x) / t          gamma(t, x) = (gamma(t + 1, x) + x**t e**-x) / t
    Every step - recursive call or loop iteration - must use ONE order t in all three places (exponent, divisor, successor)."""
    prog = ctx.prog
    total = 0
    for name, sign in (("inc_gamma", -1), ("inc_gamma_low", 1)):
        fn = prog.func(SPECIAL, name)
        site = "%s::%s" % (SPECIAL, name)
        parents = {}
        for p in ast.walk(fn):
            for c in ast.iter_child_nodes(p):
                parents[c] = p
        steps = []
        for n in ast.walk(fn):
            if isinstance(n, ast.BinOp) and isinstance(n.op, ast.Div):
                ts = terms(n.left)
                if len(ts) != 2:
                    continue
                corr = [(sg, t) for sg, t in ts if any(isinstance(c, ast.Call) and ast.unparse(c.func) == "np.exp" for c in ast.walk(t)) and any(isinstance(c, ast.BinOp) and isinstance(c.op, ast.Pow) for c in ast.walk(t))]
                prev = [(sg, t) for sg, t in ts if (sg, t) not in corr]
                if len(corr) == 1 and len(prev) == 1:
                    steps.append((n, prev[0], corr[0]))
        if not steps:
            raise AnalysisError("anchor vanished: recurrence step (G(t+1) -/+ x**t exp(-x)) / t in %s" % name)
        for n, (psg, prev), (csg, corr) in steps:
            total += 1
            d = ast.unparse(n.right)
            pows = [c for c in ast.walk(corr) if isinstance(c, ast.BinOp) and isinstance(c.op, ast.Pow)]
            exps = [c for c in ast.walk(corr) if isinstance(c, ast.Call) and ast.unparse(c.func) == "np.exp"]
            e = ast.unparse(pows[0].right) if len(pows) == 1 else "?"
            base = ast.unparse(pows[0].left) if len(pows) == 1 else "?"
            ok_corr = len(pows) == 1 and len(exps) == 1 and ast.unparse(exps[0].args[0]) == "-%s" % base and csg == sign and psg == 1
            ctx.check(ok_corr, rule, site, "recurrence step `%s`: previous value %s %s**t * exp(-%s)" % (ast.unparse(n)[:90], "-" if sign < 0 else "+", base, base), "step-shape:" + d)
            ctx.check(e == d, rule, site, "recurrence step `%s`: exponent (%s) and divisor (%s) are the same order t" % (ast.unparse(n)[:90], e, d), "step-order:%s/%s" % (e, d))
            if isinstance(prev, ast.Call) and getattr(prev.func, "id", "") == name:
                a0 = ast.unparse(prev.args[0]) if prev.args else "?"
                ctx.check(a0 in ("%s + 1" % d, "1 + %s" % d), rule, site, "the step for order %s builds on the value for order %s + 1 (got %s)" % (d, d, a0), "step-successor:" + a0)
            elif isinstance(prev, ast.Name):
                loop = parents.get(n)
                while loop is not None and not isinstance(loop, ast.For):
                    loop = parents.get(loop)
                ok_loop = loop is not None and ast.unparse(loop.target) == d
                ctx.check(ok_loop, rule, site, "loop form: the order used in the step (%s) is the loop variable (%s)" % (d, ast.unparse(loop.target) if loop is not None else "no loop"), "step-loopvar:" + d)
                ctx.note(rule, "%s uses a loop for the recurrence: the descending order of the loop values and the start value are not decided" % site)
            else:
                ctx.undecided(rule, site, "previous value of the recurrence is neither a recursive call nor a loop-carried name: %s" % ast.unparse(prev)[:60])
    ctx.floor(rule, "recurrence steps analysed", total, 2)


# ---------------------------------------------------------------------------------------- R03.11
def _elementary_integral(e):
    """integral over [0, inf) of an elementary correlation kernel in the lag h, or None:  exp(-(h/c)^2) -> c*sqrt(pi)/2 ;  exp(-h/c) -> c"""
    import math as _m

    if not (isinstance(e, ast.Call) and ast.unparse(e.func) in ("np.exp", "math.exp") and len(e.args) == 1 and isinstance(e.args[0], ast.UnaryOp) and isinstance(e.args[0].op, ast.USub)):
        return None
    x = e.args[0].operand

    def is_h(b):
        # the lag itself, possibly through the array / absolute-value conversions the methods start with (the kernels are even in h)
        while isinstance(b, ast.Call) and ast.unparse(b.func) in ("np.asarray", "np.array", "np.abs", "abs", "np.atleast_1d") and b.args:
            b = b.args[0]
        return isinstance(b, ast.Name) and b.id == "h"

    def scaled_h(b):
        if is_h(b):
            return 1.0
        if isinstance(b, ast.BinOp) and isinstance(b.op, ast.Div) and is_h(b.left):
            try:
                return float(fold(b.right, {}))
            except (FoldError, TypeError):
                return None
        if isinstance(b, ast.BinOp) and isinstance(b.op, ast.Mult):
            for hh, cc in ((b.left, b.right), (b.right, b.left)):
                if is_h(hh):
                    try:
                        return 1.0 / float(fold(cc, {}))
                    except (FoldError, TypeError, ZeroDivisionError):
                        return None
        return None

    if isinstance(x, ast.BinOp) and isinstance(x.op, ast.Pow) and isinstance(x.right, ast.Constant) and x.right.value in (2, 2.0):
        c = scaled_h(x.left)
        return None if c is None else ("gaussian", c * _m.sqrt(_m.pi) / 2.0)
    c = scaled_h(x)
    return None if c is None else ("exponential", c)


def elementary_limits(ctx, rule="R03.11"):
    """Where a branch of `cor` is an elementary kernel (Gaussian / exponential in h), its integral over all lags is known in closed form.
    Every branch of calc_integral_scale that can be taken together with that branch and is a pure number times len_rescaled must be that
    number: the integral scale reported and the curve evaluated are then the same model also in the limit cases."""
    from ..small import UnrollError, return_cases

    prog = ctx.prog
    cm = prog.cls(BASE, "CovModel")
    n = 0
    for ci in prog.subclasses(cm):
        cor, cis = ci.methods.get("cor"), ci.methods.get("calc_integral_scale")
        if cor is None or cis is None:
            continue
        site = "%s::%s" % (ci.module.relpath, ci.name)
        try:
            ctab = return_cases(cor)
            itab = return_cases(cis)
        except UnrollError:
            continue
        for conds, txt in ctab:
            known = _elementary_integral(ast.parse(txt, mode="eval").body)
            if known is None:
                continue
            kind, want = known
            for iconds, itxt in itab:
                if any(negation_text(c) in conds for c in iconds):
                    continue  # cannot be taken together
                try:
                    got = float(fold(ast.parse(itxt, mode="eval").body, {"self.len_rescaled": 1.0}))
                except (FoldError, TypeError, ZeroDivisionError):
                    ctx.ok(rule, site, "cor branch [%s] is %s; calc_integral_scale uses its general formula there (not a pure number, limit not decidable): %s" % (", ".join(sorted(conds)) or "always", kind, itxt[:60]))
                    continue
                n += 1
                ctx.check(abs(got - want) <= 1e-12 * max(1.0, abs(want)), rule, site,
                          "cor branch [%s] = %s has integral %.6g * len_rescaled; calc_integral_scale branch [%s] returns %.6g * len_rescaled"
                          % (", ".join(sorted(conds)) or "always", txt, want, ", ".join(sorted(iconds)) or "always", got), "limit:%s" % (",".join(sorted(conds)) or "always"))
    ctx.floor(rule, "elementary cor branches with a numeric integral scale", n, 2)


def dimension_attribute(ctx, rule="R03.12"):
    """All formulas of a model class are written for ONE dimension, `self.dim` (for lat-lon models the dimension of the embedding space):
    no method of a CovModel subclass reads `field_dim` / `spatial_dim` (the parametric dimensions), which differ from `dim` exactly for
    lat-lon and space-time models - a formula using one of them disagrees there with its siblings that use `dim`."""
    prog = ctx.prog
    cm = prog.cls(BASE, "CovModel")
    n = 0
    for ci in prog.subclasses(cm):
        for kind in ("methods", "getters", "setters"):
            for name, fn in sorted(getattr(ci, kind).items()):
                reads = [a for a in ast.walk(fn) if isinstance(a, ast.Attribute) and isinstance(a.value, ast.Name) and a.value.id == "self" and a.attr in ("dim", "_dim", "field_dim", "spatial_dim")]
                for a in reads:
                    n += 1
                    ctx.check(a.attr == "dim", rule, "%s::%s.%s" % (ci.module.relpath, ci.name, name), "dimension read as self.%s" % a.attr, "dim-attr:%s" % a.attr)
    ctx.floor(rule, "dimension reads in model subclasses", n, 30)


def run(ctx):
    dimension_attribute(ctx)
    elementary_limits(ctx)
    from .C14 import no_subclass_caches

    no_subclass_caches(ctx, rule="R03.10")
    from .C12 import inverse_pairs

    inverse_pairs(ctx, rule="R03.9")  # the *_spatial variants evaluate the isotropic functions at the isometrized lag: same matrices and order as isometrize (shared with C12)
    from .C14 import no_cached_derived

    no_cached_derived(ctx, rule="R03.8")  # a cached derived quantity (integral scale, ...) that outlives a parameter change breaks the mutual consistency
    gamma_recurrence(ctx)
    derivation_closure(ctx)
    variant_siblings(ctx)
    unit_obligations(ctx)
    switch_agreement(ctx)
    rounding_consistency(ctx)
    tpl_weights(ctx)

    return (
        "Decides structural clauses of C03: (R03.1) for all 16 subsets of {cor, correlation, covariance, variogram} a subclass may define, _init_subclass (evaluated abstractly: hasattr is its only predicate) binds all four, "
        "acyclically, and rejects the empty subset; the five derived bodies match the identities variogram = var - cov + nugget, cov = var * correlation, correlation = 1 - (variogram - nugget)/var, and the two rescalings; "
        "(R03.2) axis / spatial / Yadrenko / nugget variants are siblings differing only in the base function; (R03.3) cor / correlation / integral-scale / TPL helper formulas are dimensionally homogeneous; (R03.4) a formula switch on a shape "
        "parameter is the same predicate in cor and spectral_density; (R03.5) integer orders of special functions are rounded, not truncated, under an is-nearly-integer guard; (R03.6) TPL superposition weights len**(2 hurst) agree at all six sites and the "
        "three TPL correlations are siblings. NOT decided: equality with the documented closed forms as values, integral scale as an integral, percentile root finding."
        ' (R03.11) a `cor` branch that is an elementary kernel has the closed-form integral the matching calc_integral_scale branch returns; (R03.12) model formulas read `self.dim` only; the Yadrenko variants evaluate the base function at exactly great_circle_to_chordal(zeta, geo_scale).'
    )
