F = "covmodel/fit.py"
CASES = [
    dict(name="revert-post-nugget-under-sill", file=F, expect="R10.3",
         old="""        if constrain_sill:  # nugget is determined by the fitted variance
            model.nugget = sill - var_tmp
            fit_para["nugget"] = model.nugget
""", new=""),
    dict(name="revert-var-restore", file=F, expect="R10.3",
         old="""    # needs to be reset for TPL models when len_scale was changed
    else:
        model.var = var_save
        fit_para["var"] = model.var
    return fit_para""", new="""    return fit_para"""),
    dict(name="dict-nugget-stale", file=F, expect="R10.4", old="            model.nugget = sill - var_tmp\n            fit_para[\"nugget\"] = model.nugget\n", new="            model.nugget = sill - var_tmp\n"),
    dict(name="default-para-reordered", file=F, expect="R10.1", old='DEFAULT_PARA = ["var", "len_scale", "nugget"]', new='DEFAULT_PARA = ["len_scale", "var", "nugget"]'),
    dict(name="curve-order-swapped", file=F, expect="R10.1",
         old="""        if para["len_scale"]:
            model.len_scale = args[para_skip]
            para_skip += 1
        if para["nugget"]:
            model.nugget = args[para_skip]
            para_skip += 1""",
         new="""        if para["nugget"]:
            model.nugget = args[para_skip]
            para_skip += 1
        if para["len_scale"]:
            model.len_scale = args[para_skip]
            para_skip += 1"""),
    dict(name="curve-cursor-not-advanced", file=F, expect="R10.1",
         old="""        if para["len_scale"]:
            model.len_scale = args[para_skip]
            para_skip += 1
        if para["nugget"]:""",
         new="""        if para["len_scale"]:
            model.len_scale = args[para_skip]
        if para["nugget"]:"""),
    dict(name="anis-from-head", file=F, expect="R10.1", old="                model.anis = args[1 - model.dim :]", new="                model.anis = args[: model.dim - 1]"),
    dict(name="post-opt-index", file=F, expect="R10.1", old="            setattr(model, opt, popt[para_skip + opt_skip])\n            fit_para[opt] = popt[para_skip + opt_skip]", new="            setattr(model, opt, popt[opt_skip])\n            fit_para[opt] = popt[opt_skip]"),
    dict(name="pack-anis-one-short", file=F, expect="R10.1", old="        for i in range(model.dim - 1):\n            low_bounds.append(model.anis_bounds[0])", new="        for i in range(model.dim - 2):\n            low_bounds.append(model.anis_bounds[0])"),
    dict(name="top-bound-from-lower", file=F, expect="R10.2", old="                top_bounds.append(model.arg_bounds[par][1])", new="                top_bounds.append(model.arg_bounds[par][0])"),
    dict(name="sill-cap-always", file=F, expect="R10.2", old='            if par == "var" and constrain_sill:  # var <= sill in this case', new='            if par == "var":  # var <= sill in this case'),
    dict(name="init-guess-closed", file=F, expect="R10.2", old="    if bounds[0] < default < bounds[1]:", new="    if bounds[0] <= default <= bounds[1]:"),
    dict(name="post-var-before-len-scale", file=F, expect="R10.3",
         old="""            if par == "var":  # set variance last
                var_tmp = popt[para_skip]
            else:
                setattr(model, par, popt[para_skip])""",
         new="""            setattr(model, par, popt[para_skip])
            if par == "var":  # set variance last
                var_tmp = popt[para_skip]"""),
    dict(name="curve-var-first", file=F, expect="R10.3",
         old="""        if para["var"]:
            var_tmp = args[para_skip]
            if constrain_sill:""",
         new="""        if para["var"]:
            var_tmp = args[para_skip]
            model.var = var_tmp
            if constrain_sill:"""),
    dict(name="var-save-before-pre-para", file=F, expect="R10.3",
         old="""    # preprocess selected parameters
    para, sill, constrain_sill, anis = _pre_para(
        model, para_select, sill, anis
    )
    # variance to be restored if it is not fitted (TPL models rescale it)
    var_save = model.var""",
         new="""    # variance to be restored if it is not fitted (TPL models rescale it)
    var_save = model.var
    # preprocess selected parameters
    para, sill, constrain_sill, anis = _pre_para(
        model, para_select, sill, anis
    )"""),
    dict(name="post-wrong-settings", file=F, expect=["R10.4"], old="        model, para, popt, anis, is_dir_vario, constrain_sill, sill, var_save\n    )\n    # calculate the r2", new="        model, para, popt, anis, is_dir_vario, False, sill, var_save\n    )\n    # calculate the r2"),
    dict(name="anis-flag-after-layout", file=F, expect="R10.4",
         old="""    # only fit anisotropy if a directional variogram was given
    anis &= is_dir_vario
    # set weights
    _set_weights(model, weights, x_data, curve_fit_kwargs, is_dir_vario)
    # set the lower/upper boundaries for the variogram-parameters
    bounds, init_guess_list = _init_curve_fit_para(
        model, para, init_guess, constrain_sill, sill, anis
    )""",
         new="""    # set weights
    _set_weights(model, weights, x_data, curve_fit_kwargs, is_dir_vario)
    # set the lower/upper boundaries for the variogram-parameters
    bounds, init_guess_list = _init_curve_fit_para(
        model, para, init_guess, constrain_sill, sill, anis
    )
    # only fit anisotropy if a directional variogram was given
    anis &= is_dir_vario"""),
    dict(name="fixed-value-stays-selected", file=F, expect="R10.5", old="                setattr(model, par, float(para_select[par]))\n            para_select[par] = False", new="                setattr(model, par, float(para_select[par]))"),
    dict(name="sill-var-fixed-nugget-not-set", file=F, expect="R10.5", old='            para_select["nugget"] = False\n            model.nugget = sill - model.var\n        elif "nugget" in para_select:', new='            para_select["nugget"] = False\n        elif "nugget" in para_select:'),
    dict(name="sill-else-keeps-nugget-fitted", file=F, expect="R10.5", old='            # nugget = sill - var\n            para_select["nugget"] = False', new='            # nugget = sill - var\n            pass'),
    dict(name="twin-post-loop-explicit", kind="twin", file=F,
         old="            model.nugget = sill - var_tmp\n            fit_para[\"nugget\"] = model.nugget\n", new="            model.nugget = sill - var_tmp\n            fit_para[\"nugget\"] = model.nugget\n            fit_para[\"nugget\"] = model.nugget\n"),
    dict(name="post-opt-args-ignore-standard-slots", file="covmodel/fit.py", expect="R10.1", old="            setattr(model, opt, popt[para_skip + opt_skip])\n            fit_para[opt] = popt[para_skip + opt_skip]", new="            setattr(model, opt, popt[opt_skip])\n            fit_para[opt] = popt[opt_skip]"),
    dict(name="curve-opt-args-shifted", file="covmodel/fit.py", expect="R10.1", old="                setattr(model, opt, args[para_skip + opt_skip])", new="                setattr(model, opt, args[para_skip + opt_skip + 1])"),
    dict(name="pack-opt-args-before-standard", file="covmodel/fit.py", expect="R10.1", accept_undecided=True,
         old="    for par in DEFAULT_PARA:\n        if para[par]:\n            low_bounds.append(model.arg_bounds[par][0])", new="    for par in reversed(DEFAULT_PARA):\n        if para[par]:\n            low_bounds.append(model.arg_bounds[par][0])"),
    dict(name="twin-post-single-cursor", kind="twin", file="covmodel/fit.py",
         old="            setattr(model, opt, popt[para_skip + opt_skip])\n            fit_para[opt] = popt[para_skip + opt_skip]\n            opt_skip += 1", new="            setattr(model, opt, popt[para_skip])\n            fit_para[opt] = popt[para_skip]\n            para_skip += 1"),
]
