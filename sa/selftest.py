"""Self-test corpus runner (thorough tier): seeded AST/text edits of the tree under analysis, applied in memory.

A *mutant* must add at least one violation (of the expected rule) to the base tree's report set;
a *benign twin* must leave the report set unchanged and produce no undecided obligation.
A miss is a checker defect (exit 2), never a property violation.
Nothing is written to disk: the loader takes the edited sources as overrides.
"""
import importlib
import multiprocessing as mp
import os

from . import core
from .loader import AnalysisError, Program


def corpus(prop):
    try:
        m = importlib.import_module("sa.corpus.%s" % prop)
        cases = list(m.CASES)
    except ImportError:
        cases = []
    # seeded changes written independently (sub-agents), confirmed by hand: /verif/seeded/<name>/{patch.diff, meta.json}
    sd = os.path.join(core.VERIF, "seeded")
    if os.path.isdir(sd):
        import json

        for name in sorted(os.listdir(sd)):
            mp = os.path.join(sd, name, "meta.json")
            pp = os.path.join(sd, name, "patch.diff")
            if not (os.path.exists(mp) and os.path.exists(pp)):
                continue
            meta = json.load(open(mp))
            if prop in meta.get("caught_by", []):
                cases.append(dict(name="seeded:" + name, patch=pp, expect=None, kind="mutant"))
    # behaviour-preserving refactors written independently (sub-agents): must stay silent for every property
    bd = os.path.join(core.VERIF, "benign")
    if os.path.isdir(bd):
        for name in sorted(os.listdir(bd)):
            if name.endswith(".diff"):
                cases.append(dict(name="benign:" + name[:-5], patch=os.path.join(bd, name), kind="twin"))
    # Cython kernel corpus written by sub-agents (cannot be compiled here, hence not "seeded changes"): benign refactorings are twins for every
    # property, bug-introducing edits are mutants for the properties listed in kernel/mutants/INDEX.json
    kb = os.path.join(core.VERIF, "kernel", "benign")
    if os.path.isdir(kb):
        for name in sorted(os.listdir(kb)):
            if name.endswith(".diff"):
                cases.append(dict(name="kernel-benign:" + name[:-5], patch=os.path.join(kb, name), kind="twin"))
    km = os.path.join(core.VERIF, "kernel", "mutants")
    idx = os.path.join(km, "INDEX.json")
    if os.path.exists(idx):
        import json

        for name, props in sorted(json.load(open(idx)).items()):
            if prop in props:
                cases.append(dict(name="kernel-mutant:" + name, patch=os.path.join(km, name + ".diff"), expect=None, kind="mutant"))
    return cases


def _apply(repo, case):
    """Return overrides dict or None if an anchor is missing."""
    ov = {}
    if case.get("patch"):
        from . import udiff

        try:
            files = udiff.parse(open(case["patch"]).read())
            for rel, hunks in files.items():
                p = os.path.join(repo, "src", "gstools", rel)
                if not os.path.exists(p):
                    return None
                with open(p, encoding="utf-8") as fh:
                    ov[rel] = udiff.apply(fh.read(), hunks)
        except udiff.PatchError:
            return None
        return ov or None
    edits = case.get("edits") or [dict(file=case["file"], old=case["old"], new=case["new"])]
    for e in edits:
        rel = e["file"]
        if rel in ov:
            text = ov[rel]
        else:
            p = os.path.join(repo, "src", "gstools", rel)
            if not os.path.exists(p):
                return None
            with open(p, encoding="utf-8") as fh:
                text = fh.read()
        if text.count(e["old"]) != 1:
            return None
        ov[rel] = text.replace(e["old"], e["new"])
    return ov


def _keys(ctx):
    return {r["key"] for r in ctx.records if r["status"] == "violation"}


def tree_digest(prog):
    """Digest of the analysed (normalised) trees: two programs with the same digest get the same verdict from every rule."""
    import ast
    import hashlib

    h = hashlib.sha1()
    for rel in sorted(prog.by_rel):
        h.update(rel.encode())
        h.update(ast.dump(prog.by_rel[rel].tree).encode())
    return h.hexdigest()


BASE_DIGEST = None


def _run_case(args):
    prop, repo, case, base_keys = args
    from .check import run_rules

    ov = _apply(repo, case)
    if ov is None:
        return case["name"], "skipped", "anchor not found (or not unique) in the tree under analysis"
    try:
        prog = Program(repo, overrides=ov)
        if case.get("kind") == "twin" and BASE_DIGEST is not None and tree_digest(prog) == BASE_DIGEST:
            return case["name"], "silent", "normal form identical to the tree under analysis"
        ctx, _ = run_rules(prop, prog, "quick")
    except AnalysisError as e:
        if case.get("kind", "mutant") == "mutant" and case.get("accept_analysis_error"):
            return case["name"], "caught", "analysis error (accepted): %s" % e
        return case["name"], "error", "AnalysisError: %s" % e
    except Exception as e:  # pragma: no cover
        return case["name"], "error", "%s: %s" % (type(e).__name__, e)
    keys = _keys(ctx)
    new = keys - base_keys
    anchor = [r for r in ctx.records if r["rule"] == "ANCHOR"]
    if anchor and not new:
        if case.get("kind", "mutant") == "mutant" and case.get("accept_analysis_error"):
            return case["name"], "caught", "analysis error (accepted): %s" % anchor[0]["detail"]
        return case["name"], "error", "AnalysisError: %s" % anchor[0]["detail"]
    und = [r for r in ctx.records if r["status"] == "undecided"]
    floor_fail = [f for f in ctx.floors if f[2] < f[3]]
    if case.get("kind", "mutant") == "twin":
        if new or (base_keys - keys) or und or floor_fail:
            return case["name"], "false-alarm", "twin changed the report set: +%s -%s undecided=%d" % (sorted(new)[:3], sorted(base_keys - keys)[:3], len(und))
        return case["name"], "silent", ""
    exp = case.get("expect")
    hit = [k for k in new if exp is None or any(k.startswith(x) for x in ([exp] if isinstance(exp, str) else exp))]
    if hit:
        return case["name"], "caught", hit[0][:200]
    if new:
        return case["name"], "caught-other", "caught by another rule than expected %s: %s" % (exp, sorted(new)[0][:160])
    if (und or floor_fail) and case.get("accept_undecided"):
        return case["name"], "caught", "undecided/fail-closed (accepted)"
    return case["name"], "missed", "no new violation (undecided=%d)" % len(und)


def run(prop, repo, base_ctx, jobs=16):
    cases = corpus(prop)
    base_keys = _keys(base_ctx)
    res = []
    global BASE_DIGEST
    BASE_DIGEST = tree_digest(base_ctx.prog) if getattr(base_ctx, "prog", None) is not None and not getattr(base_ctx.prog, "overrides", None) else None
    if cases:
        args = [(prop, repo, c, base_keys) for c in cases]
        if jobs > 1 and len(cases) > 2:
            with mp.get_context("fork").Pool(min(jobs, len(cases))) as pool:
                res = pool.map(_run_case, args)
        else:
            res = [_run_case(a) for a in args]
    out = dict(
        cases=len(cases),
        mutants=sum(1 for c in cases if c.get("kind", "mutant") == "mutant"),
        twins=sum(1 for c in cases if c.get("kind") == "twin"),
        caught=sum(1 for r in res if r[1] in ("caught", "caught-other")),
        silent_twins=sum(1 for r in res if r[1] == "silent"),
        skipped=[r[0] for r in res if r[1] == "skipped"],
        missed=["%s: %s" % (r[0], r[2]) for r in res if r[1] in ("missed", "false-alarm", "error")],
        results=[dict(name=r[0], outcome=r[1], detail=r[2]) for r in res],
    )
    print("   self-test: %d cases, %d mutants caught, %d twins silent, %d skipped, %d missed" % (len(cases), out["caught"], out["silent_twins"], len(out["skipped"]), len(out["missed"])))
    for r in res:
        if r[1] in ("missed", "false-alarm", "error", "skipped", "caught-other"):
            print("     %-12s %s  %s" % (r[1], r[0], r[2]))
    return out


if __name__ == "__main__":  # python3 -m sa.selftest C15  -> list outcomes
    import sys

    from .check import run_rules

    prop = sys.argv[1]
    prog = Program(core.REPO)
    ctx, _ = run_rules(prop, prog, "quick")
    o = run(prop, core.REPO, ctx)
    for r in o["results"]:
        print("%-12s %-40s %s" % (r["outcome"], r["name"], r["detail"][:150]))
