"""E4 STATE: derived-state coherence over all feasible paths of all entry points of a class."""
import ast

from . import paths
from .loader import AnalysisError


class Edge:
    def __init__(self, derived, source, note_only=False, reason=""):
        self.derived, self.source, self.note_only, self.reason = derived, source, note_only, reason


def entry_points(ci, include_private=(), exclude=()):
    """(qual, FunctionDef) of public methods, __init__/__call__, and property setters along the MRO (most derived wins)."""
    seen = {}
    for c in ci.mro():
        for name, f in c.methods.items():
            if name in exclude:
                continue
            if name.startswith("_") and name not in ("__init__", "__call__") and name not in include_private:
                continue
            seen.setdefault(("m", name), ("%s.%s" % (c.name, name), f, c))
        for name, f in c.setters.items():
            if name in exclude:
                continue
            seen.setdefault(("s", name), ("%s.%s@set" % (c.name, name), f, c))
    return [seen[k] for k in sorted(seen)]


def coherence(ctx, rule, ci, edges, entries=None, pseudo=None, extra=None, param_alias=None, equal_atoms=(), rel=None, type_assumptions=None, nonnull_methods=(), assume=None, mutating_calls=None, init_ver=None, note_entries=(), max_report_paths=3, raise_exits=False, field_types=None):
    """Check every normal-exit path of every entry point against the dependency edges.

    param_alias: {param name: field}  a value computed from that parameter counts as computed from the field
                 at version 'param:<name>' (e.g. Fourier.update computes delta_k from `model` before storing it).
    equal_atoms: substrings of atom keys that, when decided True, assert the parameter equals the stored field.
    raise_exits: also check the paths that leave through `raise` AFTER having written a source field: an update that is rejected half-way
                 must not leave the object with a new source and an old derived field (the caller may catch the exception and go on).
    """
    prog = ctx.prog
    rel = rel or ci.module.relpath
    ex = paths.Explorer(prog, ci, pseudo=pseudo, extra_self_funcs=extra)
    ex.type_assumptions = dict(type_assumptions or {})
    ex.nonnull_methods = set(nonnull_methods)
    ex.mutating_calls = dict(mutating_calls or {})
    ex.field_types = dict(field_types or {})
    entries = entries if entries is not None else entry_points(ci, exclude=("__init__",))
    param_alias = param_alias or {}
    total_paths = 0
    found = {}
    fields_written = set()
    for qual, fn, owner in entries:
        res = ex.explore(fn, qual, assume=assume, init_ver=init_ver)
        normal = [p for p, k in res if k == "normal"]
        raised = [p for p, k in res if k == "raise"] if raise_exits else []
        for p in raised:
            p._raised_exit = True
        total_paths += len(res)
        site = "%s::%s" % (rel, qual)
        bad_here = set()
        for p in normal + raised:
            for ev in p.events:
                if ev[0] == "write":
                    fields_written.add(ev[1])
            for e in edges:
                sver = p.version(e.source)
                if sver == "entry":
                    continue  # source untouched on this path: nothing can have become stale
                if sver == "changed-before-call" and e.source in (init_ver or {}):
                    # refresh entry point: the source may have been modified in place by the caller beforehand
                    tags0 = p.tags.get(e.derived)
                    if tags0 is not None and any(s_ == e.source for (s_, v_) in tags0):
                        continue
                tags = p.tags.get(e.derived)
                ok = False
                if tags is None:
                    ok = False  # derived field not rewritten although its source changed
                else:
                    versions = {v for (s, v) in tags if s == e.source}
                    if sver in versions:
                        ok = True
                    elif sver.startswith("param:") and ("param", sver[6:]) in tags:
                        ok = True
                    elif sver.startswith("copy-of:"):
                        ok = True
                    else:
                        # computed from a parameter aliasing the source field
                        for pn, fld in param_alias.items():
                            if fld == e.source and ("param", pn) in tags and sver == "param:" + pn:
                                ok = True
                if not ok:
                    # the write statement of the source (last one)
                    wr = [ev for ev in p.events if ev[0] == "write" and ev[1] == e.source]
                    wtext = wr[-1][3] if wr else "?"
                    if getattr(p, "_raised_exit", False) and not wr:
                        continue  # the source was not written by this call (changed by the caller beforehand): a rejected refresh leaves things as they were
                    key = (qual, e.derived, e.source, wtext + (" @raise" if getattr(p, "_raised_exit", False) else ""))
                    found.setdefault(key, []).append(p)
                    bad_here.add((e.derived, e.source))
            if getattr(p, "_raised_exit", False):
                continue
            # a derived field computed from a parameter while the aliased source keeps its old value and the path
            # does not establish equality -> stale w.r.t. the stored source
            for e in edges:
                tags = p.tags.get(e.derived)
                if tags is None:
                    continue
                for pn, fld in param_alias.items():
                    if fld == e.source and ("param", pn) in tags and p.version(fld) != "param:" + pn:
                        eq = any(val and any(s in k for s in equal_atoms) for k, val in p.assign.items())
                        if not eq:
                            key = (qual, e.derived, e.source, "computed from parameter `%s` which is not stored" % pn)
                            found.setdefault(key, []).append(p)
                            bad_here.add((e.derived, e.source))
        for e in edges:
            if (e.derived, e.source) not in bad_here:
                ctx.ok(rule, site, "%s is recomputed after every write of %s on all %d normal-exit paths" % (e.derived, e.source, len(normal)))
    for key in sorted(found):
        qual, d, s, wtext = key
        ps = found[key]
        ex_paths = []
        for p in ps[:max_report_paths]:
            ex_paths.append(paths.describe(p))
        e = [x for x in edges if x.derived == d and x.source == s][0]
        exc = wtext.endswith(" @raise")
        msg = "%s is left stale: %s is written (`%s`) and %s is not recomputed from it before %s on %d path(s); e.g. [%s]" % (
            d, s, wtext[:70], d, "the method raises (the object stays usable with a new source and an old derived field)" if exc else "a normal exit", len(ps), ex_paths[0])
        if e.note_only or qual in note_entries:
            ctx.note(rule, "%s::%s: %s (%s)" % (rel, qual, msg, e.reason))
        else:
            ctx.violation(rule, "%s::%s" % (rel, qual), msg, "%s<-%s after `%s`" % (d, s, wtext))
    return dict(paths=total_paths, entries=len(entries), fields_written=sorted(fields_written))
