"""C15 Compiled kernels under every thread count: race freedom, schedule independence, signature agreement."""
import ast
import os

from .. import prange as PR
from ..loader import AnalysisError, norm_stmt
from ..small import UnrollError, merge_cases, return_cases

KERNEL_MODULES = ["field/summator.pyx", "krige/krigesum.pyx", "variogram/estimator.pyx"]
WRAPPER_MODULES = ["field/generator.py", "krige/base.py", "variogram/variogram.py"]
# per-point designated inputs (locality, clause e): kernel -> {array: axis that must carry the owner index}
LOCAL_INPUT = {
    "summate": {"pos": 1},
    "summate_fourier": {"pos": 1},
    "summate_incompr": {"pos": 1},
    "calc_field_krige": {"krig_vecs": 1},
    "calc_field_krige_and_variance": {"krig_vecs": 1},
}
ALIAS = {"field": "f"}  # wrapper parameter name -> kernel parameter name


def resolve_fptr_targets(kfn, name, depth=0):
    """Targets of a call through local `name` (function pointer or direct helper) inside kernel kfn."""
    mod = kfn.mod
    if name in mod.functions:
        return {name}
    out = set()
    for n in ast.walk(kfn.node):
        if isinstance(n, ast.Assign) and any(isinstance(t, ast.Name) and t.id == name for t in n.targets):
            v = n.value
            if isinstance(v, ast.Name) and v.id in mod.functions:
                out.add(v.id)
            elif isinstance(v, ast.Call) and isinstance(v.func, ast.Name) and v.func.id in mod.functions and depth < 2:
                chooser = mod.functions[v.func.id]
                ck = PR.KernelFn(mod, v.func.id, chooser)
                for r in ast.walk(chooser):
                    if isinstance(r, ast.Return) and isinstance(r.value, ast.Name):
                        out |= resolve_fptr_targets(ck, r.value.id, depth + 1)
    return out


def loop_rules(ctx, rule="R15.1"):
    n_loops = 0
    prog = ctx.prog
    for rel in KERNEL_MODULES:
        mod = prog.mod(rel)
        if mod.pyx is None:
            raise AnalysisError("%s is not a Cython module" % rel)
        d = mod.pyx.directives
        ctx.check(
            d.get("boundscheck") == "False" and d.get("wraparound") == "False" and d.get("cdivision") == "True",
            rule, rel, "module directives boundscheck=False, wraparound=False, cdivision=True (index rules below rely on them being known)", "directives")
        for name, fn in mod.functions.items():
            if mod.pyx.functions[name]["kind"] != "def":
                continue
            kfn = PR.KernelFn(mod, name, fn)
            site0 = "%s::%s" % (rel, name)
            loops = list(PR.find_pranges(kfn))
            for loop, par, chain in loops:
                n_loops += 1
                site = "%s::prange(%s)" % (site0, ast.unparse(loop.target))
                PR.analyse_loop(kfn, loop, par, site, ctx, rule)
                # calls through function pointers: targets must be pure nogil helpers
                for node in ast.walk(loop):
                    if isinstance(node, ast.Call) and isinstance(node.func, ast.Name) and node.func.id not in mod.functions:
                        nm = node.func.id
                        if nm in kfn.types and not kfn.is_mv(nm) and kfn.types[nm].startswith("_"):
                            tg = resolve_fptr_targets(kfn, nm)
                            if not tg:
                                ctx.undecided(rule, site, "cannot resolve function pointer %s" % nm)
                            for t in sorted(tg):
                                ck = PR.KernelFn(mod, t, mod.functions[t])
                                st = [1 for _, tt, _ in PR.stores_in(ck.node.body) if isinstance(tt, ast.Subscript) and PR.base_name(tt) in ck.params]
                                ctx.check(not st and ck.info["nogil"], rule, site,
                                          "function-pointer target %s (via %s) is nogil and stores to none of its array parameters" % (t, nm), "fptr:" + t)
                # (e) locality
                for arr, axis in LOCAL_INPUT.get(name, {}).items():
                    p = loop.target.id
                    rd = PR.loads_of(loop.body, arr)
                    if not rd:
                        ctx.undecided(rule, site, "(e) designated per-point input %s is not read in the loop" % arr)
                    for ld in rd:
                        ctx.check(PR.p_positions(ld, p) == (axis,), rule, site,
                                  "(e) output element %s reads per-point input only at its own index: %s" % (p, ast.unparse(ld)), "e:" + ast.unparse(ld))
            # (f) array parameters are never stored to, nor handed to a helper that stores to its parameters
            for st, tgt, aug in PR.stores_in(fn.body):
                if isinstance(tgt, ast.Subscript) and PR.base_name(tgt) in kfn.params:
                    ctx.violation(rule, site0, "(f) kernel stores into its input array: %s" % norm_stmt(st), "f:" + norm_stmt(st))
            mv_params = [p for p in kfn.params if kfn.is_mv(p)]
            for node in ast.walk(fn):
                if isinstance(node, ast.Call) and isinstance(node.func, ast.Name):
                    targets = resolve_fptr_targets(kfn, node.func.id) if (node.func.id in mod.functions or node.func.id in kfn.types) else set()
                    for t in targets:
                        ck = PR.KernelFn(mod, t, mod.functions[t])
                        writes = {PR.base_name(tt) for _, tt, _ in PR.stores_in(ck.node.body) if isinstance(tt, ast.Subscript)}
                        writes |= _transitive_param_writes(mod, ck)
                        for i, a in enumerate(node.args):
                            if isinstance(a, ast.Name) and a.id in mv_params and i < len(ck.params) and ck.params[i] in writes:
                                ctx.violation(rule, site0, "(f) input array %s is passed to %s which writes its parameter %s" % (a.id, t, ck.params[i]), "f:call:%s:%s" % (t, a.id))
            ctx.ok(rule, site0, "(f) none of the %d array parameters is written (directly or through a helper)" % len(mv_params))
            # sequential kernel with shared scratch: summate_incompr
            if not loops and name == "summate_incompr":
                outer = [s for s in fn.body if isinstance(s, ast.For)]
                if len(outer) != 1:
                    ctx.undecided(rule, site0, "expected exactly one outer loop in sequential kernel")
                else:
                    lp = outer[0]
                    p = lp.target.id
                    for arr, axis in LOCAL_INPUT[name].items():
                        for ld in PR.loads_of(lp.body, arr):
                            ctx.check(PR.p_positions(ld, p) == (axis,), rule, site0,
                                      "(e) output column %s reads per-point input only at its own index: %s" % (p, ast.unparse(ld)), "e:" + ast.unparse(ld))
                    for st, tgt, aug in PR.stores_in(lp.body):
                        if isinstance(tgt, ast.Subscript) and PR.base_name(tgt) == "summed_modes":
                            ctx.check(PR.p_positions(tgt, p) == (1,), rule, site0,
                                      "(e) sequential kernel writes output only at the current point: %s" % ast.unparse(tgt), "e:" + norm_stmt(st))
    ctx.floor(rule, "prange loops analysed", n_loops, 8)
    return n_loops


def _transitive_param_writes(mod, ck, depth=0):
    """Parameters of ck that are passed on to in-module helpers which write them."""
    out = set()
    if depth > 2:
        return out
    for node in ast.walk(ck.node):
        if isinstance(node, ast.Call) and isinstance(node.func, ast.Name) and node.func.id in mod.functions:
            c2 = PR.KernelFn(mod, node.func.id, mod.functions[node.func.id])
            w2 = {PR.base_name(tt) for _, tt, _ in PR.stores_in(c2.node.body) if isinstance(tt, ast.Subscript)} | _transitive_param_writes(mod, c2, depth + 1)
            for i, a in enumerate(node.args):
                b = a
                while isinstance(b, ast.Subscript):
                    b = b.value
                if isinstance(b, ast.Name) and b.id in ck.params and i < len(c2.params) and c2.params[i] in w2:
                    out.add(b.id)
    return out


def _norm_default(s):
    return s.replace("np.pi", "M_PI").replace('"', "'").replace(" ", "")


def wrapper_rules(ctx, rule="R15.2"):
    prog = ctx.prog
    n = 0
    wrappers = {}
    for rel in WRAPPER_MODULES:
        mod = prog.mod(rel)
        for name, fn in mod.functions.items():
            # wrapper idiom: local X_fct assigned two alternative callables, `return X_fct(args)`
            rets = [s for s in fn.body if isinstance(s, ast.Return)]
            if len(rets) != 1 or not isinstance(rets[0].value, ast.Call) or not isinstance(rets[0].value.func, ast.Name):
                continue
            fct = rets[0].value.func.id
            targets = []
            for node in ast.walk(fn):
                if isinstance(node, ast.Assign) and any(isinstance(t, ast.Name) and t.id == fct for t in node.targets) and isinstance(node.value, ast.Name):
                    targets.append(node.value.id)
            if not targets:
                continue
            site = "%s::%s" % (rel, name)
            kernel = None
            for t in targets:
                dotted = mod.imports.get(t)
                if dotted and dotted.startswith("gstools."):
                    obj = prog.resolve_dotted(dotted)
                    if isinstance(obj, ast.FunctionDef):
                        kmod = prog.modules[dotted.rsplit(".", 1)[0]]
                        kernel = (kmod, obj)
            if kernel is None:
                ctx.undecided(rule, site, "wrapper does not resolve to an in-tree kernel (targets %s)" % targets)
                continue
            n += 1
            wrappers[name] = (mod, fn)
            kmod, kfn = kernel
            kinfo = kmod.pyx.functions[kfn.name]
            kparams = [p["name"] for p in kinfo["params"]]
            wparams = [a.arg for a in fn.args.args]
            call = rets[0].value
            ctx.check(not call.keywords and all(isinstance(a, ast.Name) for a in call.args), rule, site,
                      "wrapper forwards plain positional names to %s" % kfn.name, "forward-shape")
            passed = [a.id if isinstance(a, ast.Name) else ast.unparse(a) for a in call.args]
            ctx.check(passed == wparams, rule, site,
                      "wrapper passes its own parameters unchanged and in order: %s" % passed, "forward-order")
            mapped = [ALIAS.get(w, w) for w in wparams]
            ctx.check(mapped == kparams, rule, site,
                      "wrapper parameter order %s equals kernel %s.%s parameter order %s" % (wparams, kmod.relpath, kfn.name, kparams), "param-order")
            # defaults agree
            wdef = {}
            defaults = fn.args.defaults
            for a, dflt in zip(fn.args.args[len(fn.args.args) - len(defaults):], defaults):
                wdef[ALIAS.get(a.arg, a.arg)] = _norm_default(ast.unparse(dflt))
            kdef = {p["name"]: _norm_default(p["default"]) for p in kinfo["params"] if p["default"] is not None}
            ctx.check(wdef == kdef, rule, site, "wrapper and kernel defaults agree: %s" % wdef, "defaults")
    ctx.floor(rule, "kernel wrappers resolved", n, 9)

    # call sites of the wrappers
    sites = 0
    nt_sites = 0
    for m, q, f, ci, kind in prog.all_functions():
        for node in ast.walk(f):
            if isinstance(node, ast.Call) and isinstance(node.func, ast.Name) and node.func.id in wrappers and m.relpath in WRAPPER_MODULES:
                wmod, wfn = wrappers[node.func.id]
                if wmod is not m or f is wfn:
                    continue
                sites += 1
                site = "%s::%s -> %s" % (m.relpath, q, node.func.id)
                wparams = [a.arg for a in wfn.args.args]
                kw = [k.arg for k in node.keywords]
                ctx.check(len(node.args) <= len(wparams) and all(k in wparams for k in kw) and not (set(kw) & set(wparams[: len(node.args)])),
                          rule, site, "call binds each wrapper parameter at most once, keywords exist", "call-shape")
                bound = dict(zip(wparams, node.args))
                bound.update({k.arg: k.value for k in node.keywords})
                required = wparams[: len(wparams) - len(wfn.args.defaults)]
                ctx.check(all(r in bound for r in required), rule, site, "all required kernel inputs are bound", "call-required")
                if "num_threads" in bound:
                    nt_sites += 1
                    ctx.check(ast.unparse(bound["num_threads"]) == "config.NUM_THREADS", rule, site,
                              "num_threads is forwarded from config.NUM_THREADS unchanged", "num_threads")
                else:
                    ctx.note(rule, "%s does not pass num_threads (kernel default None = all cores); observation, not a violation" % site)
    ctx.floor(rule, "wrapper call sites", sites, 9)
    ctx.floor(rule, "call sites forwarding config.NUM_THREADS", nt_sites, 7)


def threads_rules(ctx, rule="R15.3"):
    prog = ctx.prog
    dumps = {}
    for rel in KERNEL_MODULES:
        mod = prog.mod(rel)
        fn = prog.func(rel, "set_num_threads")
        try:
            dumps[rel] = tuple(sorted((tuple(sorted(c)), v) for c, v in merge_cases(return_cases(fn))))
        except UnrollError as e:
            raise AnalysisError("set_num_threads of %s is no longer a decision table: %s" % (rel, e))
        # decision table of the function (independent of how the default is initialised or the branches are nested)
        ok = dumps[rel] == ((("OPENMP", "num_threads is None"), "openmp.omp_get_num_procs()"), (("not OPENMP", "num_threads is None"), "1"), (("num_threads is not None",), "num_threads"))
        ctx.check(ok, rule, rel + "::set_num_threads",
                  "None -> omp_get_num_procs() only under compile-time OPENMP (else 1); explicit value forwarded unchanged", "shape")
        ctx.check("OPENMP" in mod.pyx.compile_time_names, rule, rel, "compile-time name OPENMP guards the openmp cimport", "openmp-guard")
    ctx.check(len(set(dumps.values())) == 1, rule, "set_num_threads x3", "the three set_num_threads definitions have the same decision table", "identical")
    setup = os.path.join(prog.root, "setup.py")
    if not os.path.exists(setup):
        raise AnalysisError("anchor vanished: setup.py")
    tree = ast.parse(open(setup).read())
    keys = []
    for node in ast.walk(tree):
        if isinstance(node, ast.keyword) and node.arg == "compile_time_env" and isinstance(node.value, ast.Dict):
            keys = [k.value for k in node.value.keys if isinstance(k, ast.Constant)]
    ctx.check(keys == ["OPENMP"], rule, "setup.py", "compile_time_env defines exactly the name the kernels test (OPENMP): %s" % keys, "setup-env")
    exts = []
    for node in ast.walk(tree):
        if isinstance(node, ast.List) and all(isinstance(e, ast.Constant) and isinstance(e.value, str) for e in node.elts) and node.elts:
            vals = [e.value for e in node.elts]
            if all("." in v for v in vals):
                exts = vals
    want = sorted(r[:-4].replace("/", ".") for r in KERNEL_MODULES)
    ctx.check(sorted(exts) == want, rule, "setup.py", "every analysed .pyx is a built extension and vice versa: %s" % exts, "setup-exts")


def inputs_not_written(ctx, rule="R15.1", files=None):
    """(f) alone, for the properties whose data a kernel reads: no kernel stores into one of its array parameters (the caller's
    conditioning vectors / matrices / samples stay what the Python side computed; a `const` dropped from the signature still compiles)."""
    n = 0
    for rel in KERNEL_MODULES:
        if files is not None and rel not in files:
            continue
        mod = ctx.prog.mod(rel)
        for name, fn in sorted(mod.functions.items()):
            if mod.pyx.functions[name]["kind"] != "def":
                continue
            kfn = PR.KernelFn(mod, name, fn)
            site0 = "%s::%s" % (rel, name)
            bad = [st for st, tgt, aug in PR.stores_in(fn.body) if isinstance(tgt, ast.Subscript) and PR.base_name(tgt) in kfn.params]
            for st in bad:
                ctx.violation(rule, site0, "(f) kernel stores into its input array: %s" % norm_stmt(st), "f:" + norm_stmt(st))
            n += 1
            if not bad:
                ctx.ok(rule, site0, "(f) no array parameter is stored into")
    ctx.floor(rule, "kernels checked for stores into inputs", n, 1)


def run(ctx):
    from .C09 import directions
    from .C05 import chunks

    chunks(ctx, rule="R15.16", with_kernels=False)  # the Python dispatcher hands every target point to the kernels exactly once (shared with C05): an uncovered tail keeps uninitialised memory

    directions(ctx, rule="R15.5")  # what the directional kernel assumes about its arguments (normed directions, bandwidth 'off' value, separated flag with |cos|)
    loop_rules(ctx)
    wrapper_rules(ctx)
    threads_rules(ctx)
    from . import C15_bounds, C15_kernels

    C15_bounds.run(ctx)
    C15_kernels.run(ctx)
    return (
        "Decides clause (c) of C15 (bit-identical for every thread count) and the race-freedom part of (a) by loop-shape "
        "analysis of every prange/parallel region in the three .pyx kernels: each array element written in a parallel loop is "
        "owned by exactly one value of the parallel index, no scalar is accumulated across parallel iterations (no OpenMP "
        "reduction), helpers are pure nogil functions, inputs are never written, per-point locality holds; plus wrapper/kernel "
        "signature agreement, set_num_threads agreement and index-in-bounds (boundscheck=False). NOT decided: numerical equality of the "
        "kernels with their defining sums, and agreement of the compiled .so with the source (Cython is not installed)."
    )
