G = "field/generator.py"
CASES = [
    dict(name="revert-seed-identity-randmeth", file=G, expect="R11.2",
         old="""    @seed.setter
    def seed(self, new_seed):
        if new_seed != self._seed:
            self.reset_seed(new_seed)

    @property
    def model(self):
        \"\"\":any:`CovModel`: Covariance model of the spatial random field.\"\"\"
        return self._model

    @model.setter
    def model(self, model):
        self.update(model)

    @property
    def mode_no(self):
        \"\"\":class:`int`: Number of modes in the randomization method.\"\"\"""",
         new="""    @seed.setter
    def seed(self, new_seed):
        if new_seed is not self._seed:
            self.reset_seed(new_seed)

    @property
    def model(self):
        \"\"\":any:`CovModel`: Covariance model of the spatial random field.\"\"\"
        return self._model

    @model.setter
    def model(self, model):
        self.update(model)

    @property
    def mode_no(self):
        \"\"\":class:`int`: Number of modes in the randomization method.\"\"\""""),
    dict(name="revert-fourier-delta-k", file=G, expect="R11.1", old="        if period is not None or new_model:\n", new="        if period is not None:\n"),
    dict(name="revert-fourier-reseed-equal-model", file=G, expect="R11.1",
         old="""            elif new_mesh:
                self.reset_seed(self._seed)
""", new=""),
    dict(name="revert-fourier-reseed-same-seed", file=G, expect="R11.1",
         old="""            if isinstance(self._model, CovModel):
                if new_mesh:
                    self.reset_seed(seed)
                else:
                    self.seed = seed
            else:
                raise ValueError(
                    "gstools.field.generator.Fourier: no 'model' given\"""",
         new="""            if isinstance(self._model, CovModel):
                self.seed = seed
            else:
                raise ValueError(
                    "gstools.field.generator.Fourier: no 'model' given\""""),
    dict(name="mode-no-setter-no-reseed", file=G, expect="R11.1",
         old="            self._mode_no = int(mode_no)\n            self.reset_seed(self._seed)\n", new="            self._mode_no = int(mode_no)\n"),
    dict(name="randmeth-new-model-no-reseed", file=G, expect="R11.1",
         old="""            if self.model != model:
                self._model = dcp(model)
                if seed is None or not np.isnan(seed):
                    self.reset_seed(seed)
                else:
                    self.reset_seed(self._seed)
            # just update the seed, if its a new one
            elif seed is None or not np.isnan(seed):
                self.seed = seed
        # or just update the seed, when no model is given
        elif model is None and (seed is None or not np.isnan(seed)):
            if isinstance(self._model, CovModel):
                self.seed = seed
            else:
                raise ValueError(
                    "gstools.field.generator.RandMeth: no 'model' given\"""",
         new="""            if self.model != model:
                self._model = dcp(model)
                if seed is None or not np.isnan(seed):
                    self.reset_seed(seed)
            # just update the seed, if its a new one
            elif seed is None or not np.isnan(seed):
                self.seed = seed
        # or just update the seed, when no model is given
        elif model is None and (seed is None or not np.isnan(seed)):
            if isinstance(self._model, CovModel):
                self.seed = seed
            else:
                raise ValueError(
                    "gstools.field.generator.RandMeth: no 'model' given\""""),
    dict(name="reset-seed-skips-wavevectors", file=G, expect="R11.1",
         old="        # get fully spatial samples by multiplying sphere samples and radii\n        self._cov_sample = rad * sphere_coord\n",
         new="        # get fully spatial samples by multiplying sphere samples and radii\n        if self._cov_sample is None:\n            self._cov_sample = rad * sphere_coord\n"),
    dict(name="fourier-set-modes-keeps-count", file=G, expect="R11.1",
         old="            if mode_no is None:\n                self._set_modes(self._mode_no, dim)\n", new="            if mode_no is None and self._modes is None:\n                self._set_modes(self._mode_no, dim)\n"),
    dict(name="model-not-copied", file=G, expect="R11.3",
         old="""            if self.model != model:
                self._model = dcp(model)
                if seed is None or not np.isnan(seed):
                    self.reset_seed(seed)
                else:
                    self.reset_seed(self._seed)
            # just update the seed, if its a new one
            elif seed is None or not np.isnan(seed):
                self.seed = seed
        # or just update the seed, when no model is given
        elif model is None and (seed is None or not np.isnan(seed)):
            if isinstance(self._model, CovModel):
                self.seed = seed
            else:
                raise ValueError(
                    "gstools.field.generator.RandMeth: no 'model' given\"""",
         new="""            if self.model != model:
                self._model = model
                if seed is None or not np.isnan(seed):
                    self.reset_seed(seed)
                else:
                    self.reset_seed(self._seed)
            # just update the seed, if its a new one
            elif seed is None or not np.isnan(seed):
                self.seed = seed
        # or just update the seed, when no model is given
        elif model is None and (seed is None or not np.isnan(seed)):
            if isinstance(self._model, CovModel):
                self.seed = seed
            else:
                raise ValueError(
                    "gstools.field.generator.RandMeth: no 'model' given\""""),
    dict(name="compare-ignores-anis", file="covmodel/tools.py", expect="R11.4", old="    equal &= np.all(np.isclose(this.anis, that.anis))\n", new=""),
    dict(name="compare-ignores-optargs", file="covmodel/tools.py", expect="R11.4",
         old="    for opt in this.opt_arg:\n        equal &= np.isclose(getattr(this, opt), getattr(that, opt))\n    return equal", new="    return equal"),
    dict(name="compare-ignores-dim", file="covmodel/tools.py", expect="R11.4", old="    if this.dim != that.dim:\n        return False\n", new=""),
    dict(name="kernel-nonlocal", file="field/summator.pyx", expect="R11.5",
         old="                phase += cov_samples[d, j] * pos[d, i]\n            summed_modes[i] += z_1[j] * cos(phase) + z_2[j] * sin(phase)",
         new="                phase += cov_samples[d, j] * (pos[d, i] - pos[d, 0])\n            summed_modes[i] += z_1[j] * cos(phase) + z_2[j] * sin(phase)"),
    dict(name="prepos-no-grid", file="field/base.py", expect="R11.5", old="            pos = generate_grid(self.pos)\n        else:\n            pos = self.pos\n        # return isometrized", new="            pos = self.pos\n        else:\n            pos = self.pos\n        # return isometrized"),
    dict(name="nugget-global-rng", file=G, expect="R11.6",
         old="""    def get_nugget(self, shape):
        \"\"\"
        Generate normal distributed values for the nugget simulation.

        Parameters
        ----------
        shape : :class:`tuple`
            the shape of the summed modes

        Returns
        -------
        nugget : :class:`numpy.ndarray`
            the nugget in the same shape as the summed modes
        \"\"\"
        if self.model.nugget > 0:
            nugget = np.sqrt(self.model.nugget) * self._rng.random.normal(
                size=shape
            )
        else:
            nugget = 0.0
        return nugget

    def update(self, model=None, seed=np.nan):""",
         new="""    def get_nugget(self, shape):
        \"\"\"
        Generate normal distributed values for the nugget simulation.
        \"\"\"
        if self.model.nugget > 0:
            nugget = np.sqrt(self.model.nugget) * np.random.normal(
                size=shape
            )
        else:
            nugget = 0.0
        return nugget

    def update(self, model=None, seed=np.nan):"""),
    dict(name="srf-no-update", file="field/srf.py", expect="R11.7", old="        self.generator.update(self.model, seed)\n", new=""),
    dict(name="srf-update-after", file="field/srf.py", expect="R11.7",
         old="""        self.generator.update(self.model, seed)
        # get isometrized positions and the resulting field-shape
        iso_pos, shape = self.pre_pos(pos, mesh_type)
        # generate the field
        field = np.reshape(self.generator(iso_pos), shape)""",
         new="""        # get isometrized positions and the resulting field-shape
        iso_pos, shape = self.pre_pos(pos, mesh_type)
        # generate the field
        field = np.reshape(self.generator(iso_pos), shape)
        self.generator.update(self.model, seed)"""),
    dict(name="condsrf-update-wrong-seed", file="field/cond_srf.py", expect="R11.7", old="        self.generator.update(self.model, seed)\n", new="        self.generator.update(self.model)\n"),
    # twins
    dict(name="twin-mode-no-setter-via-update", kind="twin", file=G,
         old="            self._mode_no = int(mode_no)\n            self.reset_seed(self._seed)\n", new="            self._mode_no = int(mode_no)\n            self.reset_seed(self.seed)\n"),
    dict(name="twin-reset-seed-reordered", kind="twin", file=G,
         old="""        self._z_1 = self._rng.random.normal(size=self._mode_no)
        self._z_2 = self._rng.random.normal(size=self._mode_no)
        # sample uniform on a sphere""",
         new="""        n_modes = self._mode_no
        self._z_1 = self._rng.random.normal(size=n_modes)
        self._z_2 = self._rng.random.normal(size=n_modes)
        # sample uniform on a sphere"""),
    dict(name="twin-fourier-explicit-else", kind="twin", file=G,
         old="""            elif new_mesh:
                self.reset_seed(self._seed)
""", new="""            elif new_mesh:
                self.reset_seed(self._seed)
            else:
                pass
"""),
]
