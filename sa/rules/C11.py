"""C11 Seeded generation is deterministic and local: derived generator state, seed equality, private model copy,
exact change detection, locality, randomness discipline."""
import ast

from .. import paths, state
from .. import prange as PR
from ..loader import AnalysisError, ClassInfo, norm_stmt
from ..small import arms
from ..state import Edge as E

GEN = "field/generator.py"

RANDMETH_EDGES = [
    E("_rng", "_seed"),
    E("_z_1", "_rng"), E("_z_1", "_mode_no"),
    E("_z_2", "_rng"), E("_z_2", "_mode_no"),
    E("_cov_sample", "_rng"), E("_cov_sample", "_mode_no"), E("_cov_sample", "_model"),
    E("_cov_sample", "_sampling", note_only=True, reason="`sampling` is not among the settings C11 quantifies over; recorded as a note"),
]
FOURIER_EDGES = [
    E("_rng", "_seed"),
    E("_z_1", "_rng"), E("_z_1", "_mode_no"),
    E("_z_2", "_rng"), E("_z_2", "_mode_no"),
    E("_delta_k", "_period"), E("_delta_k", "_model"),
    E("_modes", "_delta_k"), E("_mode_no", "_delta_k"),
    E("_spectrum_factor", "_model"), E("_spectrum_factor", "_modes"), E("_spectrum_factor", "_delta_k"),
]


def generator_coherence(ctx, rule="R11.1"):
    prog = ctx.prog
    stats = {}
    for cname, edges, kw in (
        ("RandMeth", RANDMETH_EDGES, {}),
        ("IncomprRandMeth", RANDMETH_EDGES, {}),
        ("Fourier", FOURIER_EDGES, dict(param_alias={"model": "_model"}, equal_atoms=("Eq param:model",), nonnull_methods=("_fill_to_dim",))),
    ):
        ci = prog.cls(GEN, cname)
        # every edge must still be grounded in an assignment site of the derived field that reads the source
        st = state.coherence(ctx, rule, ci, edges, type_assumptions={"model": "CovModel"}, rel=GEN, raise_exits=True, field_types={"_model": "CovModel"}, **kw)
        stats[cname] = st
        for e in edges:
            if e.derived not in st["fields_written"] or (e.source not in st["fields_written"]):
                raise AnalysisError("frozen dependency edge %s <- %s of %s has no assignment site any more" % (e.derived, e.source, cname))
    ctx.floor(rule, "feasible paths explored", sum(s["paths"] for s in stats.values()), 150)
    ctx.floor(rule, "entry points (methods/setters)", sum(s["entries"] for s in stats.values()), 20)
    return stats


TYPE_NAMES = {"int", "float", "str", "bool", "list", "tuple", "dict", "set", "type", "object", "bytes", "complex"}


def is_type_expr(prog, mod, e):
    if isinstance(e, ast.Call) and isinstance(e.func, ast.Name) and e.func.id == "type":
        return True
    if isinstance(e, ast.Attribute) and e.attr == "__class__":
        return True
    if isinstance(e, ast.Name) and (e.id in TYPE_NAMES or isinstance(prog.resolve_expr(mod, e), ClassInfo)):
        return True
    if ast.unparse(e) in ("np.ma.nomask", "np.newaxis", "NotImplemented", "Ellipsis"):
        return True
    return False


# identity comparisons that are meant as identity: one line per exemption, with its reason
LINT_IS_EXEMPT = {
    ("field/cond_srf.py", "CondSRF.__call__", "self.krige[krige_name[1]] is self._krige_var_ref"):
        "object provenance of a cached ARRAY: the raw kriging field may be reused only with the very variance object it was computed with (R07.8); a value comparison would be wrong",
    ("field/cond_srf.py", "CondSRF.__call__", "self[name[2]] is self._raw_krige_ref"):
        "object provenance of a cached ARRAY: the stored raw kriging field must be the very array that was stored together with the remembered variance (R07.8, repair 5bf918c)",
}


def lint_is(ctx, rule="R11.2"):
    prog = ctx.prog
    n = 0
    for m, q, f, ci, kind in prog.all_functions():
        if kind == "nested":
            continue
        for node in ast.walk(f):
            if isinstance(node, ast.Compare) and any(isinstance(o, (ast.Is, ast.IsNot)) for o in node.ops):
                ops = [node.left] + node.comparators
                singleton = any(isinstance(o, ast.Constant) and (o.value is None or isinstance(o.value, bool) or o.value is Ellipsis) for o in ops)
                n += 1
                site = "%s::%s" % (m.relpath, q)
                if (m.relpath, q, ast.unparse(node)) in LINT_IS_EXEMPT:
                    ctx.ok(rule, site, "identity comparison exempted: %s (%s)" % (ast.unparse(node), LINT_IS_EXEMPT[(m.relpath, q, ast.unparse(node))]))
                elif singleton or all(is_type_expr(prog, m, o) for o in ops) or any(is_type_expr(prog, m, o) for o in ops):
                    ctx.ok(rule, site, "identity comparison against a singleton / type object: %s" % ast.unparse(node))
                else:
                    ctx.violation(rule, site, "identity comparison of possibly-numeric values (result depends on object identity, not value): %s" % ast.unparse(node), ast.unparse(node))
    ctx.floor(rule, "identity comparisons inspected", n, 60)


def private_copy(ctx, rule="R11.3"):
    prog = ctx.prog
    gen = prog.cls(GEN, "Generator")
    n = 0
    for ci in prog.subclasses(gen):
        for kind in ("methods", "setters"):
            for name, fn in getattr(ci, kind).items():
                for node in ast.walk(fn):
                    if isinstance(node, ast.Assign):
                        for t in node.targets:
                            if isinstance(t, ast.Attribute) and isinstance(t.value, ast.Name) and t.value.id == "self" and t.attr == "_model":
                                n += 1
                                v = node.value
                                ok = (isinstance(v, ast.Constant) and v.value is None) or (
                                    isinstance(v, ast.Call) and ast.unparse(v.func) in ("dcp", "deepcopy", "copy.deepcopy") and len(v.args) == 1)
                                ctx.check(ok, rule, "%s::%s.%s" % (GEN, ci.name, name),
                                          "the generator keeps a private deep copy of the model (so `self.model != model` can see in-place changes): %s" % norm_stmt(node), norm_stmt(node))
    imp = prog.mod(GEN).imports.get("dcp")
    ctx.check(imp == "copy.deepcopy", rule, GEN, "`dcp` is copy.deepcopy (import resolves to %s)" % imp, "dcp-import")
    ctx.floor(rule, "stores to a generator's _model", n, 4)


def change_detection(ctx, rule="R11.4"):
    """compare() must look at every parameter field a CovModel setter can write, and do so exactly."""
    prog = ctx.prog
    cmp_fn = prog.func("covmodel/tools.py", "compare")
    eq_stores = sorted((n for n in ast.walk(cmp_fn) if (isinstance(n, ast.Assign) and any(isinstance(t, ast.Name) and t.id == "equal" for t in n.targets))
                        or (isinstance(n, ast.AugAssign) and isinstance(n.target, ast.Name) and n.target.id == "equal")), key=lambda n: n._ord)
    if eq_stores:
        later_plain = [norm_stmt(n)[:60] for n in eq_stores[1:] if not (isinstance(n, ast.AugAssign) and isinstance(n.op, ast.BitAnd))
                       and not (isinstance(n, ast.Assign) and isinstance(n.value, ast.BoolOp) and isinstance(n.value.op, ast.And) and any(isinstance(v, ast.Name) and v.id == "equal" for v in n.value.values))]
        ctx.check(not later_plain, rule, "covmodel/tools.py::compare", "every comparison is AND-ed into the verdict (a plain assignment would discard the earlier ones)%s" % ("" if not later_plain else ": " + "; ".join(later_plain)), "verdict-accumulates")
        # ... and unconditionally: a comparison that runs only for some models (e.g. "only if this one is anisotropic") lets a change from the
        # other kind of model go unnoticed; the only admissible guards are the class test and the loop over the optional arguments
        cond = []
        for n_ in eq_stores:
            for anc in ast.walk(cmp_fn):
                if isinstance(anc, ast.If) and any(x is n_ for b_ in (anc.body, anc.orelse) for y in b_ for x in ast.walk(y)):
                    t_ = ast.unparse(anc.test)
                    if any(isinstance(a_, ast.Attribute) and isinstance(a_.value, ast.Name) and a_.value.id in ("this", "that") and a_.attr not in ("__class__", "name") for a_ in ast.walk(anc.test)):
                        cond.append("%s under `if %s`" % (norm_stmt(n_)[:50], t_[:40]))
        ctx.check(not cond, rule, "covmodel/tools.py::compare", "no comparison is guarded by a property of one of the two models%s" % ("" if not cond else ": " + "; ".join(cond[:2])), "unconditional")
    cm = prog.cls("covmodel/base.py", "CovModel")
    tools = prog.mod("covmodel/tools.py")
    extra = {n: (tools, tools.functions[n]) for n in ("set_dim", "set_arg_bounds", "check_arg_bounds", "set_opt_args") if n in tools.functions}
    ex = paths.Explorer(prog, cm, extra_self_funcs=extra)
    written = {}
    skip = {"var_bounds", "len_scale_bounds", "nugget_bounds", "anis_bounds", "hankel_kw"}
    for name, fn in cm.setters.items():
        if name in skip:
            continue
        ws = set()
        for p, k in ex.explore(fn, "CovModel.%s@set" % name):
            for ev in p.events:
                if ev[0] == "write":
                    ws.add(ev[1])
        written[name] = ws
    cmp_fn = prog.func("covmodel/tools.py", "compare")
    read_props = {n.attr for n in ast.walk(cmp_fn) if isinstance(n, ast.Attribute) and isinstance(n.value, ast.Name) and n.value.id in ("this", "that")}
    read_fields = set()
    for pr in read_props:
        read_fields |= ex.getter_reads(pr, cm) or {pr}
    dyn = any(isinstance(n, ast.Call) and getattr(n.func, "id", "") == "getattr" for n in ast.walk(cmp_fn))
    derived_ok = {"_sft": "recomputed from _dim/_hankel_kw, never read by generators", "_integral_scale": "cache written by calc_integral_scale"}
    for name in sorted(written):
        missing = sorted(f for f in written[name] if f not in read_fields and f not in derived_ok and not f.startswith("DYN["))
        ctx.check(not missing, rule, "covmodel/tools.py::compare",
                  "every field the `%s` setter can write (%s) is compared by CovModel.__eq__" % (name, sorted(written[name])), "unread:%s:%s" % (name, missing))
    ctx.check(dyn and "opt_arg" in read_props, rule, "covmodel/tools.py::compare", "optional arguments are compared (loop over opt_arg with getattr)", "opt-arg")
    eq = prog.func("covmodel/base.py", "CovModel.__eq__")
    ok = any(isinstance(n, ast.Call) and getattr(n.func, "id", "") == "compare" for n in ast.walk(eq))
    ctx.check(ok, rule, "covmodel/base.py::CovModel.__eq__", "__eq__ delegates to compare(); no __ne__ override changes `!=`", "eq-delegates")
    ctx.check("__ne__" not in cm.methods, rule, "covmodel/base.py::CovModel", "no __ne__ override", "ne")
    # exactness
    tol = sorted({ast.unparse(n.func) for n in ast.walk(cmp_fn) if isinstance(n, ast.Call) and ast.unparse(n.func) in ("np.isclose", "np.allclose", "math.isclose")})
    ctx.check(not tol, rule, "covmodel/tools.py::compare",
              "change detector gating regeneration is exact (tolerance-based calls found: %s)" % tol, "tolerance:" + ",".join(tol))
    for nm in ("geo_scale", "hankel_kw"):
        if nm not in read_props:
            ctx.note(rule, "compare() does not look at `%s` (never read by a generator; note only)" % nm)
    ctx.floor(rule, "CovModel parameter setters analysed", len(written), 8)


SAMPLED = ("_z_1", "_z_2", "_cov_sample")


def single_sampler(ctx, rule="R11.12"):
    """The random amplitudes and wave vectors of a generator come from ONE place, `reset_seed` (which draws them from a freshly seeded
    stream in a fixed order); no other method writes them - taking over part of an earlier sample (a prefix, a permutation) is not the
    sample a fresh generator with the new settings would draw (the MCMC radii of a shorter request are not a prefix of a longer one)."""
    prog = ctx.prog
    n = 0
    for cname in ("RandMeth", "IncomprRandMeth", "Fourier"):
        ci = prog.cls(GEN, cname)
        for kind in ("methods", "getters", "setters"):
            for name, fn in sorted(getattr(ci, kind).items()):
                ws = sorted({t.attr for st in ast.walk(fn) if isinstance(st, (ast.Assign, ast.AugAssign)) for t in (st.targets if isinstance(st, ast.Assign) else [st.target])
                             for t in ([t] if not isinstance(t, ast.Tuple) else t.elts) if isinstance(t, ast.Attribute) and isinstance(t.value, ast.Name) and t.value.id == "self" and t.attr in SAMPLED
                             and not (isinstance(st, ast.Assign) and isinstance(st.value, ast.Constant) and st.value.value is None)})
                if not ws:
                    continue
                n += 1
                ctx.check(name == "reset_seed" and kind == "methods", rule, "%s::%s.%s" % (GEN, cname, name if kind == "methods" else name + "@set"),
                          "writes the sampled fields %s" % ws, "sampler:%s" % ",".join(ws))
    ctx.floor(rule, "methods writing sampled fields", n, 2)


def requested_positions(ctx, rule="R11.9"):
    """Field.set_pos(pos, mesh_type) must leave exactly the requested positions in the object: the generator is evaluated at
    self.pos (pre_pos), so any other value written there - e.g. the previous tuple when the new one is 'equal' up to a tolerance -
    makes the value returned for a location depend on what was generated before."""
    prog = ctx.prog
    fld = prog.cls("field/base.py", "Field")
    n = 0
    for ci in [fld] + list(prog.subclasses(fld)):
        fn = ci.methods.get("set_pos")
        if fn is None:
            continue
        params = [a.arg for a in fn.args.args]
        site = "%s::%s.set_pos" % (ci.module.relpath, ci.name)
        for st in ast.walk(fn):
            tgts = []
            if isinstance(st, ast.Assign):
                for t in st.targets:
                    tgts += list(t.elts) if isinstance(t, (ast.Tuple, ast.List)) else [t]
            elif isinstance(st, (ast.AugAssign, ast.AnnAssign)):
                tgts = [st.target]
            for t in tgts:
                if isinstance(t, ast.Attribute) and isinstance(t.value, ast.Name) and t.value.id == "self" and t.attr in ("pos", "_pos", "mesh_type", "_mesh_type"):
                    n += 1
                    want = t.attr.lstrip("_")
                    val = st.value if not isinstance(st, ast.AugAssign) else None
                    ok = isinstance(val, ast.Name) and val.id == want and want in params and isinstance(st, ast.Assign) and len(st.targets) == 1 \
                        and not any(isinstance(x, ast.Name) and x.id == want and isinstance(x.ctx, ast.Store) for x in ast.walk(fn))
                    ctx.check(ok, rule, site, "self.%s receives the `%s` argument of this call, unmodified: `%s`" % (t.attr, want, norm_stmt(st)), "store:%s:%s" % (t.attr, norm_stmt(st)[:50]))
    ctx.floor(rule, "stores to pos / mesh_type in set_pos", n, 2)
    pre = prog.func("field/base.py", "Field.pre_pos")
    reads = sorted({ast.unparse(x) for x in ast.walk(pre) if isinstance(x, ast.Attribute) and ast.unparse(x) in ("self.pos", "self._pos")})
    ctx.check(reads == ["self.pos"], rule, "field/base.py::Field.pre_pos", "the positions handed to the generator are read back from self.pos (set by set_pos just before): %s" % reads, "prepos-reads")


def mesh_block_offsets(ctx, rule="R11.10"):
    """generate_on_mesh (meshio, centroids): the field generated on the stacked centroids is cut back into one piece per cell block with
    (offset, length) pairs.  Symbolic run of the block loop for three blocks with r0, r1, r2 cells: offset_k must be r0 + ... + r(k-1)
    and length_k must be r_k - otherwise cells receive the values of other locations."""
    fn = ctx.prog.func("field/tools.py", "generate_on_mesh")
    site = "field/tools.py::generate_on_mesh"
    loops = [n for n in ast.walk(fn) if isinstance(n, ast.For) and ast.unparse(n.iter) == "mesh.cells"]
    if len(loops) != 1:
        raise AnalysisError("anchor vanished: loop over mesh.cells in generate_on_mesh")
    lp = loops[0]
    # abstract values: ("arr", {sym: coef}) rows of an array ; ("list", n_items, {sym: coef} total rows of the items)
    pre = {}
    for st in ast.walk(fn):
        if isinstance(st, ast.Assign) and len(st.targets) == 1 and isinstance(st.targets[0], ast.Name) and st._ord < lp._ord:
            v = st.value
            t = ast.unparse(v)
            if isinstance(v, ast.List) and not v.elts:
                pre[st.targets[0].id] = ("list", 0, {})
            elif t.startswith("np.empty((0,"):
                pre[st.targets[0].id] = ("arr", {})
    env = dict(pre)
    offsets, lengths = [], []

    def add(a, b):
        out = dict(a)
        for k, v in b.items():
            out[k] = out.get(k, 0) + v
        return out

    def rows(e):
        """number of rows / items denoted by e: {sym: coef} (+ '1' for constants) or None"""
        t = ast.unparse(e)
        if isinstance(e, ast.Subscript) and isinstance(e.value, ast.Attribute) and e.value.attr == "shape" and isinstance(e.value.value, ast.Name) and ast.unparse(e.slice) == "0":
            v = env.get(e.value.value.id)
            return v[1] if v is not None and v[0] == "arr" else None
        if isinstance(e, ast.Call) and getattr(e.func, "id", "") == "len" and len(e.args) == 1 and isinstance(e.args[0], ast.Name):
            v = env.get(e.args[0].id)
            if v is None:
                return None
            return v[1] if v[0] == "arr" else {"1": v[1]}
        del t
        return None

    undec = None
    for k in range(3):
        sym = "r%d" % k
        for st in lp.body:
            if isinstance(st, ast.Assign) and len(st.targets) == 1 and isinstance(st.targets[0], ast.Name):
                nm, v = st.targets[0].id, st.value
                if isinstance(v, ast.Call) and ast.unparse(v.func) == "np.vstack" and len(v.args) == 1 and isinstance(v.args[0], (ast.Tuple, ast.List)):
                    tot = {}
                    for a in v.args[0].elts:
                        av = env.get(a.id) if isinstance(a, ast.Name) else None
                        if av is None or av[0] != "arr":
                            undec = "vstack operand %s" % ast.unparse(a)
                            break
                        tot = add(tot, av[1])
                    env[nm] = ("arr", tot)
                else:
                    env[nm] = ("arr", {sym: 1})  # the centroids of block k: r_k rows
            elif isinstance(st, ast.Expr) and isinstance(st.value, ast.Call) and isinstance(st.value.func, ast.Attribute) and st.value.func.attr == "append" and isinstance(st.value.func.value, ast.Name):
                tgt, arg = st.value.func.value.id, st.value.args[0]
                if tgt == "offset":
                    offsets.append(rows(arg))
                elif tgt == "length":
                    lengths.append(rows(arg))
                else:
                    cur = env.get(tgt)
                    av = env.get(arg.id) if isinstance(arg, ast.Name) else None
                    if cur is not None and cur[0] == "list" and av is not None and av[0] == "arr":
                        env[tgt] = ("list", cur[1] + 1, add(cur[2], av[1]))
                    else:
                        undec = "append to %s" % tgt
            else:
                undec = "statement %s" % norm_stmt(st)[:60]
    if undec or len(offsets) != 3 or len(lengths) != 3 or any(o is None for o in offsets) or any(x is None for x in lengths):
        ctx.undecided(rule, site, "block loop not interpretable: %s (offsets %s, lengths %s)" % (undec, offsets, lengths))
        return
    clean = lambda d: {k: v for k, v in d.items() if v}
    want_off = [{}, {"r0": 1}, {"r0": 1, "r1": 1}]
    want_len = [{"r0": 1}, {"r1": 1}, {"r2": 1}]
    ctx.check([clean(o) for o in offsets] == want_off, rule, site, "block k starts at the number of centroids of all earlier blocks: offsets %s for block sizes r0, r1, r2" % [clean(o) for o in offsets], "block-offsets")
    ctx.check([clean(x) for x in lengths] == want_len, rule, site, "block k has as many values as it has cells: lengths %s" % [clean(x) for x in lengths], "block-lengths")
    cut = [n for n in ast.walk(fn) if isinstance(n, ast.Subscript) and isinstance(n.slice, ast.Slice) and ast.unparse(n.slice) == "off:off + leng"]
    ctx.check(len(cut) == 1, rule, site, "each block receives field[off : off + leng]", "block-cut")


def locality(ctx, rule="R11.5"):
    prog = ctx.prog
    from .C15 import LOCAL_INPUT

    n = 0
    mod = prog.mod("field/summator.pyx")
    for name in ("summate", "summate_fourier", "summate_incompr"):
        fn = prog.func("field/summator.pyx", name)
        kfn = PR.KernelFn(mod, name, fn)
        loops = [l for l, par, ch in PR.find_pranges(kfn)] or [s for s in fn.body if isinstance(s, ast.For)]
        for lp in loops:
            p = lp.target.id
            for arr, axis in LOCAL_INPUT[name].items():
                for ld in PR.loads_of(lp.body, arr):
                    n += 1
                    ctx.check(PR.p_positions(ld, p) == (axis,), rule, "field/summator.pyx::" + name,
                              "value at point %s reads the position array only at that point: %s" % (p, ast.unparse(ld)), ast.unparse(ld))
            outs = [t for _, t, _ in PR.stores_in(lp.body) if isinstance(t, ast.Subscript) and PR.base_name(t) == "summed_modes"]
            for t in outs:
                n += 1
                ctx.check(p in [ast.unparse(x) for x in PR.index_elts(t)], rule, "field/summator.pyx::" + name, "output written only at the current point: %s" % ast.unparse(t), ast.unparse(t))
    ctx.floor(rule, "kernel position reads / output writes", n, 6)
    # structured meshes are expanded to point lists before the generator runs
    pre = prog.func("field/base.py", "Field.pre_pos")
    ifs = [s for s in pre.body if isinstance(s, ast.If) and "mesh_type" in ast.unparse(s.test)]
    ok = False
    if ifs and arms(ifs[-1], "self.mesh_type != 'unstructured'") is not None:
        a_st, a_un = arms(ifs[-1], "self.mesh_type != 'unstructured'")
        txt_then = " ".join(norm_stmt(s) for s in a_st)
        txt_else = " ".join(norm_stmt(s) for s in a_un)
        ok = txt_then == "pos = generate_grid(self.pos)" and txt_else == "pos = self.pos"
    ctx.check(ok, rule, "field/base.py::Field.pre_pos", "structured axes are expanded with generate_grid to the full point list, unstructured positions are used as given", "expand")
    from .C12 import prepos_isometrizes_once

    ctx.check(prepos_isometrizes_once(pre), rule, "field/base.py::Field.pre_pos", "the generator receives model.isometrize(point list)", "iso")
    for cls, rel in (("SRF", "field/srf.py"), ("CondSRF", "field/cond_srf.py")):
        fn = prog.func(rel, cls + ".__call__")
        calls = [n for n in ast.walk(fn) if isinstance(n, ast.Call) and ast.unparse(n.func) == "self.generator"]
        ok = len(calls) == 1 and calls[0].args and ast.unparse(calls[0].args[0]) == "iso_pos"
        src = [n for n in ast.walk(fn) if isinstance(n, ast.Assign) and "iso_pos" in ast.unparse(n.targets[0])]
        ok = ok and len(src) == 1 and isinstance(src[0].value, ast.Call) and ast.unparse(src[0].value.func) == "self.pre_pos"
        ctx.check(ok, rule, "%s::%s.__call__" % (rel, cls), "generator is called with the isometrized point list returned by pre_pos", "gen-arg")


def randomness(ctx, rule="R11.6"):
    prog = ctx.prog
    n = 0
    for m, q, f, ci, kind in prog.all_functions():
        if kind == "nested" or m.relpath in ("field/plot.py", "covmodel/plot.py"):
            continue
        for node in ast.walk(f):
            if isinstance(node, ast.Call):
                t = ast.unparse(node.func)
                if isinstance(node.func, ast.Attribute) and isinstance(node.func.value, ast.Call):
                    continue  # method of an object just constructed (e.g. RandomState(seed).choice); the constructor call is inspected itself
                if t.startswith(("np.random.", "rand.", "random.", "numpy.random.")):
                    n += 1
                    ok = t in ("np.random.RandomState", "rand.RandomState", "np.random.default_rng") and (node.args or node.keywords)
                    ctx.check(ok, rule, "%s::%s" % (m.relpath, q), "no draw from NumPy's global random state; explicitly seeded RandomState only: %s" % ast.unparse(node)[:70], t)
    ctx.floor(rule, "numpy.random call sites", n, 3)
    a = prog.func(GEN, "RandMeth.get_nugget")
    b = prog.func(GEN, "Fourier.get_nugget")
    ctx.check(ast.dump(ast.Module(a.body[1:], [])) == ast.dump(ast.Module(b.body[1:], [])), rule, GEN, "RandMeth.get_nugget and Fourier.get_nugget are identical", "nugget-siblings")
    draws = [ast.unparse(n.func) for n in ast.walk(a) if isinstance(n, ast.Call) and "normal" in ast.unparse(n.func)]
    ctx.check(draws == ["self._rng.random.normal"], rule, GEN + "::RandMeth.get_nugget", "nugget noise is drawn from the generator's seeded RNG: %s" % draws, "nugget-rng")
    for cname in ("RandMeth", "Fourier"):
        rs = prog.func(GEN, cname + ".reset_seed")
        draws = sorted({ast.unparse(n.func) for n in ast.walk(rs) if isinstance(n, ast.Call) and isinstance(n.func, ast.Attribute) and ast.unparse(n.func).startswith("self._rng")})
        other = [ast.unparse(n.func) for n in ast.walk(rs) if isinstance(n, ast.Call) and ast.unparse(n.func).split(".")[-1] in ("normal", "uniform", "rand", "choice", "randint") and not ast.unparse(n.func).startswith("self._rng")]
        rng_assign = [n for n in ast.walk(rs) if isinstance(n, ast.Assign) and ast.unparse(n.targets[0]) == "self._rng"]
        ok = len(rng_assign) == 1 and ast.unparse(rng_assign[0].value) == "RNG(self._seed)" and not other
        ctx.check(ok, rule, "%s::%s.reset_seed" % (GEN, cname), "all draws come from RNG(self._seed): %s" % draws, "reset-rng")
    # RNG: each access to .random is a RandomState seeded from the master stream
    rg = prog.func("random/rng.py", "RNG.random@get")
    ctx.check(any(ast.unparse(s.value) == "rand.RandomState(self._master_rng())" for s in rg.body if isinstance(s, ast.Return)), rule, "random/rng.py::RNG.random",
              "RNG.random is a RandomState seeded by the master RNG", "rng-random")
    mr = prog.func("random/tools.py", "MasterRNG.__init__")
    ctx.check("rand.RandomState(seed)" in ast.unparse(mr), rule, "random/tools.py::MasterRNG", "master stream is RandomState(seed)", "master")


def update_before_generate(ctx, rule="R11.7"):
    prog = ctx.prog
    for cls, rel in (("SRF", "field/srf.py"), ("CondSRF", "field/cond_srf.py")):
        ci = prog.cls(rel, cls)
        fn = prog.func(rel, cls + ".__call__")
        ex = paths.Explorer(prog, ci, inline_filter=lambda q: False)
        res = ex.explore(fn, cls + ".__call__")
        bad = 0
        tot = 0
        for p, k in res:
            if k != "normal":
                continue
            tot += 1
            calls = [ev[1] for ev in p.events if ev[0] == "call"]
            if "self.generator" in calls:
                gi = calls.index("self.generator")
                if "self.generator.update" not in calls[:gi]:
                    bad += 1
        ctx.check(bad == 0 and tot > 0, rule, "%s::%s.__call__" % (rel, cls),
                  "generator.update(model, seed) precedes the generator call on all %d normal paths" % tot, "update-first")
        upd = [n for n in ast.walk(fn) if isinstance(n, ast.Call) and ast.unparse(n.func) == "self.generator.update"]
        ok = len(upd) == 1 and [ast.unparse(a) for a in upd[0].args] == ["self.model", "seed"]
        ctx.check(ok, rule, "%s::%s.__call__" % (rel, cls), "update receives the field's model and the call's seed", "update-args")


def run(ctx):
    single_sampler(ctx)
    from . import C15_kernels as _K

    _K.accumulator_reset(ctx, rule="R11.11")  # mode-summation kernels: phase reset per mode, every point and mode visited (shared with C15)
    _K.accumulator_complete(ctx, rule="R11.11")
    _K.build_independent(ctx, rule="R11.11")
    _K.kernel_shape(ctx, rule="R11.11")
    _K.full_extent(ctx, rule="R11.11")
    _K.zero_init(ctx, rule="R11.11")
    from . import C15_bounds

    C15_bounds.run(ctx, rule="R11.11", files=("field/summator.pyx",), floor=20)
    _K.mode_terms(ctx, rule="R11.11")
    _K.double_precision(ctx, rule="R11.11")
    from ..small import none_default_rule

    none_default_rule(ctx, "R11.8", ["field/", "random/"], 20)
    generator_coherence(ctx)
    lint_is(ctx)
    private_copy(ctx)
    change_detection(ctx)
    locality(ctx)
    mesh_block_offsets(ctx)
    requested_positions(ctx)
    randomness(ctx)
    update_before_generate(ctx)
    return (
        "Decides the history/structure clauses of C11: (R11.1) on every feasible path (predicate abstraction over the branch atoms, callees inlined) of every "
        "public method/setter of RandMeth, IncomprRandMeth and Fourier, each derived field (rng, amplitudes, wave vectors, mode mesh, spectrum factors) is recomputed "
        "after the last write of each of its sources; (R11.2) no identity comparison of non-singleton values anywhere; (R11.3) generators keep a deep copy of the model; "
        "(R11.4) CovModel.__eq__ covers every field a setter writes and is exact; (R11.5) kernels read positions only at the output point and structured meshes are "
        "expanded before generation; (R11.6) no global random state; (R11.7) update precedes generation. NOT decided: numerical field values."
    )
