"""DOMAIN engine (C18): the open interval on which a normalizer's transform is defined, derived from its partial operations.

Partial operations and their domains (frozen from NumPy semantics, NaN otherwise):
    np.log(x)            x > 0
    np.log1p(y)          y > -1
    x ** p, np.power(x, p) with p not an integer literal   x > 0   (open: the declared ranges are open intervals)
The operand must be affine in the data, a + b*t, with t possibly restricted to a sign region by a mask
(`pos = data >= 0`; data[pos], data[~pos], np.abs(data)).  Solving a + b*t > 0 is a sign case split on b; no solver.
"""
import ast

from .loader import AnalysisError


def _rewrite(e):
    """np.multiply/np.add/np.divide/np.subtract/np.negative -> operators."""
    class T(ast.NodeTransformer):
        def visit_Call(self, n):
            self.generic_visit(n)
            fn = ast.unparse(n.func)
            ops = {"np.multiply": ast.Mult, "np.add": ast.Add, "np.divide": ast.Div, "np.subtract": ast.Sub, "np.true_divide": ast.Div}
            if fn in ops and len(n.args) == 2:
                return ast.BinOp(n.args[0], ops[fn](), n.args[1])
            if fn == "np.negative" and len(n.args) == 1:
                return ast.UnaryOp(ast.USub(), n.args[0])
            return n
    import copy

    return ast.fix_missing_locations(T().visit(copy.deepcopy(e)))


def has_data(e, data_names):
    return any(isinstance(n, ast.Name) and n.id in data_names for n in ast.walk(e))


def is_param_expr(e):
    return any(isinstance(n, ast.Attribute) and isinstance(n.value, ast.Name) and n.value.id == "self" for n in ast.walk(e))


def num(e):
    try:
        v = ast.literal_eval(e)
        return v if isinstance(v, (int, float)) else None
    except Exception:
        return None


class Affine:
    """a + b*t ; a, b are ASTs (data-free); region of t: 'any' | 'nonneg' | 'neg'"""

    def __init__(self, a, b, region):
        self.a, self.b, self.region = a, b, region


def C(v):
    return ast.Constant(v)


def mul(x, y):
    nx, ny = num(x), num(y)
    if nx is not None and ny is not None:
        return C(nx * ny)
    if nx == 0 or ny == 0:
        return C(0)
    if nx == 1:
        return y
    if ny == 1:
        return x
    if nx == -1:
        return neg(y)
    if ny == -1:
        return neg(x)
    return ast.BinOp(x, ast.Mult(), y)


def add(x, y):
    nx, ny = num(x), num(y)
    if nx is not None and ny is not None:
        return C(nx + ny)
    if nx == 0:
        return y
    if ny == 0:
        return x
    return ast.BinOp(x, ast.Add(), y)


def neg(x):
    n = num(x)
    if n is not None:
        return C(-n)
    if isinstance(x, ast.UnaryOp) and isinstance(x.op, ast.USub):
        return x.operand
    return ast.UnaryOp(ast.USub(), x)


def affine(e, data_names, masks):
    """Return Affine or None (not affine in the data)."""
    if isinstance(e, ast.Name) and e.id in data_names:
        return Affine(C(0), C(1), "any")
    if isinstance(e, ast.Subscript) and isinstance(e.value, ast.Name) and e.value.id in data_names:
        key = ast.unparse(e.slice)
        if key in masks:
            return Affine(C(0), C(1), masks[key])
        return None
    if isinstance(e, ast.Call) and ast.unparse(e.func) in ("np.abs", "abs", "np.absolute", "np.fabs") and len(e.args) == 1:
        inner = affine(e.args[0], data_names, masks)
        if inner is not None and num(inner.a) == 0 and num(inner.b) in (1, -1):
            return Affine(C(0), C(1), "abs")  # t = |data| >= 0; a bound on t is a symmetric bound on the data
        return None
    if isinstance(e, ast.UnaryOp) and isinstance(e.op, ast.USub):
        x = affine(e.operand, data_names, masks)
        return Affine(neg(x.a), neg(x.b), x.region) if x else None
    if isinstance(e, ast.BinOp):
        ld, rd = has_data(e.left, data_names), has_data(e.right, data_names)
        if isinstance(e.op, (ast.Add, ast.Sub)):
            if ld and not rd:
                x = affine(e.left, data_names, masks)
                c = e.right if isinstance(e.op, ast.Add) else neg(e.right)
                return Affine(add(x.a, c), x.b, x.region) if x else None
            if rd and not ld:
                x = affine(e.right, data_names, masks)
                if x is None:
                    return None
                if isinstance(e.op, ast.Sub):
                    x = Affine(neg(x.a), neg(x.b), x.region)
                return Affine(add(e.left, x.a), x.b, x.region)
            return None
        if isinstance(e.op, ast.Mult):
            if ld and not rd:
                x = affine(e.left, data_names, masks)
                return Affine(mul(x.a, e.right), mul(x.b, e.right), x.region) if x else None
            if rd and not ld:
                x = affine(e.right, data_names, masks)
                return Affine(mul(e.left, x.a), mul(e.left, x.b), x.region) if x else None
            return None
    return None


def sign_of(e):
    """Sign of a data-free expression: '+', '-', '0', or 'param' (depends on a parameter), or None."""
    n = num(e)
    if n is not None:
        return "+" if n > 0 else "-" if n < 0 else "0"
    if is_param_expr(e):
        return "param"
    return None


class Constraint:
    """kind: 'total' | 'lower' | 'upper' | 'param-signed' | 'unknown'; bound: AST of the threshold (for lower/upper)
    for param-signed: a, b ASTs with threshold -a/b, lower bound where b > 0, upper bound where b < 0."""

    def __init__(self, kind, bound=None, a=None, b=None, op="", region="any"):
        self.kind, self.bound, self.a, self.b, self.op, self.region = kind, bound, a, b, op, region

    def __repr__(self):
        if self.kind in ("lower", "upper"):
            return "%s(%s %s %s)" % (self.op, "t >" if self.kind == "lower" else "t <", ast.unparse(self.bound), "")
        if self.kind == "param-signed":
            return "%s(%s + (%s)*t > 0 on %s)" % (self.op, ast.unparse(self.a), ast.unparse(self.b), self.region)
        return "%s(%s)" % (self.op, self.kind)


def positivity(aff, shift, op):
    """Constraint for  (a + shift) + b*t > 0  over t in region."""
    a = add(aff.a, C(shift))
    sb = sign_of(aff.b)
    sa = sign_of(a)
    if sb == "0":
        return Constraint("total" if sa == "+" else "unknown", op=op)
    if sb in ("+", "-") and sa in ("+", "-", "0"):
        thr = -num(a) / num(aff.b)
        if sb == "+":
            if aff.region in ("nonneg", "abs") and thr < 0:
                return Constraint("total", op=op)
            if aff.region == "abs":
                return Constraint("unknown", op=op)
            if aff.region == "neg":
                return Constraint("unknown", op=op) if thr >= 0 else Constraint("lower", C(thr), op=op)
            return Constraint("lower", C(thr), op=op)
        if aff.region == "neg" and thr > 0:
            return Constraint("total", op=op)
        if aff.region in ("nonneg", "abs") and thr <= 0:
            return Constraint("unknown", op=op)
        return Constraint("upper", C(thr), op=op, region=aff.region)
    if sb in ("+", "-") and sa == "param":
        # t > -a/b with numeric b
        thr = neg(a) if num(aff.b) == 1 else (a if num(aff.b) == -1 else ast.BinOp(neg(a), ast.Div(), aff.b))
        return Constraint("lower" if sb == "+" else "upper", thr, op=op, region=aff.region)
    if sb == "param":
        return Constraint("param-signed", a=a, b=aff.b, op=op, region=aff.region)
    return Constraint("unknown", op=op)


def is_int_literal(e):
    n = num(e)
    return n is not None and float(n).is_integer()


def constraints_of(expr, data_names, masks):
    """All partial-operation constraints inside expr."""
    out = []
    expr = _rewrite(expr)
    for n in ast.walk(expr):
        operand, shift, op = None, 0, None
        if isinstance(n, ast.Call):
            fn = ast.unparse(n.func)
            if fn in ("np.log", "np.log10", "np.log2", "np.sqrt") and len(n.args) == 1:
                operand, shift, op = n.args[0], 0, fn
            elif fn == "np.log1p" and len(n.args) == 1:
                operand, shift, op = n.args[0], 1, fn
            elif fn == "np.power" and len(n.args) == 2 and not is_int_literal(n.args[1]):
                operand, shift, op = n.args[0], 0, "power"
        elif isinstance(n, ast.BinOp) and isinstance(n.op, ast.Pow) and not is_int_literal(n.right):
            operand, shift, op = n.left, 0, "power"
        if operand is None or not has_data(operand, data_names):
            continue
        aff = affine(operand, data_names, masks)
        if aff is None:
            out.append(Constraint("unknown", op="%s of non-affine operand %s" % (op, ast.unparse(operand))))
        else:
            out.append(positivity(aff, shift, op))
    return out


def canon(e):
    """Canonical text of a threshold expression: (sign, numerator factors, denominator factors) over rewritten ops."""
    from .rules.C16 import signed_factors

    e = _rewrite(e)
    s, nume, den = signed_factors(e)
    nume = [x for x in nume if x not in ("1", "1.0")]
    val = 1.0
    rest = []
    for x in nume:
        try:
            val *= float(ast.literal_eval(x))
        except Exception:
            rest.append(x)
    den2 = []
    for x in den:
        try:
            val /= float(ast.literal_eval(x))
        except Exception:
            den2.append(x)
    if val < 0:
        s, val = -s, -val
    return (s, val, tuple(sorted(rest)), tuple(sorted(den2)))


def function_branches(fn, data_name="data"):
    """Split a transform body into (predicate text or 'generic', [expressions computing the result], masks).

    Handles:  if P: return X  / fallthrough return Y ;  and the masked-assembly form
              mask = data >= 0 ; if P: res[mask] = X else: res[mask] = Y ; ... ; return res
    """
    masks = {}
    branches = {}
    data_names = {data_name}

    def note_masks(st):
        if isinstance(st, ast.Assign) and isinstance(st.targets[0], ast.Name) and isinstance(st.value, ast.Compare) and len(st.value.ops) == 1:
            c = st.value
            if isinstance(c.left, ast.Name) and c.left.id in data_names and num(c.comparators[0]) == 0:
                nm = st.targets[0].id
                if isinstance(c.ops[0], ast.GtE):
                    masks[nm], masks["~" + nm] = "nonneg", "neg"
                elif isinstance(c.ops[0], ast.Lt):
                    masks[nm], masks["~" + nm] = "neg", "nonneg"
                elif isinstance(c.ops[0], ast.Gt):
                    masks[nm], masks["~" + nm] = "nonneg", "neg"  # t > 0 subset of nonneg; complement includes 0 (handled as neg+0)

    def add_expr(pred, e):
        branches.setdefault(pred, []).append(e)

    def walk(stmts, pred):
        for st in stmts:
            note_masks(st)
            if isinstance(st, ast.If):
                p = ast.unparse(st.test)
                walk(st.body, p if pred == "generic" else pred + " & " + p)
                if st.orelse:
                    walk(st.orelse, "generic" if pred == "generic" else pred)
            elif isinstance(st, ast.Return) and st.value is not None:
                add_expr(pred, st.value)
            elif isinstance(st, ast.Assign):
                if isinstance(st.targets[0], ast.Subscript):
                    add_expr(pred, st.value)
                elif isinstance(st.targets[0], ast.Name) and st.targets[0].id in data_names:
                    pass
                else:
                    add_expr(pred, st.value)

    body = [s for s in fn.body if not (isinstance(s, ast.Expr) and isinstance(s.value, ast.Constant))]
    walk(body, "generic")
    return branches, masks


# ------------------------------------------------------------------------------------------------
# FOLD over parameter samples: evaluate closed arithmetic over a finite set of parameter sign classes
INF = float("inf")


class EvalError(Exception):
    pass


def feval(e, env):
    """Evaluate a closed scalar expression (no data) with env: {'self.lmbda': 0.5, ...}."""
    t = ast.unparse(e)
    if t in env:
        return env[t]
    if isinstance(e, ast.Constant):
        return e.value
    if t in ("np.inf", "numpy.inf", "math.inf"):
        return INF
    if t in ("np.pi", "math.pi"):
        import math

        return math.pi
    if isinstance(e, ast.UnaryOp):
        v = feval(e.operand, env)
        if isinstance(e.op, ast.USub):
            return -v
        if isinstance(e.op, ast.UAdd):
            return v
        if isinstance(e.op, ast.Not):
            return not v
    if isinstance(e, ast.BinOp):
        a, b = feval(e.left, env), feval(e.right, env)
        try:
            if isinstance(e.op, ast.Add):
                return a + b
            if isinstance(e.op, ast.Sub):
                return a - b
            if isinstance(e.op, ast.Mult):
                return a * b
            if isinstance(e.op, ast.Div):
                return a / b
            if isinstance(e.op, ast.Pow):
                return a ** b
        except ZeroDivisionError:
            raise EvalError("division by zero in %s" % t)
    if isinstance(e, ast.Compare) and len(e.ops) == 1:
        a, b = feval(e.left, env), feval(e.comparators[0], env)
        op = e.ops[0]
        return {ast.Lt: a < b, ast.LtE: a <= b, ast.Gt: a > b, ast.GtE: a >= b, ast.Eq: a == b, ast.NotEq: a != b}[type(op)]
    if isinstance(e, ast.BoolOp):
        vals = [feval(v, env) for v in e.values]
        return all(vals) if isinstance(e.op, ast.And) else any(vals)
    if isinstance(e, ast.IfExp):
        return feval(e.body, env) if feval(e.test, env) else feval(e.orelse, env)
    if isinstance(e, ast.Tuple):
        return tuple(feval(x, env) for x in e.elts)
    if isinstance(e, ast.Call):
        fn = ast.unparse(e.func)
        args = [feval(a, env) for a in e.args]
        if fn == "np.isclose" and len(args) == 2:
            return abs(args[0] - args[1]) <= 1e-8 + 1e-5 * abs(args[1])
        try:
            if fn in ("np.divide", "np.true_divide"):
                return args[0] / args[1]
        except ZeroDivisionError:
            raise EvalError("division by zero in %s" % t)
        if fn == "np.multiply":
            return args[0] * args[1]
        if fn == "np.add":
            return args[0] + args[1]
        if fn == "np.subtract":
            return args[0] - args[1]
        if fn == "np.negative":
            return -args[0]
        if fn in ("abs", "np.abs"):
            return abs(args[0])
        if fn in ("float", "int"):
            return float(args[0])
        if fn in ("min", "max"):
            return min(args) if fn == "min" else max(args)
    raise EvalError("cannot evaluate %s" % t)


def run_scalar_function(fn, env):
    """Interpret `if P: return X ... return Y` bodies (range properties) under env; returns the evaluated value."""
    def walk(stmts):
        for st in stmts:
            if isinstance(st, ast.Expr) and isinstance(st.value, ast.Constant):
                continue
            if isinstance(st, ast.If):
                r = walk(st.body if feval(st.test, env) else st.orelse)
                if r is not None:
                    return r
            elif isinstance(st, ast.Return):
                return ("v", feval(st.value, env))
            elif isinstance(st, ast.Assign) and len(st.targets) == 1 and isinstance(st.targets[0], ast.Name):
                env[st.targets[0].id] = feval(st.value, env)
            else:
                raise EvalError("unsupported statement in range property: %s" % type(st).__name__)
        return None

    env = dict(env)
    r = walk(fn.body)
    if r is None:
        raise EvalError("range property has a path without return")
    return r[1]


def executed_exprs(fn, env, data_name="data"):
    """Result expressions of a transform body executed under parameter assignment env, plus masks."""
    masks = {}
    out = []
    data_names = {data_name}

    def walk(stmts):
        for st in stmts:
            if isinstance(st, ast.Expr) and isinstance(st.value, ast.Constant):
                continue
            if isinstance(st, ast.If):
                try:
                    c = feval(st.test, env)
                except EvalError:
                    raise EvalError("branch condition depends on the data: %s" % ast.unparse(st.test))
                if walk(st.body if c else st.orelse):
                    return True
            elif isinstance(st, ast.Return):
                if st.value is not None:
                    out.append(st.value)
                return True
            elif isinstance(st, ast.Assign):
                tgt = st.targets[0]
                if isinstance(tgt, ast.Name) and isinstance(st.value, ast.Compare) and len(st.value.ops) == 1 and isinstance(st.value.left, ast.Name) and st.value.left.id in data_names and num(st.value.comparators[0]) == 0:
                    op = st.value.ops[0]
                    if isinstance(op, (ast.GtE, ast.Gt)):
                        masks[tgt.id], masks["~" + tgt.id] = "nonneg", "neg"
                    elif isinstance(op, (ast.Lt, ast.LtE)):
                        masks[tgt.id], masks["~" + tgt.id] = "neg", "nonneg"
                elif isinstance(tgt, ast.Name) and tgt.id in data_names:
                    pass  # data = np.asanyarray(data)
                else:
                    out.append(st.value)
            else:
                raise EvalError("unsupported statement in transform: %s" % type(st).__name__)
        return False

    walk(fn.body)
    return out, masks


def derived_interval(exprs, masks, env, data_name="data"):
    """Intersect the domains of all partial operations; returns (lo, hi) or raises EvalError."""
    lo, hi = -INF, INF
    details = []
    for e in exprs:
        for c in constraints_of(e, {data_name}, masks):
            if c.kind == "total":
                continue
            if c.kind == "unknown":
                raise EvalError("undecidable partial operation: %s" % c.op)
            if c.kind in ("lower", "upper"):
                v = feval(c.bound, env)
                if c.kind == "lower":
                    if c.region == "nonneg" and v < 0:
                        continue
                    lo = max(lo, v)
                else:
                    if c.region == "neg" and v > 0:
                        continue
                    hi = min(hi, v)
                    if c.region == "abs":
                        lo = max(lo, -v)
                details.append("%s: %s %s %.6g" % (c.op, "|t|" if c.region == "abs" else "t", ">" if c.kind == "lower" else "<", v))
                continue
            a, b = feval(c.a, env), feval(c.b, env)
            if b == 0:
                if a <= 0:
                    raise EvalError("operand never positive")
                continue
            thr = -a / b
            if b > 0:  # t > thr
                if c.region in ("nonneg", "abs"):
                    if thr < 0:
                        continue
                    raise EvalError("domain is not an interval (gap on the non-negative side)")
                if c.region == "neg" and thr >= 0:
                    raise EvalError("empty domain on the negative side")
                lo = max(lo, thr)
                details.append("%s: t > %.6g" % (c.op, thr))
            else:  # t < thr
                if c.region == "neg":
                    if thr > 0:
                        continue
                    raise EvalError("domain is not an interval (gap on the negative side)")
                if c.region in ("nonneg", "abs") and thr <= 0:
                    raise EvalError("empty domain on the non-negative side")
                hi = min(hi, thr)
                if c.region == "abs":
                    lo = max(lo, -thr)
                details.append("%s: %s < %.6g" % (c.op, "|t|" if c.region == "abs" else "t", thr))
    return (lo, hi), details
