"""Static analysis framework for GSTools (properties C02-C20).

Nothing in this package imports gstools or executes repository code; every
verdict is derived from the source text of /repo's working tree.
"""
