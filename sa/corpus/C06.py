K = "krige/base.py"
B = "covmodel/base.py"
CASES = [
    dict(name="no-clamp", file=K, expect="R06.1", old="                np.maximum(self.model.sill - krige_var, 0), shape", new="                self.model.sill - krige_var, shape"),
    dict(name="var-for-sill", file=K, expect="R06.1", old="                np.maximum(self.model.sill - krige_var, 0), shape", new="                np.maximum(self.model.var - krige_var, 0), shape"),
    dict(name="clamp-at-negative", file=K, expect="R06.1", old="                np.maximum(self.model.sill - krige_var, 0), shape", new="                np.maximum(self.model.sill - krige_var, -1), shape"),
    dict(name="stored-before-clamp", file=K, expect="R06.1",
         old="""            krige_var = np.reshape(
                np.maximum(self.model.sill - krige_var, 0), shape
            )
            krige_var = self.post_field(krige_var, name[1], False, save[1])""",
         new="""            self.post_field(np.reshape(krige_var, shape), name[1], False, save[1])
            krige_var = np.reshape(
                np.maximum(self.model.sill - krige_var, 0), shape
            )"""),
    dict(name="variance-post-processed", file=K, expect="R06.1", old="            krige_var = self.post_field(krige_var, name[1], False, save[1])", new="            krige_var = self.post_field(krige_var, name[1], post_process, save[1])"),
    dict(name="sill-without-nugget", file=B, expect=["R06.1"], old="        return self.var + self.nugget\n", new="        return self.var\n"),
    dict(name="covariance-always", file=K, expect="R06.2", old="            cf = self.model.cov_nugget if self.exact else self.model.covariance", new="            cf = self.model.covariance"),
    dict(name="exact-inverted", file=K, expect="R06.2", old="            cf = self.model.cov_nugget if self.exact else self.model.covariance", new="            cf = self.model.covariance if self.exact else self.model.cov_nugget"),
    dict(name="exact-guard-dropped", file=K, expect="R06.2",
         old="""            if self.exact:
                raise ValueError(
                    "krige.cond_err: measurement errors can't be given, "
                    "when interpolator should be exact."
                )
""", new=""),
    dict(name="default-error-zero", file=K, expect="R06.2", old='        cond_err = "nugget" if cond_err is None else cond_err  # default', new='        cond_err = 0.0 if cond_err is None else cond_err  # default'),
    dict(name="cov-nugget-var-at-zero", file=B, expect="R06.2", old="        res[np.logical_not(r_gz)] = self.sill", new="        res[np.logical_not(r_gz)] = self.var"),
    dict(name="cond-err-getter-stale", file=K, expect="R06.2", old='        if isinstance(self._cond_err, str) and self._cond_err == "nugget":\n            return self.model.nugget', new='        if isinstance(self._cond_err, str) and self._cond_err == "nugget":\n            return 0.0'),
    dict(name="pinv-type-unvalidated", file=K, expect="R06.3", old='        if val not in P_INV and not callable(val):\n            raise ValueError(f"Krige: pseudo_inv_type not in {sorted(P_INV)}")\n', new=""),
    dict(name="inv-ignores-flag", file=K, expect="R06.3", old="        # if no pseudo-inverse is wanted, calculate the real inverse\n        return spl.inv(mat)", new="        return spl.pinv(mat)"),
    dict(name="twin-clamp-reordered", kind="twin", file=K,
         old="""            krige_var = np.reshape(
                np.maximum(self.model.sill - krige_var, 0), shape
            )""",
         new="""            krige_var = np.maximum(self.model.sill - krige_var, 0.0)
            krige_var = np.reshape(krige_var, shape)"""),
]
