"""E3 ALIAS: may-alias / in-place-mutation analysis (flow-sensitive per function, summaries to a fixpoint).

Abstract value AV = (origins, elems, arr):
  origins : labels of caller-visible buffers the value may share memory with
            'P:<name>' parameter of the function under analysis, 'STORED' an array obtained from a Field's
            stored results, 'F:<attr>' the buffer held in self.<attr>
  elems   : origins of the elements if the value is a python container (list/tuple)
  arr     : the value is known to be an ndarray (went through a numpy conversion or arithmetic)
"""
import ast

from .loader import AnalysisError, ClassInfo, norm_stmt

# ---- frozen NumPy op table ------------------------------------------------------------------------------
VIEW_FUNCS = {  # result may share memory with args[0]
    "np.asarray", "np.asanyarray", "np.atleast_1d", "np.atleast_2d", "np.atleast_3d", "np.reshape", "np.ravel",
    "np.squeeze", "np.swapaxes", "np.transpose", "np.broadcast_to", "np.ma.array", "np.ma.masked_array",
    "np.ma.asarray", "np.ma.getdata", "np.ma.getmaskarray", "np.ma.getmask", "np.real", "np.moveaxis", "np.diag",
    "np.ascontiguousarray", "np.asfortranarray", "np.expand_dims", "np.flip",
}
VIEW_METHODS = {"reshape", "ravel", "swapaxes", "view", "squeeze", "filled", "transpose", "diagonal"}
VIEW_ATTRS = {"T", "real", "imag", "flat", "data", "mask"}
COPY_IF_KW = {"np.array": True, "np.ma.array": False, "np.ma.masked_array": False}  # default copy flag
INPLACE_METHODS = {"sort", "fill", "resize", "put", "itemset", "partition", "setfield", "byteswap"}
INPLACE_FUNCS = {"np.put", "np.copyto", "np.fill_diagonal", "np.place", "np.putmask", "np.put_along_axis", "np.random.shuffle"}
CONTAINER_MUTATORS = {"append", "extend", "insert", "pop", "remove", "clear", "update", "setdefault", "popitem", "reverse"}
SIZE_MUTATORS = {"append", "extend", "insert", "pop", "remove", "clear", "popitem", "add", "discard"}
INDEX_ARRAY_FUNCS = {
    "np.isnan", "np.isfinite", "np.isclose", "np.logical_and", "np.logical_or", "np.logical_not", "np.invert", "np.arange",
    "np.where", "np.nonzero", "np.argsort", "np.all", "np.any", "np.isinf", "np.argwhere", "np.flatnonzero",
}


import re

# parameter names that carry arrays in this code base (frozen by reading the public signatures)
ARRAY_ROLE = re.compile(
    r"^(pos|field|fields|cond_pos|cond_val|cond_err|ext_drift|bin_edges|bin_center|bin_centers|mask|x_data|y_data|weights|data|values|thresholds|"
    r"anis|angles|len_scale|direction|directions|x|y|z|r|k|h|lat|lon|latlon|gamma|mesh|grid|points|vec|arr|array|drift|krige_var|"
    r"period|mode_no|axes|x_max|pdf|cdf|init_guess_arr|u|res)$"
)


class AV:
    __slots__ = ("o", "e", "arr", "ix", "dictlike")

    def __init__(self, o=(), e=(), arr=False, ix=False, dictlike=False):
        self.o = frozenset(o)
        self.e = frozenset(e)
        self.arr = arr
        self.ix = ix  # fresh array usable as advanced index (bool mask / int array)
        self.dictlike = dictlike

    def join(self, other):
        return AV(self.o | other.o, self.e | other.e, self.arr or other.arr, self.ix and other.ix, self.dictlike or other.dictlike)

    def all(self):
        return self.o | self.e

    def __eq__(self, other):
        return (self.o, self.e, self.arr, self.ix, self.dictlike) == (other.o, other.e, other.arr, other.ix, other.dictlike)

    def __repr__(self):
        return "AV(%s|%s%s)" % (sorted(self.o), sorted(self.e), ",arr" if self.arr else "")


FRESH = AV()
FRESH_ARR = AV(arr=True)
FRESH_IX = AV(arr=True, ix=True)


class Summary:
    def __init__(self):
        self.mut = {}  # param name -> {terminal (fq, stmt text, how): chain [str]}
        self.ret = set()  # origins ('P:x', 'STORED', 'F:attr') the return value / its elements may alias
        self.store = {}  # self attr -> set of origins stored there
        self.cmut = {}  # label -> description: python container (dict/list) held under that label is mutated in place
        self.req = {}  # (param, terminal) -> {own param: bool} needed for the mutation to happen
        self.mut_labels = {}  # non-param origins mutated ('STORED', 'F:attr') -> {terminal: chain}
        self.szmut = {}  # label ('P:x', 'F:attr') of a python container whose SIZE is changed (del c[i], .remove, .append ...) -> where
        self.iterhaz = {}  # (iterated label, resized label) -> where: a loop iterates the first while its body resizes the second

    def sig(self):
        return (
            tuple(sorted((k, tuple(sorted(v))) for k, v in self.mut.items())),
            tuple(sorted(self.ret)),
            tuple(sorted((k, tuple(sorted(v))) for k, v in self.store.items())),
            tuple(sorted((k, tuple(sorted(v))) for k, v in self.mut_labels.items())),
            tuple(sorted(self.cmut)),
            tuple(sorted(self.szmut)),
            tuple(sorted(self.iterhaz)),
        )


class Sink:
    def __init__(self, fq, stmt, label, how, chain):
        self.fq, self.stmt, self.label, self.how, self.chain = fq, stmt, label, how, chain


class Analyzer:
    def __init__(self, prog, stored_receivers=("fld", "srf", "self", "field_obj")):
        self.prog = prog
        self.funcs = {}  # fq -> (module, node, ClassInfo|None, kind)
        self.escaping_closures = set()  # fq of nested functions that their parent returns (callables handed to other code)
        for m, q, f, ci, kind in prog.all_functions():
            if kind == "nested":
                # a closure that its parent RETURNS is called by other code with that code's arrays: analyse it as an entry of its own
                parent_q = q.rsplit(".<locals>.", 1)[0]
                parent = m.functions.get(parent_q)
                if parent is not None and any(isinstance(n, ast.Return) and isinstance(n.value, ast.Name) and n.value.id == f.name for n in ast.walk(parent)):
                    fq = "%s::%s" % (m.relpath, q)
                    self.funcs[fq] = (m, f, None, "nested")
                    self.escaping_closures.add(fq)
                continue
            self.funcs["%s::%s" % (m.relpath, q)] = (m, f, ci, kind)
        self.summ = {fq: Summary() for fq in self.funcs}
        self.sinks = {}  # (fq, id(stmt), label) -> Sink  (terminal in-place writes)
        self.iter_hazards = {}  # (fq, stmt text) -> detail: a container is resized while a loop iterates it
        self.list_fields = self._list_fields(prog)
        self.notes = []
        self.undecided = []
        self.by_method = {}
        for fq, (m, f, ci, kind) in self.funcs.items():
            if ci is not None:
                self.by_method.setdefault((kind, f.name), []).append(fq)
        self.field_cls = prog.cls("field/base.py", "Field")
        self.rounds = 0

    # ------------------------------------------------------------------ fixpoint
    def run(self, max_rounds=12):
        for r in range(max_rounds):
            self.rounds = r + 1
            before = {fq: s.sig() for fq, s in self.summ.items()}
            self.sinks = {}
            self.iter_hazards = {}
            self.notes = []
            self.undecided = []
            for fq in self.funcs:
                FnAnalysis(self, fq).run()
            if all(self.summ[fq].sig() == before[fq] for fq in self.funcs):
                return
        raise AnalysisError("alias summaries did not reach a fixpoint in %d rounds" % max_rounds)

    @staticmethod
    def _list_fields(prog):
        """Attributes every store of which (anywhere in the package) is a list display / comprehension / list(...) call."""
        kinds = {}
        for m in prog.by_rel.values():
            for n in ast.walk(m.tree):
                if isinstance(n, ast.Assign):
                    for t in n.targets:
                        if isinstance(t, ast.Attribute):
                            v = n.value
                            is_list = isinstance(v, (ast.List, ast.ListComp)) or (isinstance(v, ast.Call) and isinstance(v.func, ast.Name) and v.func.id == "list")
                            kinds.setdefault(t.attr, []).append(is_list)
                elif isinstance(n, (ast.AugAssign, ast.AnnAssign)) and isinstance(n.target, ast.Attribute):
                    kinds.setdefault(n.target.attr, []).append(False)
        return {a for a, ks in kinds.items() if ks and all(ks)}

    # ------------------------------------------------------------------ callee resolution
    def resolve_call(self, fa, call):
        """Return list of (fq, bound: {param: arg expr}, receiver expr|None)."""
        f = call.func
        out = []
        if isinstance(f, ast.Name):
            obj = self.prog.resolve_expr(fa.mod, f)
            if isinstance(obj, ast.FunctionDef):
                fq = self.fq_of(obj)
                if fq:
                    out.append((fq, None))
            elif isinstance(obj, ClassInfo):
                c, init = obj.find("__init__")
                if init is not None:
                    out.append(("%s::%s.__init__" % (c.module.relpath, c.name), "ctor"))
            elif f.id in fa.local_fn_alias:
                for nm in fa.local_fn_alias[f.id]:
                    obj = self.prog.resolve_expr(fa.mod, ast.Name(nm, ast.Load()))
                    if isinstance(obj, ast.FunctionDef):
                        fq = self.fq_of(obj)
                        if fq:
                            out.append((fq, None))
        elif isinstance(f, ast.Attribute):
            recv = f.value
            # module.function
            obj = self.prog.resolve_expr(fa.mod, f)
            if isinstance(obj, ast.FunctionDef):
                fq = self.fq_of(obj)
                if fq:
                    return [(fq, None)]
            if isinstance(obj, ClassInfo):
                c, init = obj.find("__init__")
                return [("%s::%s.__init__" % (c.module.relpath, c.name), "ctor")] if init is not None else []
            name = f.attr
            if isinstance(recv, ast.Name) and recv.id == "self" and fa.ci is not None:
                cands = self.cha(fa.ci, name)
            elif isinstance(recv, ast.Call) and isinstance(recv.func, ast.Name) and recv.func.id == "super" and fa.ci is not None:
                cands = []
                for b in fa.ci.mro()[1:]:
                    if name in b.methods:
                        cands = ["%s::%s.%s" % (b.module.relpath, b.name, name)]
                        break
            else:
                cands = list(self.by_method.get(("methods", name), []))
            out = [(fq, "method") for fq in cands]
        return out

    def cha(self, ci, name, kind="methods"):
        out = []
        c, fn = ci.find(name, kind)
        suffix = {"methods": "", "getters": "@get", "setters": "@set"}[kind]
        if fn is not None:
            out.append("%s::%s.%s%s" % (c.module.relpath, c.name, name, suffix))
        for sub in self.prog.subclasses(ci):
            if name in getattr(sub, kind):
                out.append("%s::%s.%s%s" % (sub.module.relpath, sub.name, name, suffix))
        return out

    def fq_of(self, node):
        for fq, (m, f, ci, kind) in self.funcs.items():
            if f is node:
                return fq
        return None


def _params(fn):
    a = fn.args
    names = [x.arg for x in a.posonlyargs + a.args]
    kwonly = [x.arg for x in a.kwonlyargs]
    return names, kwonly, (a.vararg.arg if a.vararg else None), (a.kwarg.arg if a.kwarg else None)


class FnAnalysis:
    def __init__(self, an, fq):
        self.an = an
        self.fq = fq
        self.mod, self.fn, self.ci, self.kind = an.funcs[fq]
        self.summ = an.summ[fq]
        self.local_fn_alias = {}
        self.flagsplit = {}
        self.loops = []  # labels of the containers the enclosing for-loops iterate (live, i.e. not through a copy)
        self.cur_stmt = None
        self.assigned = {t.id for n in ast.walk(self.fn) for t in ast.walk(n) if isinstance(t, ast.Name) and isinstance(t.ctx, (ast.Store, ast.Del))}
        pos, kwonly, va, kw = _params(self.fn)
        self.params = pos + kwonly
        self.is_method = self.ci is not None and "staticmethod" not in [ast.unparse(d) for d in self.fn.decorator_list]
        self.selfname = pos[0] if (self.is_method and pos) else None

    # ------------------------------------------------------------------ driver
    def run(self):
        env = {}
        for p in self.params:
            if p == self.selfname:
                continue
            env[p] = AV(o=["P:" + p])
        pos, kwonly, va, kw = _params(self.fn)
        if va:
            env[va] = AV(e=["P:*" + va])
        if kw:
            env[kw] = AV(dictlike=True)
        self.block(self.fn.body, env)

    def block(self, stmts, env):
        for st in stmts:
            env = self.stmt(st, env)
            if env is None:
                return None
        return env

    def join_env(self, a, b):
        if a is None:
            return b
        if b is None:
            return a
        out = {}
        for k in set(a) | set(b):
            if k.startswith("$c:"):
                if k in a and k in b and a[k] == b[k]:
                    out[k] = a[k]
                continue
            va, vb = a.get(k), b.get(k)
            if va is None or vb is None:
                out[k] = (va or vb).join(FRESH)
            else:
                out[k] = va if va is vb else va.join(vb)
        # boolean flag set to different constants on the two paths: remember both sides so that a later
        # `if flag:` can restore the per-path bindings (path sensitivity through one flag, e.g. `reuse`)
        for k in set(a) & set(b):
            if k.startswith("$c:") and isinstance(a[k], bool) and isinstance(b[k], bool) and a[k] != b[k]:
                et, ef = (a, b) if a[k] else (b, a)
                self.flagsplit[k[3:]] = (dict(out), et, ef)
        return out

    # ------------------------------------------------------------------ statements
    def stmt(self, st, env):
        self.cur_stmt = st
        if isinstance(st, ast.Assign):
            v = self.ev(st.value, env)
            for t in st.targets:
                self.assign(t, v, env, st, st.value)
            return env
        if isinstance(st, ast.AnnAssign):
            if st.value is not None:
                self.assign(st.target, self.ev(st.value, env), env, st, st.value)
            return env
        if isinstance(st, ast.AugAssign):
            v = self.ev(st.value, env)
            t = st.target
            if isinstance(t, ast.Name):
                cur = env.get(t.id, FRESH)
                if isinstance(st.op, ast.Add) and (cur.e or (not cur.o and not cur.arr)) and not cur.arr:
                    # list += list : container extension (elements join); numbers: rebinding
                    env[t.id] = AV(cur.o, cur.e | v.e | (v.o if cur.e else frozenset()), cur.arr, dictlike=cur.dictlike)
                    if cur.o and (cur.e or v.e):
                        self.note("container parameter extended in place: %s" % norm_stmt(st))
                    return env
                if cur.o:
                    if cur.arr:
                        self.sink(cur.o, st, "augmented assignment on an array that may share memory")
                    else:
                        self.param_aug(cur, st)
                return env
            if isinstance(t, ast.Subscript):
                self.subscript_store(t, env, st, aug=True)
                return env
            if isinstance(t, ast.Attribute):
                base = self.ev(t.value, env)
                if t.attr in ("mask",) and base.o:
                    self.sink(base.o, st, "in-place update of .%s" % t.attr)
                return env
            return env
        if isinstance(st, ast.Expr):
            self.ev(st.value, env)
            return env
        if isinstance(st, ast.Return):
            if st.value is not None:
                v = self.ev(st.value, env)
                self.summ.ret |= {x for x in v.all()}
            return None
        if isinstance(st, ast.Raise):
            return None
        if isinstance(st, ast.If):
            self.ev(st.test, env)
            env_t, env_f = dict(env), dict(env)
            self.refine(st.test, env_t, env_f)
            a = self.block(st.body, env_t)
            b = self.block(st.orelse, env_f)
            return self.join_env(a, b)
        if isinstance(st, (ast.For, ast.AsyncFor)):
            it = self.ev(st.iter, env)
            item = self.iter_item(st.iter, it, env)
            cur = dict(env)
            self.loops.append(self.live_iter(st.iter, env))
            for _ in range(2):
                body_env = dict(cur)
                self.assign(st.target, item, body_env, st, None)
                out = self.block(st.body, body_env)
                cur = self.join_env(cur, out)
            self.loops.pop()
            if st.orelse:
                cur = self.join_env(cur, self.block(st.orelse, dict(cur)))
            return cur
        if isinstance(st, ast.While):
            self.ev(st.test, env)
            cur = dict(env)
            for _ in range(2):
                out = self.block(st.body, dict(cur))
                cur = self.join_env(cur, out)
            return cur
        if isinstance(st, ast.With):
            for it in st.items:
                v = self.ev(it.context_expr, env)
                if it.optional_vars is not None:
                    self.assign(it.optional_vars, v, env, st, None)
            return self.block(st.body, env)
        if isinstance(st, ast.Try):
            a = self.block(st.body, dict(env))
            outs = [a]
            for h in st.handlers:
                outs.append(self.block(h.body, dict(env)))
            res = None
            for o in outs:
                res = self.join_env(res, o)
            if st.orelse and res is not None:
                res = self.block(st.orelse, res)
            if st.finalbody:
                res = self.block(st.finalbody, res if res is not None else dict(env))
            return res
        if isinstance(st, ast.Delete):
            for t in st.targets:
                if isinstance(t, ast.Name):
                    env.pop(t.id, None)
                elif isinstance(t, ast.Subscript):
                    if isinstance(t.value, ast.Name) and t.value.id == self.selfname and self.ci is not None and self.ci.find("__delitem__")[1] is not None:
                        # del self[key]  ==  self.__delitem__(key)
                        kv = self.ev(t.slice, env)
                        for fq in self.an.cha(self.ci, "__delitem__"):
                            fn = self.an.funcs[fq][1]
                            names = _params(fn)[0][1:]
                            if names:
                                self.apply_summary(fq, {names[0]: (kv, t.slice)}, st, env, "call")
                    else:
                        base = self.ev(t.value, env)
                        if not base.arr:
                            self.size_mut(base.o, st)
            return env
        if isinstance(st, (ast.Pass, ast.Import, ast.ImportFrom, ast.Global, ast.Nonlocal, ast.Assert, ast.Break, ast.Continue, ast.FunctionDef, ast.ClassDef)):
            if isinstance(st, ast.FunctionDef):
                # nested closure: analyse its body in the enclosing environment (reads of captured arrays)
                inner = dict(env)
                for a in st.args.args:
                    inner[a.arg] = FRESH
                saved = self.summ.ret
                self.summ.ret = set()
                self.block(st.body, inner)
                self.summ.ret = saved
            return env
        if isinstance(st, ast.Match):  # pragma: no cover
            self.an.undecided.append((self.fq, "match statement"))
            return env
        self.an.undecided.append((self.fq, "unsupported statement %s" % type(st).__name__))
        return env

    SCALAR_TYPES = {"bool", "int", "float", "str", "complex", "type(None)", "numbers.Number", "Number"}

    def refine(self, test, env_t, env_f):
        """isinstance(x, <scalar type>) refines x to a non-array value in the branch where it holds; `x is None` likewise."""
        neg = False
        while isinstance(test, ast.UnaryOp) and isinstance(test.op, ast.Not):
            test, neg = test.operand, not neg
        tgt = None
        if isinstance(test, ast.Call) and isinstance(test.func, ast.Name) and test.func.id == "isinstance" and len(test.args) == 2 and isinstance(test.args[0], ast.Name):
            t = test.args[1]
            names = [ast.unparse(x) for x in (t.elts if isinstance(t, ast.Tuple) else [t])]
            if all(n in self.SCALAR_TYPES for n in names):
                tgt = test.args[0].id
        elif isinstance(test, ast.Compare) and len(test.ops) == 1 and isinstance(test.left, ast.Name) and isinstance(test.comparators[0], ast.Constant) and test.comparators[0].value is None:
            if isinstance(test.ops[0], ast.Is):
                tgt = test.left.id
            elif isinstance(test.ops[0], ast.IsNot):
                tgt, neg = test.left.id, not neg
        if tgt is not None:
            (env_f if neg else env_t)[tgt] = FRESH
        if isinstance(test, ast.Name) and test.id in self.flagsplit:
            snap, et, ef = self.flagsplit[test.id]
            e_true, e_false = (env_f, env_t) if neg else (env_t, env_f)
            for var, jav in snap.items():
                if var.startswith("$c:"):
                    continue
                if e_true.get(var) is jav and var in et:
                    e_true[var] = et[var]
                if e_false.get(var) is jav and var in ef:
                    e_false[var] = ef[var]

    def iter_item(self, it_expr, it, env):
        # for a, b in zip(x, y) / enumerate(x) / for row in array / for x in container
        if isinstance(it_expr, ast.Call) and isinstance(it_expr.func, ast.Name) and it_expr.func.id in ("zip", "enumerate", "reversed", "sorted", "list", "tuple"):
            parts = [self.ev(a, env) for a in it_expr.args]
            items = [AV(o=p.e | p.o if (p.arr or p.o) else p.e, arr=p.arr) for p in parts]
            if it_expr.func.id == "zip":
                return AV(e=frozenset().union(*[i.o for i in items]) if items else ())
            if it_expr.func.id == "enumerate":
                return AV(e=items[0].o if items else ())
            return items[0] if items else FRESH
        if it.e:
            return AV(o=it.e, arr=False)
        if it.o:
            return AV(o=it.o, arr=it.arr)  # row view
        return FRESH

    def assign(self, t, v, env, st, value_expr):
        if isinstance(t, ast.Name):
            env[t.id] = v
            if isinstance(value_expr, ast.Constant) and isinstance(value_expr.value, bool):
                env["$c:" + t.id] = value_expr.value
            else:
                env.pop("$c:" + t.id, None)
            # local function alias idiom:  f = g_c | g_gsc
            if isinstance(value_expr, ast.Name):
                self.local_fn_alias.setdefault(t.id, set()).add(value_expr.id)
            return
        if isinstance(t, (ast.Tuple, ast.List)):
            if isinstance(value_expr, (ast.Tuple, ast.List)) and len(value_expr.elts) == len(t.elts):
                for tt, ve in zip(t.elts, value_expr.elts):
                    self.assign(tt, self.ev(ve, env), env, st, ve)
                return
            item = AV(o=v.e | (v.o if v.arr or not v.e else frozenset()), arr=v.arr)
            for tt in t.elts:
                if isinstance(tt, ast.Starred):
                    self.assign(tt.value, AV(e=item.o), env, st, None)
                else:
                    self.assign(tt, item, env, st, None)
            return
        if isinstance(t, ast.Subscript):
            self.subscript_store(t, env, st, aug=False, value=v)
            return
        if isinstance(t, ast.Attribute):
            base_is_self = isinstance(t.value, ast.Name) and t.value.id == self.selfname
            if base_is_self:
                # property setter call or field store
                if self.ci is not None and self.ci.find(t.attr, "setters")[1] is not None:
                    for fq in self.an.cha(self.ci, t.attr, "setters"):
                        self.apply_summary(fq, {self.setter_param(fq): (v, None)}, st, env, "setter")
                else:
                    self.summ.store.setdefault(t.attr, set()).update(v.all())
                return
            base = self.ev(t.value, env)
            if t.attr == "mask" and base.o:
                self.sink(base.o, st, "assignment to .mask of a masked array that may share its mask")
            elif t.attr in ("shape", "fill_value", "dtype") and base.o:
                self.note("metadata store .%s on possibly shared array object: %s" % (t.attr, norm_stmt(st)))
            elif base.o and not (isinstance(t.value, ast.Name) and t.value.id == self.selfname):
                # obj.attr = v on a parameter object: resolves to setters by name
                for fq in self.an.by_method.get(("setters", t.attr), []):
                    self.apply_summary(fq, {self.setter_param(fq): (v, None)}, st, env, "setter")
            return

    @staticmethod
    def defaults_of(fn):
        a = fn.args
        out = {}
        pos = a.posonlyargs + a.args
        for arg, d in zip(pos[len(pos) - len(a.defaults):], a.defaults):
            out[arg.arg] = d
        for arg, d in zip(a.kwonlyargs, a.kw_defaults):
            if d is not None:
                out[arg.arg] = d
        return out

    def setter_param(self, fq):
        fn = self.an.funcs[fq][1]
        return fn.args.args[1].arg if len(fn.args.args) > 1 else "value"

    def index_is_advanced(self, sl, env):
        elts = sl.elts if isinstance(sl, ast.Tuple) else [sl]
        for e in elts:
            if isinstance(e, (ast.List, ast.ListComp, ast.Compare)):
                return True
            if isinstance(e, (ast.Name, ast.Call, ast.UnaryOp, ast.BinOp, ast.Attribute, ast.Subscript)):
                v = self.ev(e, env)
                if v.ix or (isinstance(e, (ast.Call, ast.BinOp, ast.UnaryOp)) and v.arr and not v.o):
                    return True
        return False

    def subscript_store(self, t, env, st, aug, value=None):
        base = self.ev(t.value, env)
        key = t.slice
        is_strkey = isinstance(key, ast.Constant) and isinstance(key.value, str)
        if base.dictlike or is_strkey:
            if base.o:
                self.note("mapping parameter written: %s" % norm_stmt(st))
                for lab in base.o:
                    if lab.startswith(("G:", "F:")):
                        self.summ.cmut.setdefault(lab, "%s: `%s`" % (self.fq, norm_stmt(st)[:80]))
            return
        if base.e and not base.arr:
            # python container of arrays
            if aug:
                self.sink(base.e, st, "in-place arithmetic on an element of a container whose elements may share memory")
            else:
                if base.o:
                    self.note("element of a container parameter rebound: %s" % norm_stmt(st))
                # local container: rebinding an element -> element origins join
                if isinstance(t.value, ast.Name) and value is not None:
                    env[t.value.id] = AV(base.o, base.e | value.o | value.e, base.arr)
            return
        if base.o:
            self.sink(base.o, st, "subscript %s on an array that may share memory" % ("update" if aug else "store"))
        # a local list being filled: track element origins
        if not base.o and isinstance(t.value, ast.Name) and value is not None and not aug and not base.arr:
            env[t.value.id] = AV(base.o, base.e | value.o | value.e, base.arr)

    def live_iter(self, e, env):
        """Labels of the container objects a `for` over expression e walks live (copies made by list()/sorted()/slicing of lists cut the link)."""
        if isinstance(e, ast.Call):
            fn = ast.unparse(e.func)
            if fn in ("list", "tuple", "sorted", "set", "frozenset", "dict", "range", "len", "np.array", "copy", "dcp", "deepcopy"):
                return frozenset()
            if fn in ("enumerate", "zip", "reversed", "iter"):
                out = frozenset()
                for a in e.args:
                    out |= self.live_iter(a, env)
                return out
            if isinstance(e.func, ast.Attribute) and e.func.attr in ("items", "keys", "values"):
                return self.live_iter(e.func.value, env)
            if isinstance(e.func, ast.Attribute) and e.func.attr == "copy":
                return frozenset()
            return frozenset()
        v = self.ev(e, env)
        if v.arr:
            return frozenset()
        return frozenset(l for l in v.o if l.startswith(("P:", "F:", "G:")))

    def size_mut(self, labels, st):
        """The container(s) under `labels` change size at st: hazard when an enclosing loop iterates the same object."""
        labels = frozenset(l for l in labels if l.startswith(("P:", "F:", "G:")))
        if not labels:
            return
        where = "%s: `%s`" % (self.fq, " ".join(ast.unparse(st).split())[:90])
        for lab in labels:
            self.summ.szmut.setdefault(lab, where)
        for L in self.loops:
            both = L & labels
            if both:
                self.an.iter_hazards.setdefault((self.fq, " ".join(ast.unparse(st).split())[:90]), "the loop iterates %s, which this statement resizes" % sorted(both))
            for a in L:
                for b in labels:
                    if a != b and (a.startswith("P:") or b.startswith("P:")):
                        self.summ.iterhaz.setdefault((a, b), where)

    def param_aug(self, cur, st):
        # `x op= v` on a raw (never converted) parameter is in place only if the caller passed an ndarray:
        # a violation for parameters in an array role, a note otherwise (flags, counters).
        roles = {o[2:] for o in cur.o if o.startswith("P:") and ARRAY_ROLE.match(o[2:])}
        if roles:
            self.sink({"P:" + r for r in roles}, st, "augmented assignment directly on an array-role parameter")
        else:
            self.note("augmented assignment on a raw non-array-role parameter (rebinding for scalars): %s" % norm_stmt(st))

    # ------------------------------------------------------------------ sinks / notes
    def requirements(self):
        """{param: bool} that must hold for the current statement to execute (only never-reassigned parameters)."""
        from .ordtype import path_condition

        st = self.cur_stmt
        try:
            pc = path_condition(self.fn, st)
        except AnalysisError:
            return {}
        req = {}
        for e, pol in pc:
            while isinstance(e, ast.UnaryOp) and isinstance(e.op, ast.Not):
                e, pol = e.operand, not pol
            if isinstance(e, ast.Name) and e.id in self.params and e.id not in self.assigned:
                req[e.id] = pol
        return req

    def sink(self, labels, st, how):
        text = norm_stmt(st)
        term = (self.fq, text, how)
        req = self.requirements()
        for lab in labels:
            chain = ("%s: `%s`" % (self.fq, text[:100]),)
            self.an.sinks[(self.fq, text, lab)] = Sink(self.fq, st, lab, how, chain)
            if lab.startswith("P:"):
                self.summ.mut.setdefault(lab[2:], {}).setdefault(term, chain)
                self.summ.req[(lab[2:], term)] = req
            else:
                self.summ.mut_labels.setdefault(lab, {}).setdefault(term, chain)

    def note(self, text):
        self.an.notes.append("%s: %s" % (self.fq, text))

    # ------------------------------------------------------------------ expressions
    def ev(self, e, env):
        if e is None:
            return FRESH
        if isinstance(e, ast.Name):
            if e.id in env:
                return env[e.id]
            # module-level mutable literal (dict / list / set): shared by every user of the module
            gv = self.mod.assigns.get(e.id)
            if isinstance(gv, (ast.Dict, ast.List, ast.Set)) and e.id not in ("__all__",):
                return AV(o=["G:%s::%s" % (self.mod.relpath, e.id)], dictlike=False)
            return FRESH
        if isinstance(e, ast.Constant):
            return FRESH
        if isinstance(e, ast.Attribute):
            if isinstance(e.value, ast.Name) and e.value.id == self.selfname and self.ci is not None:
                # property getter or raw field
                if self.ci.find(e.attr, "getters")[1] is not None:
                    out = set()
                    for fq in self.an.cha(self.ci, e.attr, "getters"):
                        out |= {r for r in self.an.summ[fq].ret if not r.startswith("P:")}
                    return AV(o=out)
                return AV(o=["F:" + e.attr])
            base = self.ev(e.value, env)
            if e.attr in VIEW_ATTRS:
                return AV(o=base.o, arr=True)
            if base.o and e.attr not in ("shape", "size", "ndim", "dtype", "name"):
                # attribute of a parameter object (fld.pos, model.anis, ...): resolve getters by name
                out = set()
                for fq in self.an.by_method.get(("getters", e.attr), []):
                    out |= {r for r in self.an.summ[fq].ret if not r.startswith("P:")}
                return AV(o=out)
            return FRESH
        if isinstance(e, ast.Subscript):
            base = self.ev(e.value, env)
            self.ev(e.slice, env)
            # stored field access: fld[name] / self[name]
            if self.is_field_obj(e.value, env) and not isinstance(e.slice, ast.Slice):
                # fld[name] is one stored array; fld[[n1, n2]] / fld[names] a list of them
                single = isinstance(e.slice, (ast.Constant, ast.Subscript)) or (isinstance(e.slice, ast.Name) and e.slice.id in ("name", "field", "key"))
                return AV(o=["STORED"], e=["STORED"], arr=single)
            if base.dictlike:
                return FRESH
            if isinstance(e.slice, ast.Slice) and base.o and not base.arr and all(l.startswith("F:") and l[2:] in self.an.list_fields for l in base.o):
                return AV(e=base.e)  # slice of a python list: a new list
            if base.e and not base.arr:
                if isinstance(e.slice, ast.Slice):
                    return AV(o=(), e=base.e)
                return AV(o=base.e)
            if base.o or base.arr:
                if self.index_is_advanced(e.slice, env):
                    return FRESH_ARR
                return AV(o=base.o, arr=True)
            return FRESH
        if isinstance(e, (ast.BinOp, ast.UnaryOp)):
            for c in ast.iter_child_nodes(e):
                if isinstance(c, ast.expr):
                    self.ev(c, env)
            if isinstance(e, ast.BinOp) and isinstance(e.op, ast.Add):
                l, r = self.ev(e.left, env), self.ev(e.right, env)
                if (l.e or r.e) and not (l.arr or r.arr):
                    return AV(e=l.e | r.e)  # list/tuple concatenation
            if isinstance(e, ast.BinOp) and isinstance(e.op, ast.Mult):
                l, r = self.ev(e.left, env), self.ev(e.right, env)
                if (l.e and not l.arr) or (r.e and not r.arr):
                    return AV(e=l.e | r.e)
            return FRESH_ARR
        if isinstance(e, ast.Compare):
            self.ev(e.left, env)
            for c in e.comparators:
                self.ev(c, env)
            return FRESH_IX
        if isinstance(e, ast.BoolOp):
            out = FRESH
            for v in e.values:
                out = out.join(self.ev(v, env))
            return out
        if isinstance(e, ast.IfExp):
            self.ev(e.test, env)
            return self.ev(e.body, env).join(self.ev(e.orelse, env))
        if isinstance(e, (ast.List, ast.Tuple, ast.Set)):
            el = set()
            for x in e.elts:
                if isinstance(x, ast.Starred):
                    v = self.ev(x.value, env)
                    el |= v.e | (v.o if v.arr else set())
                else:
                    v = self.ev(x, env)
                    el |= v.o | v.e
            return AV(e=el)
        if isinstance(e, ast.Dict):
            for v in e.values:
                self.ev(v, env)
            return AV(dictlike=True)
        if isinstance(e, (ast.ListComp, ast.GeneratorExp, ast.SetComp)):
            inner = dict(env)
            for g in e.generators:
                it = self.ev(g.iter, inner)
                self.assign(g.target, self.iter_item(g.iter, it, inner), inner, e, None)
            v = self.ev(e.elt, inner)
            return AV(e=v.o | v.e)
        if isinstance(e, ast.DictComp):
            return AV(dictlike=True)
        if isinstance(e, ast.Call):
            return self.call(e, env)
        if isinstance(e, ast.Starred):
            return self.ev(e.value, env)
        if isinstance(e, (ast.JoinedStr, ast.FormattedValue, ast.Lambda, ast.Slice)):
            return FRESH
        if isinstance(e, ast.NamedExpr):
            v = self.ev(e.value, env)
            env[e.target.id] = v
            return v
        return FRESH

    def is_field_obj(self, recv, env):
        """Is `recv` (a Name) an instance of gstools Field (so recv[name] is a stored result)?"""
        if not isinstance(recv, ast.Name):
            return False
        if recv.id == self.selfname and self.ci is not None and self.ci.is_subclass_of(self.an.field_cls):
            return True
        return recv.id in ("fld", "srf") and recv.id in self.params

    def call(self, e, env):
        fn_text = ast.unparse(e.func)
        if any(isinstance(a, ast.Starred) and isinstance(a.value, (ast.Tuple, ast.List)) for a in e.args):
            flat = []
            for a in e.args:
                if isinstance(a, ast.Starred) and isinstance(a.value, (ast.Tuple, ast.List)):
                    flat.extend(a.value.elts)
                else:
                    flat.append(a)
            e2 = ast.Call(func=e.func, args=flat, keywords=e.keywords)
            ast.copy_location(e2, e)
            return self.call(e2, env)
        args = [self.ev(a, env) for a in e.args]
        kws = {k.arg: self.ev(k.value, env) for k in e.keywords}
        kwexpr = {k.arg: k.value for k in e.keywords}
        # out= keyword is an in-place sink
        if "out" in kws and kws["out"].o:
            self.sink(kws["out"].o, e, "ufunc/reduction with out= on an array that may share memory")
        if fn_text in INPLACE_FUNCS and args and args[0].o:
            self.sink(args[0].o, e, "%s writes its first argument in place" % fn_text)
        # np.ma.masked_where / masked_invalid / masked_equal ... (copy=False): the result shares data AND the argument's mask is updated in place
        if fn_text.startswith(("np.ma.masked_", "ma.masked_")) and fn_text.split(".")[-1] not in ("masked_array", "masked_all", "masked_all_like"):
            a_idx = 1 if fn_text.endswith("masked_where") else 0
            src = args[a_idx] if len(args) > a_idx else kws.get("a", kws.get("x", FRESH))
            c = kwexpr.get("copy")
            if c is None and fn_text.endswith("masked_where") and len(e.args) > 2:
                c = e.args[2]
            if c is not None and not (isinstance(c, ast.Constant) and c.value is True):
                if src.o:
                    self.sink(src.o, e, "%s(copy=False) updates the mask of its argument in place" % fn_text)
                return AV(o=src.o, arr=True)
            return FRESH_ARR
        # numpy view-preserving constructors
        if fn_text in VIEW_FUNCS or fn_text == "np.array":
            copy_default = COPY_IF_KW.get(fn_text, False)
            copy = copy_default
            if "copy" in kwexpr:
                c = kwexpr["copy"]
                copy = not (isinstance(c, ast.Constant) and c.value is False)
                if not isinstance(c, ast.Constant):
                    copy = False  # unknown flag: may alias
            src = args[0] if args else kws.get("a", kws.get("object", FRESH))
            if copy:
                return FRESH_ARR
            # converting a python container of arrays copies; an array (or unknown parameter) may be returned as is
            if src.e and not src.o and fn_text in ("np.asarray", "np.array", "np.ma.array", "np.atleast_1d", "np.atleast_2d", "np.asanyarray"):
                return FRESH_ARR
            return AV(o=src.o, arr=True)
        if fn_text in INDEX_ARRAY_FUNCS:
            return FRESH_IX
        if fn_text in ("getattr",) and len(e.args) >= 2:
            if self.is_field_obj(e.args[0], env):
                return AV(o=["STORED"], e=["STORED"])
            return FRESH
        if fn_text == "setattr" and len(e.args) == 3:
            if isinstance(e.args[0], ast.Name) and e.args[0].id == self.selfname:
                self.summ.store.setdefault("STORED[*]", set()).update(args[2].all())
            return FRESH
        if fn_text in ("copy", "dcp", "deepcopy", "copy.copy", "copy.deepcopy", "np.copy"):
            return AV(arr=args[0].arr if args else False)
        if fn_text in ("list", "tuple") and args:
            a = args[0]
            return AV(e=a.e | (a.o if a.arr else frozenset()))
        if fn_text in ("zip", "enumerate", "reversed", "sorted", "iter"):
            return AV(e=frozenset().union(*[a.e | a.o for a in args]) if args else ())
        if fn_text == "partial" and e.args:
            return FRESH
        if isinstance(e.func, ast.Attribute):
            recv = self.ev(e.func.value, env)
            m = e.func.attr
            if m in INPLACE_METHODS and recv.o:
                self.sink(recv.o, e, ".%s() works in place" % m)
            if m in SIZE_MUTATORS and recv.o and not recv.arr:
                self.size_mut(recv.o, e)
            if m in CONTAINER_MUTATORS and recv.o and not recv.arr:
                self.note("container parameter mutated by .%s(): %s" % (m, ast.unparse(e)[:80]))
                for lab in recv.o:
                    self.summ.cmut.setdefault(lab, "%s: `%s`" % (self.fq, " ".join(ast.unparse(e).split())[:80]))
                if m in ("append", "extend", "insert") and isinstance(e.func.value, ast.Name):
                    pass
            if m in ("append", "extend", "insert") and isinstance(e.func.value, ast.Name) and args:
                nm = e.func.value.id
                cur = env.get(nm, FRESH)
                add = args[-1]
                env[nm] = AV(cur.o, cur.e | add.o | add.e, cur.arr, dictlike=cur.dictlike)
                return FRESH
            if m in VIEW_METHODS and (recv.o or recv.arr) and not (isinstance(e.func.value, ast.Name) and e.func.value.id in ("np", "spl", "sps", "warnings", "sp")):
                return AV(o=recv.o, arr=True)
            if m in ("copy", "astype", "flatten", "tolist", "compressed", "sum", "mean", "std", "min", "max", "any", "all", "dot", "clip", "round", "cumsum"):
                if m == "astype" and "copy" in kwexpr and isinstance(kwexpr["copy"], ast.Constant) and kwexpr["copy"].value is False:
                    return AV(o=recv.o, arr=True)
                return FRESH_ARR
            if m in ("get", "pop", "items", "keys", "values") and recv.dictlike:
                return FRESH
        # in-repo callees
        targets = self.an.resolve_call(self, e)
        if targets:
            out = FRESH
            for fq, how in targets:
                fn = self.an.funcs[fq][1]
                pos, kwonly, va, kw = _params(fn)
                names = list(pos)
                if how in ("method", "ctor") or (self.an.funcs[fq][2] is not None and names and names[0] in ("self", "cls")):
                    names = names[1:]
                bound = {}
                for i, a in enumerate(args):
                    if isinstance(e.args[i], ast.Starred):
                        for nm in names[i:]:
                            bound[nm] = (AV(o=a.e | a.o), e.args[i])
                        break
                    if i < len(names):
                        bound[names[i]] = (a, e.args[i])
                    elif va:
                        bound["*" + va] = (a, e.args[i])
                for k, v in kws.items():
                    if k is None:
                        continue
                    bound[k] = (v, kwexpr[k])
                out = out.join(self.apply_summary(fq, bound, e, env, "call"))
            return out
        return FRESH_ARR if fn_text.startswith(("np.", "sps.", "spl.", "special.")) else FRESH

    def apply_summary(self, fq, bound, node, env, how):
        s = self.an.summ.get(fq)
        if s is None:
            return FRESH
        here = "%s: `%s`" % (self.fq, " ".join(ast.unparse(node).split())[:80])
        my_req = None
        callee_fn = self.an.funcs[fq][1]
        defaults = self.defaults_of(callee_fn)
        for p, terms in s.mut.items():
            if p in bound:
                v, _ = bound[p]
                labs = v.o | v.e
                if not labs:
                    continue
                for term, chain in terms.items():
                    # constant flags at this call site that contradict what the callee needs -> infeasible
                    feasible = True
                    for rp, rv in s.req.get((p, term), {}).items():
                        argx = bound[rp][1] if rp in bound else defaults.get(rp)
                        if isinstance(argx, ast.Constant) and (isinstance(argx.value, bool) or argx.value is None) and bool(argx.value) != rv:
                            feasible = False
                    if not feasible:
                        continue
                    ch = (here + " passes it as `%s`" % p,) + tuple(chain)
                    if len(ch) > 8:
                        continue
                    if my_req is None:
                        my_req = self.requirements()
                    for lab in labs:
                        if lab.startswith("P:"):
                            self.summ.mut.setdefault(lab[2:], {}).setdefault(term, ch)
                            self.summ.req[(lab[2:], term)] = my_req
                        else:
                            self.summ.mut_labels.setdefault(lab, {}).setdefault(term, ch)
        if s.szmut or s.iterhaz:
            on_self = how in ("setter",) or isinstance(node, ast.Delete) or (isinstance(node, ast.Call) and isinstance(node.func, ast.Attribute)
                                                                           and isinstance(node.func.value, ast.Name) and node.func.value.id == self.selfname)

            def mapped(lab):
                if lab.startswith("P:"):
                    if lab[2:] in bound:
                        v, _ = bound[lab[2:]]
                        return frozenset() if v.arr else frozenset(l for l in v.o if l.startswith(("P:", "F:", "G:")))
                    return frozenset()
                if lab.startswith("F:"):
                    return frozenset([lab]) if on_self else frozenset()
                return frozenset([lab])

            for lab in s.szmut:
                m_ = mapped(lab)
                if m_:
                    self.size_mut(m_, node)
            for (a, b), where in s.iterhaz.items():
                ma, mb = mapped(a), mapped(b)
                if ma & mb:
                    self.an.iter_hazards.setdefault((self.fq, " ".join(ast.unparse(node).split())[:90]),
                                                    "passes %s as both the iterated and the resized container of %s" % (sorted(ma & mb), where))
                for x in ma:
                    for y in mb:
                        if x != y and (x.startswith("P:") or y.startswith("P:")):
                            self.summ.iterhaz.setdefault((x, y), where)
        out_o = set()
        for r in s.ret:
            if r.startswith("P:"):
                p = r[2:]
                if p in bound:
                    v, _ = bound[p]
                    out_o |= v.o | v.e
            else:
                out_o.add(r)
        # stores of parameters into fields of *this* object (self.m(...) / setter): propagate
        if how in ("setter", "call") and s.store:
            for attr, labs in s.store.items():
                for r in labs:
                    if r.startswith("P:") and r[2:] in bound:
                        v, _ = bound[r[2:]]
                        self.summ.store.setdefault(attr, set()).update(v.all())
        return AV(o=out_o, e=out_o, arr=bool(out_o))


def analyzed(prog):
    """The (fixpoint of the) alias analysis of a program, computed once per Program object and shared by all rules that consult it."""
    an = getattr(prog, "_alias_analysis", None)
    if an is None:
        an = Analyzer(prog)
        an.run()
        prog._alias_analysis = an
    return an
