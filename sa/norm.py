"""Load-time normalisation that makes the rules insensitive to common behaviour-preserving rewrites.

(a) operator form of numpy ufunc calls:  np.divide(a, b) -> a / b,  np.multiply -> *,  np.add -> +,  np.subtract -> -,
    np.negative -> unary minus,  np.matmul(a, b) -> a @ b
(c) NEW locals are inlined: a local name that did not exist in that function when the rules were written (frozen table
    sa/frozen_names.json), assigned exactly once from an expression whose inputs are not re-assigned before the use,
    is substituted into its uses (recovers `cond_no = self.cond_no`, `c = np.cos(angle)`, `fitted = popt[i]` hoists)
(d) NEW private helpers are inlined: a call to an in-module function / method of the same class whose name is not in the
    frozen table is replaced by its body (recovers "extract a few lines into a private helper")
Nothing here changes today's tree (its names are all in the frozen table) except (a).
"""
import ast
import copy
import json
import os

from . import guided

HERE = os.path.dirname(os.path.abspath(__file__))
FROZEN_PATH = os.path.join(HERE, "frozen_names.json")
UFUNC_OPS = {"np.divide": ast.Div, "np.true_divide": ast.Div, "np.multiply": ast.Mult, "np.add": ast.Add, "np.subtract": ast.Sub, "np.matmul": ast.MatMult}


def load_frozen():
    if not os.path.exists(FROZEN_PATH):
        return None
    with open(FROZEN_PATH) as fh:
        return json.load(fh)


class _Canon(ast.NodeTransformer):
    def visit_UnaryOp(self, node):
        self.generic_visit(node)
        # -(a / b) -> -a / b ;  -(a * b) -> -a * b     (negation is exact, so it commutes with one product / quotient)
        if isinstance(node.op, ast.USub) and isinstance(node.operand, ast.BinOp) and isinstance(node.operand.op, (ast.Div, ast.Mult)) \
                and not (isinstance(node.operand.left, ast.UnaryOp) and isinstance(node.operand.left.op, ast.USub)):
            b = node.operand
            return ast.copy_location(ast.BinOp(ast.UnaryOp(ast.USub(), b.left), b.op, b.right), node)
        return node

    def visit_Compare(self, node):
        self.generic_visit(node)
        # None is x  ->  x is None ;  0 == x  ->  x == 0      (identity / equality tests are symmetric)
        if len(node.ops) == 1 and isinstance(node.ops[0], (ast.Is, ast.IsNot, ast.Eq, ast.NotEq)) and isinstance(node.left, ast.Constant) and not isinstance(node.comparators[0], ast.Constant):
            node.left, node.comparators = node.comparators[0], [node.left]
        return node

    def visit_Call(self, node):
        self.generic_visit(node)
        # f(a, **{"k": v})  ->  f(a, k=v)      (literal string keys that are identifiers)
        # f(a, **dict(k=v, ...))  ->  f(a, k=v, ...)
        if any(k.arg is None and isinstance(k.value, ast.Call) and isinstance(k.value.func, ast.Name) and k.value.func.id == "dict" and not k.value.args
               and all(kk.arg for kk in k.value.keywords) for k in node.keywords):
            kws = []
            for k in node.keywords:
                if k.arg is None and isinstance(k.value, ast.Call) and isinstance(k.value.func, ast.Name) and k.value.func.id == "dict" and not k.value.args and all(kk.arg for kk in k.value.keywords):
                    kws += list(k.value.keywords)
                else:
                    kws.append(k)
            node.keywords = kws
        if any(k.arg is None and isinstance(k.value, ast.Dict) for k in node.keywords):
            kws = []
            for k in node.keywords:
                if k.arg is None and isinstance(k.value, ast.Dict) and k.value.keys and all(isinstance(x, ast.Constant) and isinstance(x.value, str) and x.value.isidentifier() for x in k.value.keys):
                    kws += [ast.keyword(arg=x.value, value=v) for x, v in zip(k.value.keys, k.value.values)]
                else:
                    kws.append(k)
            node.keywords = kws
        fn = ast.unparse(node.func)
        # range(0, n) -> range(n)
        if fn in ("range", "prange") and len(node.args) == 2 and isinstance(node.args[0], ast.Constant) and node.args[0].value == 0 and type(node.args[0].value) is int:
            node.args = [node.args[1]]
            return node
        if fn in UFUNC_OPS and len(node.args) == 2 and not node.keywords:
            return ast.copy_location(ast.BinOp(node.args[0], UFUNC_OPS[fn](), node.args[1]), node)
        if fn == "np.negative" and len(node.args) == 1 and not node.keywords:
            return ast.copy_location(ast.UnaryOp(ast.USub(), node.args[0]), node)
        # np.array(k * [0], dtype=D) / np.array([0] * k, dtype=D) / np.full(k, 0, dtype=D)   ->   np.zeros(k, dtype=D)
        if fn == "np.array" and len(node.args) == 1 and isinstance(node.args[0], ast.BinOp) and isinstance(node.args[0].op, ast.Mult) and all(k.arg == "dtype" for k in node.keywords):
            l, r = node.args[0].left, node.args[0].right
            for lst, cnt in ((l, r), (r, l)):
                if isinstance(lst, ast.List) and len(lst.elts) == 1 and isinstance(lst.elts[0], ast.Constant) and type(lst.elts[0].value) in (int, float) and lst.elts[0].value == 0 \
                        and not isinstance(cnt, (ast.List, ast.Tuple)):
                    return ast.copy_location(ast.Call(ast.Attribute(ast.Name("np", ast.Load()), "zeros", ast.Load()), [cnt], node.keywords), node)
        if fn == "np.full" and len(node.args) == 2 and isinstance(node.args[1], ast.Constant) and type(node.args[1].value) in (int, float) and node.args[1].value == 0 \
                and all(k.arg == "dtype" for k in node.keywords) and node.keywords:
            return ast.copy_location(ast.Call(ast.Attribute(ast.Name("np", ast.Load()), "zeros", ast.Load()), [node.args[0]], node.keywords), node)
        return node


class _PairLoops(ast.NodeTransformer):
    """for a, b in combinations(range(N), 2): body   ->   for a in range(N - 1): for b in range(a + 1, N): body     (same pairs, same order)"""

    def visit_For(self, node):
        self.generic_visit(node)
        it = node.iter
        if (isinstance(it, ast.Call) and ast.unparse(it.func) in ("combinations", "itertools.combinations") and len(it.args) == 2 and not it.keywords
                and isinstance(it.args[1], ast.Constant) and it.args[1].value == 2 and isinstance(it.args[0], ast.Call) and ast.unparse(it.args[0].func) == "range"
                and len(it.args[0].args) == 1 and isinstance(node.target, ast.Tuple) and len(node.target.elts) == 2 and all(isinstance(x, ast.Name) for x in node.target.elts)
                and not node.orelse and not any(isinstance(x, (ast.Break,)) for x in ast.walk(node))):
            n_ = it.args[0].args[0]
            a, b = node.target.elts
            inner = ast.For(ast.Name(b.id, ast.Store()), ast.Call(ast.Name("range", ast.Load()), [ast.BinOp(ast.Name(a.id, ast.Load()), ast.Add(), ast.Constant(1)), copy.deepcopy(n_)], []), node.body, [])
            outer = ast.For(ast.Name(a.id, ast.Store()), ast.Call(ast.Name("range", ast.Load()), [ast.BinOp(copy.deepcopy(n_), ast.Sub(), ast.Constant(1))], []), [inner], [])
            return ast.fix_missing_locations(ast.copy_location(outer, node))
        return node


class _NoOpElse(ast.NodeTransformer):
    """if c: A else: pass / ...   ->   if c: A"""

    def visit_If(self, node):
        self.generic_visit(node)
        if node.orelse and all(isinstance(s, ast.Pass) or (isinstance(s, ast.Expr) and isinstance(s.value, ast.Constant) and s.value.value is Ellipsis) for s in node.orelse):
            node.orelse = []
        return node


class _AugForm(ast.NodeTransformer):
    """Cython sources only (typed C scalars / memoryview elements, where both spellings mean the same):
    t[i] = t[i] + e -> t[i] += e everywhere;  x = x + e -> x += e for plain names in functions WITHOUT a prange (inside a prange the two
    spellings differ: `+=` declares a reduction, `x = x + e` a private variable)."""

    OPS = (ast.Add, ast.Sub, ast.Mult)

    def __init__(self):
        self.in_prange_fn = False

    def visit_FunctionDef(self, node):
        saved = self.in_prange_fn
        self.in_prange_fn = any(isinstance(n, ast.Call) and getattr(n.func, "id", "") == "prange" for n in ast.walk(node))
        self.generic_visit(node)
        self.in_prange_fn = saved
        return node

    def visit_Assign(self, node):
        if len(node.targets) == 1 and isinstance(node.value, ast.BinOp) and isinstance(node.value.op, self.OPS):
            t = node.targets[0]
            if ast.unparse(node.value.left) == ast.unparse(t) and (isinstance(t, ast.Subscript) or (isinstance(t, ast.Name) and not self.in_prange_fn)):
                tt = copy.deepcopy(t)
                return ast.copy_location(ast.AugAssign(tt, node.value.op, node.value.right), node)
        return node


class _DictUpdate(ast.NodeTransformer):
    """d.update({"k": v, ...}) / d.update(k=v, ...)  ->  d["k"] = v ; ...   for a local d that is known to be a dict in this function
    (the **kwargs parameter, or a name assigned from a dict display / dict(...) call); literal string keys; same order."""

    def __init__(self):
        self.dicts = set()

    def visit_FunctionDef(self, node):
        saved = self.dicts
        d = set()
        if node.args.kwarg is not None:
            d.add(node.args.kwarg.arg)
        for n in ast.walk(node):
            if isinstance(n, ast.Assign) and len(n.targets) == 1 and isinstance(n.targets[0], ast.Name):
                v = n.value
                def is_dict(x):
                    return isinstance(x, (ast.Dict, ast.DictComp)) or (isinstance(x, ast.Call) and isinstance(x.func, ast.Name) and x.func.id == "dict")

                if is_dict(v) or (isinstance(v, ast.IfExp) and (is_dict(v.body) or is_dict(v.orelse))) or (isinstance(v, ast.BoolOp) and isinstance(v.op, ast.Or) and is_dict(v.values[-1])):
                    d.add(n.targets[0].id)
            # `x = {} if x is None else x` arrives here in the self-default form `if x is None: x = {}` (same fact)
        self.dicts = saved | d
        self.generic_visit(node)
        self.dicts = saved
        return node

    def visit_Expr(self, node):
        c = node.value
        if (isinstance(c, ast.Call) and isinstance(c.func, ast.Attribute) and c.func.attr == "update" and isinstance(c.func.value, ast.Name) and c.func.value.id in self.dicts):
            pairs = None
            if len(c.args) == 1 and not c.keywords and isinstance(c.args[0], ast.Dict) and c.args[0].keys and all(isinstance(k, ast.Constant) and isinstance(k.value, str) for k in c.args[0].keys):
                pairs = [(k.value, v) for k, v in zip(c.args[0].keys, c.args[0].values)]
            elif not c.args and c.keywords and all(k.arg for k in c.keywords):
                pairs = [(k.arg, k.value) for k in c.keywords]
            if pairs:
                d = c.func.value.id
                # values must not read the dict being updated (update evaluates all values first)
                if not any(isinstance(n, ast.Name) and n.id == d for _, v in pairs for n in ast.walk(v)):
                    return [ast.copy_location(ast.Assign([ast.Subscript(ast.Name(d, ast.Load()), ast.Constant(k), ast.Store())], v), node) for k, v in pairs]
        return node


class _SelfDefault(ast.NodeTransformer):
    """x = A if c else x  ->  if c: x = A        x = x if c else A  ->  if not c: x = A"""

    def visit_Assign(self, node):
        self.generic_visit(node)
        if not (isinstance(node.value, ast.IfExp) and len(node.targets) == 1 and isinstance(node.targets[0], ast.Name)):
            return node
        t, v = node.targets[0].id, node.value
        if isinstance(v.orelse, ast.Name) and v.orelse.id == t:
            test, val = v.test, v.body
        elif isinstance(v.body, ast.Name) and v.body.id == t:
            test, val = ast.UnaryOp(ast.Not(), v.test), v.orelse
        else:
            return node
        new = ast.If(test, [ast.copy_location(ast.Assign(node.targets, val), node)], [])
        return ast.copy_location(new, node)


def _bool_only(fn, nm, skip):
    """Every load of nm (outside `skip`) is in a boolean context: if/while/ifexp test, operand of not/and/or."""
    parents = {}
    for p in ast.walk(fn):
        for c in ast.iter_child_nodes(p):
            parents[c] = p
    for n in ast.walk(fn):
        if isinstance(n, ast.Name) and n.id == nm and isinstance(n.ctx, ast.Load) and n is not skip:
            c, p = n, parents.get(n)
            while isinstance(p, (ast.BoolOp,)) or (isinstance(p, ast.UnaryOp) and isinstance(p.op, ast.Not)):
                c, p = p, parents.get(p)
            if not (isinstance(p, (ast.If, ast.While, ast.IfExp)) and p.test is c):
                return False
    return True


def flag_branches(fn):
    """x = C ; if x: A else: B   ->   if C: x = True; A  else: x = False; B     (x used only as a truth value; two-armed only)"""
    changed = False
    for blk_owner in ast.walk(fn):
        for field in ("body", "orelse", "finalbody"):
            blk = getattr(blk_owner, field, None)
            if not isinstance(blk, list):
                continue
            i = 0
            while i < len(blk) - 1:
                s, t = blk[i], blk[i + 1]
                if (isinstance(s, ast.Assign) and len(s.targets) == 1 and isinstance(s.targets[0], ast.Name) and isinstance(t, ast.If)
                        and isinstance(t.test, ast.Name) and t.test.id == s.targets[0].id and not isinstance(s.value, ast.Constant) and t.orelse):
                    nm = s.targets[0].id
                    stores = sum(1 for n in ast.walk(fn) if isinstance(n, ast.Name) and n.id == nm and isinstance(n.ctx, (ast.Store, ast.Del)))
                    if stores == 1 and _bool_only(fn, nm, None) and not any(isinstance(n, ast.Name) and n.id == nm for n in ast.walk(s.value)):
                        t.test = s.value
                        t.body.insert(0, ast.copy_location(ast.Assign([ast.Name(nm, ast.Store())], ast.Constant(True)), s))
                        t.orelse.insert(0, ast.copy_location(ast.Assign([ast.Name(nm, ast.Store())], ast.Constant(False)), s))
                        del blk[i]
                        changed = True
                        continue
                i += 1
    if changed:
        ast.fix_missing_locations(fn)
    return changed


_FLIP = {ast.NotEq: ast.Eq, ast.IsNot: ast.Is, ast.NotIn: ast.In}


def _positive(test):
    if isinstance(test, ast.UnaryOp) and isinstance(test.op, ast.Not):
        return test.operand
    if isinstance(test, ast.Compare) and len(test.ops) == 1 and type(test.ops[0]) in _FLIP:
        return ast.copy_location(ast.Compare(test.left, [_FLIP[type(test.ops[0])]()], test.comparators), test)
    return None


class _Orient(ast.NodeTransformer):
    """if a != b: X else: Y  ->  if a == b: Y else: X   (two-armed conditionals get a positive test; elif chains are left alone)"""

    def visit_If(self, node):
        self.generic_visit(node)
        if node.orelse and not (len(node.orelse) == 1 and isinstance(node.orelse[0], ast.If)):
            p = _positive(node.test)
            if p is not None:
                node.test, node.body, node.orelse = p, node.orelse, node.body
        return node

    def visit_IfExp(self, node):
        self.generic_visit(node)
        p = _positive(node.test)
        if p is not None:
            node.test, node.body, node.orelse = p, node.orelse, node.body
        return node


def canon_tree(tree, cython=False):
    from .guided import NNF

    _NoOpElse().visit(tree)
    _PairLoops().visit(tree)
    if cython:
        _AugForm().visit(tree)
    _Canon().visit(tree)
    _DictUpdate().visit(tree)
    NNF().visit(tree)
    _Orient().visit(tree)
    _SelfDefault().visit(tree)
    for n in ast.walk(tree):
        if isinstance(n, ast.FunctionDef):
            flag_branches(n)
    return ast.fix_missing_locations(tree)


def local_names(fn):
    out = set()
    for n in ast.walk(fn):
        if isinstance(n, ast.Name) and isinstance(n.ctx, (ast.Store, ast.Del)):
            out.add(n.id)
        elif isinstance(n, ast.arg):
            out.add(n.arg)
    return out


def function_table(tree):
    """{qualname: FunctionDef} for module-level functions, methods (Class.name, setters as Class.name@set) and nested defs."""
    out = {}

    def add(prefix, node):
        for st in node.body:
            if isinstance(st, ast.FunctionDef):
                q = prefix + st.name
                if any(ast.unparse(d).endswith(".setter") for d in st.decorator_list):
                    q += "@set"
                elif any(ast.unparse(d) == "property" for d in st.decorator_list):
                    q += "@get"
                out[q] = st
                add(q + ".<locals>.", st)
            elif isinstance(st, ast.ClassDef):
                add(prefix + st.name + ".", st)
            elif isinstance(st, (ast.If, ast.Try)):
                pass

    add("", tree)
    return out


def build_frozen(prog_modules):
    """Snapshot of today's names and calling conventions: {relpath: {"functions": {qual: [locals]}, "calls": {qual: [[callee, npos, [kw]]]}}}"""
    data = {}
    sigs = signatures([t for _, t in prog_modules])
    for rel, tree in prog_modules:
        ft = function_table(tree)
        data[rel] = {"functions": {q: sorted(local_names(f)) for q, f in ft.items()},
                     "text": {q: guided.signature_text(f) for q, f in ft.items()},
                     "calls": {q: [[t, n, list(k)] for _, t, n, k in call_shapes(f, _with_super(sigs, tree, q))] for q, f in ft.items()}}
    return data


# ------------------------------------------------------------------------------------------------ (c) new locals
def pure_method_names(trees):
    """Names of functions/methods none of whose definitions (anywhere in the package) stores to an attribute or subscript of an
    object they did not create, calls setattr/delattr, or calls a non-pure method on `self` (least fixpoint, by name)."""
    defs = {}
    for tree in trees:
        for n in ast.walk(tree):
            if isinstance(n, ast.FunctionDef):
                defs.setdefault(n.name, []).append(n)
    impure = set()
    calls = {}
    for name, fns in defs.items():
        for f in fns:
            created = {t.id for s in ast.walk(f) if isinstance(s, ast.Assign) and isinstance(s.value, (ast.Call, ast.List, ast.Dict, ast.BinOp, ast.ListComp))
                       for t in s.targets if isinstance(t, ast.Name)}
            for n in ast.walk(f):
                if isinstance(n, (ast.Attribute, ast.Subscript)) and isinstance(n.ctx, (ast.Store, ast.Del)):
                    root = n
                    while isinstance(root, (ast.Attribute, ast.Subscript)):
                        root = root.value
                    if not (isinstance(root, ast.Name) and root.id in created and root.id != "self"):
                        impure.add(name)
                if isinstance(n, ast.Call):
                    fn = n.func
                    if isinstance(fn, ast.Name) and fn.id in ("setattr", "delattr"):
                        impure.add(name)
                    if isinstance(fn, ast.Attribute):
                        calls.setdefault(name, set()).add(fn.attr)
                    elif isinstance(fn, ast.Name):
                        calls.setdefault(name, set()).add(fn.id)
    changed = True
    while changed:
        changed = False
        for name in defs:
            if name not in impure and any(c in impure for c in calls.get(name, ()) if c in defs):
                impure.add(name)
                changed = True
    return set(defs) - impure


MODULE_ALIASES = {"np", "sps", "spl", "spo", "math", "scipy", "numpy", "itertools", "functools", "warnings", "copy"}


def _reads(e):
    names = {n.id for n in ast.walk(e) if isinstance(n, ast.Name) and isinstance(n.ctx, ast.Load)}
    attrs = {ast.unparse(n) for n in ast.walk(e) if isinstance(n, ast.Attribute)}
    # np.sign, sps.gamma, ... are functions of imported modules, not state
    attrs = {a for a in attrs if a.split(".")[0] not in MODULE_ALIASES}
    # getattr(obj, name) / hasattr(obj, name) read an attribute of obj that is not known statically
    for n in ast.walk(e):
        if isinstance(n, ast.Call) and isinstance(n.func, ast.Name) and n.func.id in ("getattr", "hasattr") and n.args:
            attrs.add(ast.unparse(n.args[0]) + ".<dynamic>")
    return names, attrs


def _stores_in(node, nm):
    return any(isinstance(n, ast.Name) and n.id == nm and isinstance(n.ctx, (ast.Store, ast.Del)) for n in ast.walk(node))


def _loads_in(node, nm):
    return [n for n in ast.walk(node) if isinstance(n, ast.Name) and n.id == nm and isinstance(n.ctx, ast.Load)]


def _invalidates(node, rn, ra, pure):
    """May executing `node` change the value of an expression reading names rn and attribute paths ra?"""
    for n in ast.walk(node):
        if isinstance(n, ast.Name) and isinstance(n.ctx, (ast.Store, ast.Del)) and n.id in rn:
            return True
        if isinstance(n, (ast.Attribute, ast.Subscript)) and isinstance(n.ctx, (ast.Store, ast.Del)):
            base = ast.unparse(n.value)
            meta = ("shape", "size", "ndim", "dtype")  # an element store x[i] = v does not change x.shape / x.size ...
            ra_eff = [a for a in ra if not (isinstance(n, ast.Subscript) and a.split(".")[-1] in meta and a.rsplit(".", 1)[0] == base)]
            rn_eff = rn if not (isinstance(n, ast.Subscript) and all(a.split(".")[-1] in meta for a in ra if a.startswith(base + ".")) and any(a.startswith(base + ".") for a in ra)) else (rn - {base})
            if any(a == ast.unparse(n) or a.startswith(base + ".") or a == base or base.startswith(a) for a in ra_eff) or (isinstance(n.value, ast.Name) and n.value.id in rn_eff):
                return True
        if isinstance(n, ast.Call):
            fn = n.func
            if isinstance(fn, ast.Name) and fn.id in ("setattr", "delattr"):
                obj = ast.unparse(n.args[0]) if n.args else ""
                if not n.args or any(a.startswith(obj + ".") for a in ra):
                    return True
            if isinstance(fn, ast.Attribute) and ra:
                recv = ast.unparse(fn.value)
                if recv == "super()":
                    recv = "self"  # a method of the base class run on this object
                if (fn.attr not in pure or fn.attr in ("__setattr__", "__delattr__", "__setitem__", "__init__")) and any(a.startswith(recv + ".") for a in ra):
                    return True
            # in-place numpy mutation of a name the value reads (x.sort(), np.fill_diagonal(x, ..) ...) is not modelled: the
            # value expressions we inline are re-evaluated, which is only different when an input was mutated in between
            if isinstance(fn, ast.Attribute) and isinstance(fn.value, ast.Name) and fn.value.id in rn and fn.attr in ("sort", "fill", "append", "extend", "pop", "remove", "insert", "update", "clear", "resize", "itemset", "put", "setdefault", "reverse"):
                return True
    return False


def split_new_tuple_assigns(fn, known):
    """`a, b = (e1, e2)` where a and b are NEW locals (not in the reference) and no e_i reads a or b becomes `a = e1; b = e2`, so that the
    single-name machinery (inlining, sinking, renaming) applies to each.  Returns True when something was split."""
    params = {a.arg for a in fn.args.posonlyargs + fn.args.args + fn.args.kwonlyargs}
    changed = False
    for node in ast.walk(fn):
        for field in ("body", "orelse", "finalbody"):
            b = getattr(node, field, None)
            if not isinstance(b, list):
                continue
            i = 0
            while i < len(b):
                st = b[i]
                if (isinstance(st, ast.Assign) and len(st.targets) == 1 and isinstance(st.targets[0], ast.Tuple) and isinstance(st.value, ast.Tuple)
                        and len(st.targets[0].elts) == len(st.value.elts) and all(isinstance(t, ast.Name) for t in st.targets[0].elts)):
                    names = [t.id for t in st.targets[0].elts]
                    if all(n_ not in known and n_ not in params for n_ in names) and len(set(names)) == len(names) \
                            and not any(isinstance(x, ast.Name) and x.id in names for e in st.value.elts for x in ast.walk(e)):
                        b[i:i + 1] = [ast.copy_location(ast.Assign([ast.Name(n_, ast.Store())], e), st) for n_, e in zip(names, st.value.elts)]
                        changed = True
                        i += len(names)
                        continue
                i += 1
    if changed:
        ast.fix_missing_locations(fn)
    return changed


def inline_new_locals(fn, known, pure=frozenset()):
    """Substitute NEW locals (not in `known`) into their uses; remove the assignments.

    Block-local reaching definitions: a definition `x = e` in a statement list reaches exactly the uses of x in the following
    statements of the same list up to the next store of x; the substitution is done only when every use of x in the function is
    reached that way and nothing between the definition and the use can change the value of e."""
    params = {a.arg for a in fn.args.posonlyargs + fn.args.args + fn.args.kwonlyargs}
    if fn.args.vararg:
        params.add(fn.args.vararg.arg)
    if fn.args.kwarg:
        params.add(fn.args.kwarg.arg)
    changed = False
    for _ in range(8):
        new_names = sorted(local_names(fn) - set(known) - params)
        progress = False
        for nm in new_names:
            mutated = any(
                (isinstance(n, (ast.Subscript, ast.Attribute)) and isinstance(n.ctx, (ast.Store, ast.Del)) and isinstance(n.value, ast.Name) and n.value.id == nm)
                or (isinstance(n, ast.AugAssign) and isinstance(n.target, ast.Name) and n.target.id == nm)
                or (isinstance(n, (ast.For, ast.comprehension)) and _stores_in(n.target, nm))
                or (isinstance(n, (ast.With,)) and any(i.optional_vars is not None and _stores_in(i.optional_vars, nm) for i in n.items))
                or (isinstance(n, (ast.Global, ast.Nonlocal)) and nm in n.names)
                or (isinstance(n, ast.NamedExpr) and n.target.id == nm)
                or (isinstance(n, ast.FunctionDef) and n is not fn and (n.name == nm or _loads_in(n, nm) or _stores_in(n, nm)))
                or (isinstance(n, ast.Lambda) and _loads_in(n, nm))
                for n in ast.walk(fn))
            if mutated:
                continue
            plan = []  # (block list, def index, [use statements])
            covered = 0
            ok = True

            def scan(stmts):
                nonlocal covered, ok
                i = 0
                while i < len(stmts):
                    st = stmts[i]
                    if isinstance(st, ast.Assign) and len(st.targets) == 1 and isinstance(st.targets[0], ast.Name) and st.targets[0].id == nm:
                        if _loads_in(st.value, nm):
                            ok = False
                            return
                        rn, ra = _reads(st.value)
                        has_call = any(isinstance(x, ast.Call) for x in ast.walk(st.value))
                        uses = []
                        j = i + 1
                        while j < len(stmts) and not _stores_in(stmts[j], nm):
                            u = _loads_in(stmts[j], nm)
                            if u:
                                # nothing from the definition up to (and including) this statement may invalidate the value
                                if any(_invalidates(stmts[k], rn, ra, pure) for k in range(i + 1, j + 1)):
                                    ok = False
                                    return
                                if has_call and (len(u) > 1 or uses or isinstance(stmts[j], (ast.For, ast.While))):
                                    # a call is evaluated once; duplicating it is only behaviour-preserving for a single use
                                    if not _pure_value(st.value, pure):
                                        ok = False
                                        return
                                uses.append(stmts[j])
                                covered += len(u)
                            j += 1
                        plan.append((stmts, st, uses))
                    else:
                        for blk in ("body", "orelse", "finalbody"):
                            sub = getattr(st, blk, None)
                            if isinstance(sub, list) and not isinstance(st, (ast.FunctionDef, ast.ClassDef)):
                                scan(sub)
                        if isinstance(st, ast.Try):
                            for h in st.handlers:
                                scan(h.body)
                    i += 1

            scan(fn.body)
            total = len(_loads_in(fn, nm))
            ndefs = sum(1 for n in ast.walk(fn) if isinstance(n, ast.Name) and n.id == nm and isinstance(n.ctx, (ast.Store, ast.Del)))
            if not ok or not plan or covered != total or ndefs != len(plan) or total == 0:
                continue
            for stmts, st, uses in plan:
                val = st.value

                class Sub(ast.NodeTransformer):
                    def visit_Name(self, n):
                        if n.id == nm and isinstance(n.ctx, ast.Load):
                            return ast.copy_location(copy.deepcopy(val), n)
                        return n

                for u in uses:
                    Sub().visit(u)
                stmts.remove(st)
                if not stmts:
                    stmts.append(ast.Pass())
            ast.fix_missing_locations(fn)
            changed = progress = True
        if not progress:
            break
    return changed


def sink_uses_of_new_locals(fn, known):
    """if c: ...; v = A  else: ...; v = B ; S(v)    ->    S moved into both arms      (v a NEW local whose only use is S, directly after the if)
    Prepares the inlining of v; moving S into the arms never changes behaviour (it runs after either arm anyway)."""
    params = {a.arg for n in ast.walk(fn) if isinstance(n, ast.arguments) for a in n.posonlyargs + n.args + n.kwonlyargs}
    changed = False
    for node in ast.walk(fn):
        for field in ("body", "orelse", "finalbody"):
            b = getattr(node, field, None)
            if not isinstance(b, list):
                continue
            i = 0
            while i < len(b) - 1:
                s, t = b[i], b[i + 1]
                if isinstance(s, ast.If) and s.orelse and isinstance(t, (ast.Assign, ast.Expr, ast.Return)) and not isinstance(s.body[-1], (ast.Return, ast.Raise, ast.Continue, ast.Break)) \
                        and not isinstance(s.orelse[-1], (ast.Return, ast.Raise, ast.Continue, ast.Break)):
                    used = {n.id for n in ast.walk(t) if isinstance(n, ast.Name) and isinstance(n.ctx, ast.Load)}
                    cands = [v for v in used if v not in known and v not in params]
                    ok = False
                    for v in cands:
                        in_body = any(isinstance(x, ast.Assign) and len(x.targets) == 1 and isinstance(x.targets[0], ast.Name) and x.targets[0].id == v for x in s.body)
                        in_else = any(isinstance(x, ast.Assign) and len(x.targets) == 1 and isinstance(x.targets[0], ast.Name) and x.targets[0].id == v for x in s.orelse)
                        total = sum(1 for n in ast.walk(fn) if isinstance(n, ast.Name) and n.id == v and isinstance(n.ctx, ast.Load))
                        here = sum(1 for n in ast.walk(t) if isinstance(n, ast.Name) and n.id == v and isinstance(n.ctx, ast.Load))
                        if in_body and in_else and total == here:
                            ok = True
                    if ok:
                        s.body.append(copy.deepcopy(t))
                        s.orelse.append(copy.deepcopy(t))
                        del b[i + 1]
                        changed = True
                        continue
                i += 1
    if changed:
        ast.fix_missing_locations(fn)
    return changed


def drop_dead_new_locals(fn, known):
    """Remove `name = <call-free expression>` for NEW names that are never read (left over when a flag was folded into branches)."""
    loads = {n.id for n in ast.walk(fn) if isinstance(n, ast.Name) and isinstance(n.ctx, ast.Load)}
    params = {a.arg for n in ast.walk(fn) if isinstance(n, ast.arguments) for a in n.posonlyargs + n.args + n.kwonlyargs}
    dead = {n.id for n in ast.walk(fn) if isinstance(n, ast.Name) and isinstance(n.ctx, ast.Store)} - loads - set(known) - params
    if not dead:
        return False
    changed = False
    for node in ast.walk(fn):
        for field in ("body", "orelse", "finalbody"):
            b = getattr(node, field, None)
            if isinstance(b, list):
                keep = [st for st in b if not (isinstance(st, ast.Assign) and len(st.targets) == 1 and isinstance(st.targets[0], ast.Name) and st.targets[0].id in dead
                                               and not any(isinstance(x, ast.Call) for x in ast.walk(st.value)))]
                if len(keep) != len(b):
                    changed = True
                    b[:] = keep or [ast.Pass()]
    if changed:
        ast.fix_missing_locations(fn)
    return changed


PURE_CALLS = {"min", "max", "abs", "slice", "np.cos", "np.sin", "np.sqrt", "np.abs", "np.asarray", "np.array", "np.atleast_1d", "np.atleast_2d", "len", "int", "float", "bool", "np.size",
              "np.shape", "np.ndim", "np.exp", "np.log", "np.prod", "np.sum", "np.max", "np.min", "np.any", "np.all", "np.isclose", "np.arange", "np.ones",
              "np.zeros", "np.empty", "np.logical_or", "np.logical_and", "np.logical_not", "np.isnan", "isinstance", "tuple", "list", "range", "np.power",
              "np.linalg.norm", "np.squeeze", "np.reshape", "np.where", "np.arccos", "np.arcsin", "np.tan", "np.arctan2", "sps.gamma", "sps.loggamma",
              "np.sign", "np.absolute", "np.arctan", "np.log1p", "np.expm1", "np.invert", "np.ceil", "np.floor", "np.deg2rad", "np.rad2deg", "np.minimum", "np.maximum", "np.isfinite",
              "np.dot", "np.cumsum", "np.mean", "np.var", "np.ones_like", "np.zeros_like", "np.empty_like", "np.full_like", "np.full", "np.linspace", "np.concatenate", "np.insert", "np.tile"}


def _pure_value(e, pure):
    for n in ast.walk(e):
        if isinstance(n, ast.Call):
            t = ast.unparse(n.func)
            if t in PURE_CALLS:
                continue
            if isinstance(n.func, ast.Attribute) and n.func.attr in pure:
                continue
            if isinstance(n.func, ast.Name) and n.func.id in pure:
                continue
            return False
    return True


# ------------------------------------------------------------------------------------------------ (d) new helpers
def _simple_helper(h):
    """Helper bodies we inline: no nested defs, no yield, no global; returns only at the end of branches."""
    if h.args.vararg is not None or h.args.kwarg is not None:
        return False  # *args / **kwargs parameters are not bound by the substitution
    for n in ast.walk(h):
        if isinstance(n, (ast.Yield, ast.YieldFrom, ast.Global, ast.Nonlocal, ast.Lambda)) or (isinstance(n, ast.FunctionDef) and n is not h):
            return False
    return len(h.body) <= 25


def _rename_locals(h, suffix, as_locals=()):
    """Copy of the helper's body with its locals (and the parameters in `as_locals`) renamed by `suffix`."""
    loc = local_names(h)
    params = [a.arg for a in h.args.posonlyargs + h.args.args + h.args.kwonlyargs]
    body = copy.deepcopy(h.body)

    class R(ast.NodeTransformer):
        def visit_Name(self, n):
            if n.id in loc and (n.id not in params or n.id in as_locals):
                return ast.copy_location(ast.Name(n.id + suffix, n.ctx), n)
            return n

    return [R().visit(s) for s in body], params


def _simple_arg(e):
    """Argument expressions that may be substituted for every load of the parameter: names, constants, attribute chains."""
    if isinstance(e, (ast.Name, ast.Constant)):
        return True
    if isinstance(e, ast.Attribute):
        return _simple_arg(e.value)
    if isinstance(e, ast.UnaryOp) and isinstance(e.op, (ast.USub, ast.Not)):
        return _simple_arg(e.operand)
    return False


def inline_new_helpers(tree, known_functions, rel, multi=frozenset()):
    """Inline calls to NEW private helpers (module-level functions or methods of the same class)."""
    ft = function_table(tree)
    new = {q: f for q, f in ft.items() if q not in known_functions and ".<locals>." not in q and _simple_helper(f)}
    # NEW nested helpers (closures defined inside a known function): callable from their parent and from sibling closures
    new_nested = {q: f for q, f in ft.items() if ".<locals>." in q and q not in known_functions and q.split(".<locals>.")[0] in known_functions
                  and q.count(".<locals>.") == 1 and _simple_helper(f)}
    if not new and not new_nested:
        return False
    changed = False
    counter = [0]
    bases = {c.name: [b.id for b in c.bases if isinstance(b, ast.Name)] for c in tree.body if isinstance(c, ast.ClassDef)}
    for q, fn in list(ft.items()):
        if q in new or q in new_nested:
            continue
        cls = q.split(".")[0] if "." in q and not q.startswith("<") else None

        top = q.split(".<locals>.")[0]

        def resolve(call):
            f = call.func
            if isinstance(f, ast.Name) and ("%s.<locals>.%s" % (top, f.id)) in new_nested and new_nested["%s.<locals>.%s" % (top, f.id)] is not fn:
                return new_nested["%s.<locals>.%s" % (top, f.id)], False
            if isinstance(f, ast.Name) and f.id in new:
                return new[f.id], False
            if isinstance(f, ast.Attribute) and isinstance(f.value, ast.Name) and f.value.id == "self" and cls is not None:
                # the method the call resolves to: the class itself, then its bases defined in this module (pull-up method);
                # only when no other class anywhere overrides the helper (`multi` = method names defined in several classes)
                if f.attr in multi:
                    return None, False
                todo, seen = [cls], set()
                while todo:
                    c = todo.pop(0)
                    if c in seen:
                        continue
                    seen.add(c)
                    k = "%s.%s" % (c, f.attr)
                    if k in new:
                        return new[k], True
                    if k in ft:
                        return None, False
                    todo += bases.get(c, [])
            return None, False

        def bind(h, call, is_method):
            params = [a.arg for a in h.args.posonlyargs + h.args.args]
            if is_method:
                params = params[1:]
            m = {}
            if any(isinstance(a, ast.Starred) for a in call.args) or any(k.arg is None for k in call.keywords):
                return None
            for p, a in zip(params, call.args):
                m[p] = a
            for k in call.keywords:
                m[k.arg] = k.value
            dfl = h.args.defaults
            allp = h.args.posonlyargs + h.args.args
            for a, d in zip(allp[len(allp) - len(dfl):], dfl):
                m.setdefault(a.arg, d)
            for a, d in zip(h.args.kwonlyargs, h.args.kw_defaults):
                if d is not None:
                    m.setdefault(a.arg, d)
            if any(p not in m for p in params):
                return None
            return m

        def subst(stmts, mapping):
            class S(ast.NodeTransformer):
                def visit_Name(self, n):
                    if n.id in mapping and isinstance(n.ctx, ast.Load):
                        return ast.copy_location(copy.deepcopy(mapping[n.id]), n)
                    return n

            return [S().visit(s) for s in stmts]

        def expand_block(stmts):
            nonlocal changed
            out = []
            for st in stmts:
                for blk in ("body", "orelse", "finalbody"):
                    sub = getattr(st, blk, None)
                    if isinstance(sub, list) and not isinstance(st, (ast.FunctionDef, ast.ClassDef)):
                        setattr(st, blk, expand_block(sub))
                call = None
                mode = None
                if isinstance(st, ast.Expr) and isinstance(st.value, ast.Call):
                    call, mode = st.value, "expr"
                elif isinstance(st, ast.Assign) and isinstance(st.value, ast.Call):
                    call, mode = st.value, "assign"
                elif isinstance(st, ast.Return) and isinstance(st.value, ast.Call):
                    call, mode = st.value, "return"
                h, is_m = resolve(call) if call is not None else (None, False)
                if h is None:
                    # expression-level: helper whose body is a single `return expr`
                    for node in ast.walk(st):
                        if isinstance(node, ast.Call):
                            h2, m2 = resolve(node)
                            body2 = [s for s in (h2.body if h2 else []) if not (isinstance(s, ast.Expr) and isinstance(s.value, ast.Constant))]
                            if h2 is not None and len(body2) == 1 and isinstance(body2[0], ast.Return) and body2[0].value is not None:
                                mp = bind(h2, node, m2)
                                if mp is not None and any((not _simple_arg(a_)) and sum(1 for x in ast.walk(body2[0]) if isinstance(x, ast.Name) and x.id == p_) > 1 for p_, a_ in mp.items()):
                                    mp = None
                                if mp is not None:
                                    new_expr = subst([ast.Expr(copy.deepcopy(body2[0].value))], mp)[0].value
                                    _replace_node(st, node, new_expr)
                                    changed = True
                    out.append(st)
                    continue
                mp = bind(h, call, is_m)
                if mp is None:
                    out.append(st)
                    continue
                counter[0] += 1
                sfx = "__h%d" % counter[0]
                stored = {n.id for n in ast.walk(h) if isinstance(n, ast.Name) and isinstance(n.ctx, (ast.Store, ast.Del))}
                uses = {}
                for n in ast.walk(h):
                    if isinstance(n, ast.Name) and isinstance(n.ctx, ast.Load):
                        uses[n.id] = uses.get(n.id, 0) + 1
                # parameters the helper re-assigns, and non-trivial arguments used more than once, are bound to a temporary first
                as_locals = {p_ for p_, a_ in mp.items() if p_ in stored or (not _simple_arg(a_) and uses.get(p_, 0) > 1)}
                body, params = _rename_locals(h, sfx, as_locals)
                body = [s for s in body if not (isinstance(s, ast.Expr) and isinstance(s.value, ast.Constant))]
                prelude = [ast.Assign([ast.Name(p_ + sfx, ast.Store())], copy.deepcopy(mp[p_])) for p_ in [x for x in params if x in as_locals]]
                mp = {k: v for k, v in mp.items() if k not in as_locals}
                body = prelude + subst(body, mp)
                rets = [n for s in body for n in ast.walk(s) if isinstance(n, ast.Return)]
                if mode == "return":
                    out.extend(body)
                    changed = True
                elif mode == "expr":
                    if any(r.value is not None and not (isinstance(r.value, ast.Constant) and r.value.value is None) for r in rets) or (rets and not (len(rets) == 1 and body and body[-1] is rets[0])):
                        if rets:
                            out.append(st)
                            continue
                    out.extend([s for s in body if not isinstance(s, ast.Return)])
                    changed = True
                else:  # assign: single trailing return only
                    if len(rets) == 1 and body and body[-1] is rets[0] and rets[0].value is not None:
                        out.extend(body[:-1])
                        out.append(ast.copy_location(ast.Assign(st.targets, rets[0].value), st))
                        changed = True
                    else:
                        conv = _returns_to_assign(body, st.targets)
                        if conv is not None:
                            out.extend(conv)
                            changed = True
                        else:
                            out.append(st)
            return out

        fn.body = expand_block(fn.body) or [ast.Pass()]
    if changed:
        # a new helper all of whose call sites were inlined is dropped, so that per-function rules do not see its body twice
        for q, h in list(new.items()) + list(new_nested.items()):
            nm = q.split(".")[-1]
            refs = sum(1 for n in ast.walk(tree) if (isinstance(n, ast.Attribute) and n.attr == nm) or (isinstance(n, ast.Name) and n.id == nm and isinstance(n.ctx, ast.Load)))
            inside = sum(1 for n in ast.walk(h) if (isinstance(n, ast.Attribute) and n.attr == nm) or (isinstance(n, ast.Name) and n.id == nm and isinstance(n.ctx, ast.Load)))
            if refs - inside == 0:
                for parent in ast.walk(tree):
                    b = getattr(parent, "body", None)
                    if isinstance(b, list) and h in b:
                        b.remove(h)
                        if not b:
                            b.append(ast.Pass())
        ast.fix_missing_locations(tree)
    return changed


def _returns_to_assign(stmts, targets):
    """Body of a helper whose every path ends in `return <expr>` (no return inside loops/try/with) -> the same statements with each
    return replaced by `targets = <expr>`; code following an if that returns on some paths is duplicated into the other paths."""
    def has_ret(node):
        return any(isinstance(n, ast.Return) for n in ast.walk(node))

    def conv(seq):
        out = []
        for i, st in enumerate(seq):
            if isinstance(st, ast.Return):
                if st.value is None:
                    return None
                out.append(ast.Assign(copy.deepcopy(targets), st.value))
                return out
            if isinstance(st, ast.If) and has_ret(st):
                rest = seq[i + 1:]
                a = conv(st.body + copy.deepcopy(rest))
                b = conv(st.orelse + copy.deepcopy(rest))
                if a is None or b is None:
                    return None
                out.append(ast.If(st.test, a, b))
                return out
            if has_ret(st):
                return None
            out.append(st)
        return None  # fell off the end without returning a value

    return conv(list(stmts))


def _replace_stmt(root, old, new):
    for parent in ast.walk(root):
        for field in ("body", "orelse", "finalbody"):
            b = getattr(parent, field, None)
            if isinstance(b, list):
                for i, x in enumerate(b):
                    if x is old:
                        b[i] = new
                        return True
    return False


def _replace_node(root, old, new):
    for parent in ast.walk(root):
        for field, val in ast.iter_fields(parent):
            if val is old:
                setattr(parent, field, new)
                return True
            if isinstance(val, list):
                for i, x in enumerate(val):
                    if x is old:
                        val[i] = new
                        return True
    return False


# ------------------------------------------------------------------------------------------------ (e) calling convention
def signatures(trees):
    """{name: parameter list} for in-package functions, methods (without self) and constructors whose definitions all agree."""
    sigs = {}

    def plist(f, drop_first):
        a = f.args
        if a.vararg is not None or a.posonlyargs:
            return None
        names = [x.arg for x in a.args]
        if drop_first:
            names = names[1:]
        return (tuple(names), tuple(x.arg for x in a.kwonlyargs))

    def visit(node, in_class):
        for st in getattr(node, "body", []):
            if isinstance(st, ast.FunctionDef):
                static = any(ast.unparse(d) == "staticmethod" for d in st.decorator_list)
                prop = any(ast.unparse(d) == "property" or ast.unparse(d).endswith(".setter") for d in st.decorator_list)
                if not prop:
                    sigs.setdefault(st.name, []).append(plist(st, in_class and not static))
            elif isinstance(st, ast.ClassDef):
                init = [x for x in st.body if isinstance(x, ast.FunctionDef) and x.name == "__init__"]
                if init:
                    sigs.setdefault(st.name, []).append(plist(init[0], True))
                else:
                    sigs.setdefault(st.name, []).append(None)
                visit(st, True)

    for t in trees:
        visit(t, False)
    return {k: v[0] for k, v in sigs.items() if v[0] is not None and all(x == v[0] for x in v)}


def _callee_key(call):
    f = call.func
    if isinstance(f, ast.Name):
        return f.id, f.id
    if isinstance(f, ast.Attribute):
        return ast.unparse(f), f.attr
    return None, None


def call_shapes(fn, sigs):
    """[(call node, callee text, n positional, (keyword names))] of calls to in-package callees, in source order."""
    out = []
    for n in ast.walk(fn):
        if isinstance(n, ast.Call):
            text, last = _callee_key(n)
            if text == "super().__init__":
                last = "super().__init__"
            if last in sigs and not any(isinstance(a, ast.Starred) for a in n.args) and all(k.arg for k in n.keywords):
                out.append((n, text, len(n.args), tuple(k.arg for k in n.keywords)))
    out.sort(key=lambda x: (x[0].lineno, x[0].col_offset))
    return out


def _with_super(sigs, tree, q):
    """sigs plus the entry 'super().__init__' = constructor signature of the first base of the class that owns method q."""
    if not sigs or "." not in q:
        return sigs
    cname = q.split(".")[0]
    for n in ast.walk(tree):
        if isinstance(n, ast.ClassDef) and n.name == cname and n.bases:
            b = n.bases[0]
            bn = b.id if isinstance(b, ast.Name) else (b.attr if isinstance(b, ast.Attribute) else None)
            if bn in sigs:
                out = dict(sigs)
                out["super().__init__"] = sigs[bn]
                return out
    return sigs


def restore_call_shapes(fn, frozen_calls, sigs):
    """Re-spell positional/keyword arguments the way the frozen tree spelled them (binding through the callee's signature)."""
    new = call_shapes(fn, sigs)
    by_text_new, by_text_old = {}, {}
    for c in new:
        by_text_new.setdefault(c[1], []).append(c)
    for text, npos, kws in frozen_calls:
        by_text_old.setdefault(text, []).append((npos, tuple(kws)))
    changed = False
    for text, calls in by_text_new.items():
        old = by_text_old.get(text)
        if old is None or len(old) != len(calls):
            continue
        for (node, _, npos, kws), (onpos, okws) in zip(calls, old):
            if (npos, kws) == (onpos, okws):
                continue
            ck = _callee_key(node)
            params, kwonly = sigs["super().__init__" if ck[0] == "super().__init__" else ck[1]]
            if len(node.args) > len(params):
                continue
            bound = {}
            for p_, a in zip(params, node.args):
                bound[p_] = a
            bad = False
            for k in node.keywords:
                if k.arg in bound or k.arg not in params + kwonly:
                    bad = True
                bound[k.arg] = k.value
            if bad or any(p_ not in bound for p_ in params[:onpos]):
                continue
            node.args = [bound[p_] for p_ in params[:onpos]]
            rest = [k for k in okws if k in bound and k not in params[:onpos]]
            rest += [p_ for p_ in params + kwonly if p_ in bound and p_ not in params[:onpos] and p_ not in rest]
            node.keywords = [ast.keyword(arg=k, value=bound[k]) for k in rest]
            changed = True
    if changed:
        ast.fix_missing_locations(fn)
    return changed


def restore_renamed_functions(tree, known, texts):
    """A known module-level function / method that has vanished while exactly one NEW function in the same scope has its body and
    parameters is that function under a new name: the old name is restored at the definition and at every reference in the module.
    Returns [(new name, old name)]."""
    ft = function_table(tree)
    gone = [q for q in known if q not in ft and ".<locals>." not in q and q in texts]
    new = [q for q in ft if q not in known and ".<locals>." not in q]
    out = []
    for q in gone:
        scope = q.rsplit(".", 1)[0] if "." in q else ""
        want = guided.signature(texts[q])
        want_args = texts[q].splitlines()[0].split("(", 1)[1] if "(" in texts[q].splitlines()[0] else None
        cands = []
        for c in new:
            if (c.rsplit(".", 1)[0] if "." in c else "") != scope:
                continue
            txt = guided.signature_text(ft[c])
            # recursion: the candidate calls itself under its new name
            txt_body = txt.replace(c.split(".")[-1] + "(", q.split(".")[-1] + "(")
            args = txt.splitlines()[0].split("(", 1)[1]
            if guided.signature(txt_body) == want and args == want_args:
                cands.append(c)
        if len(cands) != 1:
            continue
        c = cands[0]
        old_nm, new_nm = q.split(".")[-1], c.split(".")[-1]
        if any(isinstance(n, (ast.Name, ast.Attribute)) and (getattr(n, "id", None) == old_nm or getattr(n, "attr", None) == old_nm) for n in ast.walk(tree)):
            continue  # the old name is still used for something else
        ft[c].name = old_nm
        for n in ast.walk(tree):
            if isinstance(n, ast.Name) and n.id == new_nm:
                n.id = old_nm
            elif isinstance(n, ast.Attribute) and n.attr == new_nm and scope:
                n.attr = old_nm
        new.remove(c)
        out.append((c, q))
    return out


def normalise(rel, tree, frozen, pure=frozenset(), sigs=None, multi=frozenset()):
    """In-place normalisation of one module's AST.  Returns a dict describing what was done."""
    info = {"inlined_locals": [], "inlined_helpers": False}
    canon_tree(tree, cython=rel.endswith(".pyx"))
    if frozen is None or rel not in frozen:
        return info
    known = frozen[rel]["functions"]
    texts = frozen[rel].get("text", {})
    ren = restore_renamed_functions(tree, known, texts)
    if ren:
        info["renamed_functions"] = ren
    info["inlined_helpers"] = inline_new_helpers(tree, set(known), rel, multi)
    if info["inlined_helpers"]:
        _Canon().visit(tree)  # e.g. f(**helper(...)) became f(**dict(k=v, ...))
        ast.fix_missing_locations(tree)

    def guided_pass(tag):
        ft_ = function_table(tree)
        # innermost first, so that an enclosing function sees its nested functions already restored
        for q in sorted(ft_, key=lambda x: -x.count(".<locals>.")):
            fn_ = ft_[q]
            if q not in texts or q not in known:
                continue
            new_fn, applied = guided.search(fn_, texts[q], known[q])
            if new_fn is not None:
                _replace_stmt(tree, fn_, new_fn)
                info.setdefault("guided", []).append("%s[%s]: %s" % (q, tag, ", ".join(applied)))

    guided_pass("a")
    ft = function_table(tree)
    for q, fn in ft.items():
        if q in known and drop_dead_new_locals(fn, set(known[q])):
            info.setdefault("dead_locals", []).append(q)
    inl = False
    for q, fn in ft.items():
        k = set(known.get(q, [])) if q in known else None
        if k is None:
            continue
        split_new_tuple_assigns(fn, k)
        sunk = sink_uses_of_new_locals(fn, k)
        if inline_new_locals(fn, k, pure) or sunk:
            info["inlined_locals"].append(q)
            inl = True
            _Canon().visit(fn)  # e.g. f(**{"k": v}) left behind by an inlined keyword dict
            ast.fix_missing_locations(fn)
    if inl:
        guided_pass("b")
        for q, fn in function_table(tree).items():
            if q in known and drop_dead_new_locals(fn, set(known[q])):
                info.setdefault("dead_locals", []).append(q)
    ft = function_table(tree)
    for q, fn in ft.items():
        if q not in known:
            continue
        fc = frozen[rel].get("calls", {}).get(q)
        sg = _with_super(sigs, tree, q)
        if fc is not None and sg and restore_call_shapes(fn, fc, sg):
            info.setdefault("restored_calls", []).append(q)
    return info
