"""Run every claimed check on in-memory patched trees.  python3 -m sa.trydiff <diff>... [--props C05,C07]
Prints, per diff, the violation keys that are new relative to the unpatched tree and any analysis error."""
import json
import multiprocessing as mp
import os
import sys

from . import core
from .loader import AnalysisError, Program

REPO = os.environ.get("VERIF_REPO", "/repo")


def _one(args):
    prop, patch, base = args
    from .check import run_rules
    from .selftest import _apply, _keys

    try:
        if patch is None:
            prog = Program(REPO)
        else:
            ov = _apply(REPO, dict(patch=patch))
            if ov is None:
                return prop, patch, "ERR", ["patch does not apply"]
            prog = Program(REPO, overrides=ov)
        ctx, _ = run_rules(prop, prog, "quick")
    except AnalysisError as e:
        return prop, patch, "ERR", [str(e)[:200]]
    except Exception as e:
        return prop, patch, "ERR", ["%s: %s" % (type(e).__name__, str(e)[:200])]
    keys = _keys(ctx)
    und = sorted("%s %s %s" % (r.get("rule"), r.get("site"), (r.get("detail") or "")[:80] if r.get("rule") == "ANCHOR" else "") for r in ctx.records if r["status"] == "undecided")
    ff = ["floor %s %s measured=%s<%s" % (f[0], f[1], f[2], f[3]) for f in ctx.floors if f[2] < f[3]]
    if patch is None:
        return prop, patch, "BASE", sorted(keys)
    new = sorted(keys - set(base[prop]))
    return prop, patch, "OK", new + ["UNDECIDED " + u for u in und] + ff


def main():
    argv = sys.argv[1:]
    props = None
    if "--props" in argv:
        i = argv.index("--props")
        props = argv[i + 1].split(",")
        del argv[i:i + 2]
    man = json.load(open(os.path.join(core.VERIF, "MANIFEST.json")))
    props = props or [c["property_id"] for c in man["checks"]]
    with mp.get_context("fork").Pool(16) as pool:
        base = {p: k for p, _, _, k in pool.map(_one, [(p, None, None) for p in props])}
        res = pool.map(_one, [(p, d, base) for d in argv for p in props])
    bad = 0
    for d in argv:
        lines = []
        for p, pd, st, items in res:
            if pd != d or not items:
                continue
            for it in items:
                lines.append("  %s %s %s" % (p, st, it))
        print("== %s: %s" % (os.path.basename(d), "silent" if not lines else "%d reports" % len(lines)))
        for l in lines[:12]:
            print(l[:250])
        bad += bool(lines)
    print("TOTAL noisy: %d of %d" % (bad, len(argv)))


if __name__ == "__main__":
    main()
