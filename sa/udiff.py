"""Minimal unified-diff applier (exact context) used to run seeded patches in memory."""
import re


class PatchError(Exception):
    pass


def parse(diff_text):
    """-> {relpath (under src/gstools/): [hunks]} ; hunk = (old_start, [(tag, line)])"""
    files = {}
    cur = None
    hunk = None
    for line in diff_text.split("\n"):
        if line.startswith("diff --git"):
            cur = None
            hunk = None
        elif line.startswith("+++ "):
            path = line[4:].strip()
            if path.startswith("b/"):
                path = path[2:]
            if path.startswith("src/gstools/"):
                cur = path[len("src/gstools/"):]
                files[cur] = []
            else:
                cur = None
        elif line.startswith("--- "):
            continue
        elif line.startswith("@@") and cur is not None:
            m = re.match(r"@@ -(\d+)(?:,(\d+))? \+(\d+)(?:,(\d+))? @@", line)
            if not m:
                raise PatchError("bad hunk header: %s" % line)
            hunk = (int(m.group(1)), [])
            files[cur].append(hunk)
        elif hunk is not None and cur is not None and line[:1] in (" ", "+", "-"):
            hunk[1].append((line[0], line[1:]))
        elif hunk is not None and line == "":
            # blank context line with stripped trailing space
            hunk[1].append((" ", ""))
    return files


def apply(text, hunks):
    lines = text.split("\n")
    out = []
    pos = 0
    for start, body in hunks:
        old = [l for t, l in body if t in (" ", "-")]
        # strip trailing pseudo-context produced by the final newline of the diff text
        while old and old[-1] == "" and body[-1] == (" ", ""):
            body = body[:-1]
            old = [l for t, l in body if t in (" ", "-")]
        idx = None
        guess = start - 1
        for off in range(0, len(lines)):
            for cand in (guess + off, guess - off):
                if 0 <= cand <= len(lines) - len(old) and lines[cand:cand + len(old)] == old:
                    idx = cand
                    break
            if idx is not None:
                break
        if idx is None or idx < pos:
            raise PatchError("hunk at line %d does not apply" % start)
        out += lines[pos:idx]
        out += [l for t, l in body if t in (" ", "+")]
        pos = idx + len(old)
    out += lines[pos:]
    return "\n".join(out)
