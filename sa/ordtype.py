"""E5 ORD: path conditions and their evaluation over order types.

A guard that touches a value only through comparisons against n thresholds cannot distinguish more than
2n+1 order types of that value (below t0, equal t0, between, ... above t_{n-1}).  The guard is evaluated
for each order type (thresholds are assumed strictly increasing) and the truth table is compared with the
documented interval.  Exhaustive, no solver.
"""
import ast

from .loader import AnalysisError

JUMPS = (ast.Continue, ast.Break, ast.Return, ast.Raise)


def ends_with_jump(body):
    return bool(body) and isinstance(body[-1], JUMPS)


def path_condition(fn, target):
    """Conjuncts [(test_expr, polarity)] under which statement `target` is reached inside fn.

    Collected syntactically: enclosing if/elif/else tests and preceding `if c: <jump>` siblings.
    Loop and try structure contribute nothing (conservative: fewer conjuncts).
    """
    found = []

    def rec(stmts, conds):
        local = list(conds)
        for st in stmts:
            if st is target:
                found.append(list(local))
                return True
            if isinstance(st, ast.If):
                if rec(st.body, local + [(st.test, True)]):
                    return True
                if rec(st.orelse, local + [(st.test, False)]):
                    return True
                if ends_with_jump(st.body) and not st.orelse:
                    local.append((st.test, False))
                elif st.orelse and ends_with_jump(st.orelse) and not ends_with_jump(st.body):
                    local.append((st.test, True))
            elif isinstance(st, (ast.For, ast.While)):
                if rec(st.body, local):
                    return True
                if rec(st.orelse, local):
                    return True
            elif isinstance(st, ast.With):
                if rec(st.body, local):
                    return True
            elif isinstance(st, ast.Try):
                for blk in [st.body, st.orelse, st.finalbody] + [h.body for h in st.handlers]:
                    if rec(blk, local):
                        return True
            elif isinstance(st, (ast.FunctionDef, ast.ClassDef)):
                pass
            # the target may be nested inside an expression statement (e.g. a Call node)
            elif target is not st and any(n is target for n in ast.walk(st)):
                found.append(list(local))
                return True
        return False

    rec(fn.body, [])
    if not found:
        raise AnalysisError("path_condition: target statement not found in %s" % getattr(fn, "name", "?"))
    return found[0]


class NotOrd(Exception):
    pass


def _val(e, x_text, thr_texts, xval):
    t = ast.unparse(e)
    if t == x_text:
        return xval
    if t in thr_texts:
        return 2 * thr_texts.index(t) + 1
    raise NotOrd(t)


def eval_ord(e, x_text, thr_texts, xval):
    """Evaluate boolean guard e with x at order position xval (0..2n); thresholds at 1,3,5,..."""
    if isinstance(e, ast.BoolOp):
        vals = [eval_ord(v, x_text, thr_texts, xval) for v in e.values]
        return all(vals) if isinstance(e.op, ast.And) else any(vals)
    if isinstance(e, ast.UnaryOp) and isinstance(e.op, ast.Not):
        return not eval_ord(e.operand, x_text, thr_texts, xval)
    if isinstance(e, ast.UnaryOp) and isinstance(e.op, ast.Invert):
        return not eval_ord(e.operand, x_text, thr_texts, xval)
    if isinstance(e, ast.BinOp) and isinstance(e.op, (ast.BitAnd, ast.BitOr)):
        a, b = eval_ord(e.left, x_text, thr_texts, xval), eval_ord(e.right, x_text, thr_texts, xval)
        return (a and b) if isinstance(e.op, ast.BitAnd) else (a or b)
    if isinstance(e, ast.Call):
        fn = ast.unparse(e.func)
        if fn in ("np.logical_and", "np.logical_or") and len(e.args) == 2:
            a, b = (eval_ord(v, x_text, thr_texts, xval) for v in e.args)
            return (a and b) if fn.endswith("and") else (a or b)
        if fn in ("np.logical_not", "np.invert") and len(e.args) == 1:
            return not eval_ord(e.args[0], x_text, thr_texts, xval)
        if fn in ("np.any", "np.all", "bool") and len(e.args) == 1:
            return eval_ord(e.args[0], x_text, thr_texts, xval)
        raise NotOrd(fn)
    if isinstance(e, ast.Compare):
        left = _val(e.left, x_text, thr_texts, xval)
        res = True
        for op, comp in zip(e.ops, e.comparators):
            right = _val(comp, x_text, thr_texts, xval)
            if isinstance(op, ast.Lt):
                r = left < right
            elif isinstance(op, ast.LtE):
                r = left <= right
            elif isinstance(op, ast.Gt):
                r = left > right
            elif isinstance(op, ast.GtE):
                r = left >= right
            elif isinstance(op, ast.Eq):
                r = left == right
            elif isinstance(op, ast.NotEq):
                r = left != right
            else:
                raise NotOrd(type(op).__name__)
            res = res and r
            left = right
        return res
    raise NotOrd(ast.unparse(e))


def truth_table(conjuncts, x_text, thr_texts):
    """conjuncts: [(expr, polarity)] all of which must be order guards on x. Returns e.g. 'FTTFF'."""
    out = []
    for xv in range(2 * len(thr_texts) + 1):
        ok = True
        for e, pol in conjuncts:
            v = eval_ord(e, x_text, thr_texts, xv)
            ok = ok and (v if pol else not v)
        out.append("T" if ok else "F")
    return "".join(out)


def mentions(e, text):
    return any(ast.unparse(n) == text for n in ast.walk(e) if isinstance(n, (ast.Name, ast.Subscript, ast.Attribute)))


def interval_table(kind, n=2):
    """Expected truth table of an interval over 2 thresholds: 'co' = [lo, hi), 'oo', 'cc', 'oc'."""
    lo_c, hi_c = kind[0] == "c", kind[1] == "c"
    return "".join("T" if v else "F" for v in (False, lo_c, True, hi_c, False))


def eval_bool(e, atoms):
    """Evaluate a boolean expression whose leaves are the given atoms (dict: unparsed text -> bool)."""
    t = ast.unparse(e)
    if t in atoms:
        return atoms[t]
    if isinstance(e, ast.BoolOp):
        vals = [eval_bool(v, atoms) for v in e.values]
        return all(vals) if isinstance(e.op, ast.And) else any(vals)
    if isinstance(e, ast.UnaryOp) and isinstance(e.op, (ast.Not, ast.Invert)):
        return not eval_bool(e.operand, atoms)
    if isinstance(e, ast.BinOp) and isinstance(e.op, (ast.BitAnd, ast.BitOr)):
        a, b = eval_bool(e.left, atoms), eval_bool(e.right, atoms)
        return (a and b) if isinstance(e.op, ast.BitAnd) else (a or b)
    if isinstance(e, ast.Call):
        fn = ast.unparse(e.func)
        if fn in ("np.logical_and", "np.logical_or") and len(e.args) == 2:
            a, b = (eval_bool(v, atoms) for v in e.args)
            return (a and b) if fn.endswith("and") else (a or b)
        if fn in ("np.logical_not", "np.invert") and len(e.args) == 1:
            return not eval_bool(e.args[0], atoms)
    raise NotOrd(t)


def conj_table(conjuncts, atom_texts):
    """Truth table of a conjunction of (expr, polarity) over all assignments of the atoms (lexicographic, F first)."""
    import itertools

    rows = []
    for bits in itertools.product([False, True], repeat=len(atom_texts)):
        atoms = dict(zip(atom_texts, bits))
        ok = True
        for e, pol in conjuncts:
            v = eval_bool(e, atoms)
            ok = ok and (v if pol else not v)
        rows.append("T" if ok else "F")
    return "".join(rows)
