"""C13 Geographic and spatio-temporal consistency: geo_scale reaches every conversion, pair agreement, forcing sites."""
import ast
import math

from ..loader import AnalysisError, norm_stmt
from ..small import FoldError, cond_defaults, fold
from .C16 import signed_factors

GEO = "tools/geometric.py"
BASE = "covmodel/base.py"
TOOLS = "covmodel/tools.py"
SPHERE_FUNCS = {"latlon2pos": 1, "pos2latlon": 1, "great_circle_to_chordal": 1, "chordal_to_great_circle": 1}  # position of `radius`
RADIUS_OK = {"self.geo_scale", "model.geo_scale", "geo_scale"}


def radius_sites(ctx, rule="R13.1"):
    prog = ctx.prog
    n = 0
    for m, q, f, ci, kind in prog.all_functions():
        if kind == "nested" or m.relpath.endswith("plot.py"):
            continue
        for node in ast.walk(f):
            if isinstance(node, ast.Call) and isinstance(node.func, ast.Name) and node.func.id in SPHERE_FUNCS and f.name not in SPHERE_FUNCS:
                n += 1
                kw = {k.arg: k.value for k in node.keywords}
                pos = SPHERE_FUNCS[node.func.id]
                r = kw.get("radius") or (node.args[pos] if len(node.args) > pos else None)
                txt = ast.unparse(r) if r is not None else "<default 1.0>"
                ctx.check(txt in RADIUS_OK, rule, "%s::%s" % (m.relpath, q), "%s is called with the caller's geo_scale as sphere radius (got %s)" % (node.func.id, txt), "%s:%s" % (node.func.id, txt))
    ctx.floor(rule, "sphere-conversion call sites", n, 8)
    # geo_scale plumbing into vario_estimate / standard_bins
    ve = prog.func("variogram/variogram.py", "vario_estimate")
    sb = [n_ for n_ in ast.walk(ve) if isinstance(n_, ast.Call) and getattr(n_.func, "id", "") == "standard_bins"]
    ok = len(sb) == 1 and {k.arg: ast.unparse(k.value) for k in sb[0].keywords if k.arg}.get("geo_scale") == "geo_scale" and [ast.unparse(a) for a in sb[0].args] == ["pos", "dim", "latlon"]
    ctx.check(ok, rule, "variogram/variogram.py::vario_estimate", "standard_bins receives (pos, dim, latlon) and the same geo_scale", "std-bins")
    sc = prog.func("krige/base.py", "Krige.set_condition")
    vcalls = [n_ for n_ in ast.walk(sc) if isinstance(n_, ast.Call) and getattr(n_.func, "id", "") == "vario_estimate"]
    iso_call = [c for c in vcalls if "direction" not in [k.arg for k in c.keywords]]
    ok = len(iso_call) == 1 and {k.arg: ast.unparse(k.value) for k in iso_call[0].keywords} == {"latlon": "self.model.latlon", "geo_scale": "self.model.geo_scale"}
    ctx.check(ok, rule, "krige/base.py::Krige.set_condition", "variogram estimation for fitting receives the model's latlon flag and geo_scale", "krige-fit")
    # geo_scale is stored as a positive number
    init = prog.func(BASE, "CovModel.__init__")
    ok = any(norm_stmt(s) == "self._geo_scale = abs(float(geo_scale))" for s in init.body)
    ctx.check(ok, rule, BASE + "::CovModel.__init__", "geo_scale is stored as |float|", "geo-scale-store")


def pair_agreement(ctx, rule="R13.2"):
    prog = ctx.prog
    cm = prog.cls(BASE, "CovModel")

    def latlon_call(fn, name):
        calls = [n for n in ast.walk(fn) if isinstance(n, ast.Call) and getattr(n.func, "id", "") == name]
        if len(calls) != 1:
            raise AnalysisError("anchor vanished: %s call in %s" % (name, fn.name))
        return [ast.unparse(a) for a in calls[0].args], {k.arg: ast.unparse(k.value) for k in calls[0].keywords}

    a1, k1 = latlon_call(cm.methods["isometrize"], "latlon2pos")
    a2, k2 = latlon_call(cm.methods["anisometrize"], "pos2latlon")
    want = {"radius": "self.geo_scale", "temporal": "self.temporal", "time_scale": "self.anis[-1]"}
    ctx.check(k1 == k2 == want and a1 == a2 == ["pos"], rule, BASE + "::CovModel.isometrize/anisometrize",
              "forward and inverse lat-lon conversion receive identical (radius=geo_scale, temporal, time_scale = LAST anisotropy ratio): %s / %s" % (k1, k2), "kwargs")
    l2p = prog.func(GEO, "latlon2pos")
    p2l = prog.func(GEO, "pos2latlon")
    sig1 = [(a.arg) for a in l2p.args.args][1:]
    sig2 = [(a.arg) for a in p2l.args.args][1:]
    d1 = [ast.unparse(d) for d in l2p.args.defaults]
    d2 = [ast.unparse(d) for d in p2l.args.defaults]
    ctx.check(sig1 == sig2 == ["radius", "dtype", "temporal", "time_scale"] and d1 == d2, rule, GEO + "::latlon2pos/pos2latlon", "identical keyword sets and defaults", "signatures")
    # time axis: divided going in, multiplied coming back; appended last
    t_in = [n for n in ast.walk(l2p) if isinstance(n, ast.BinOp) and isinstance(n.op, ast.Div) and ast.unparse(n.right) == "time_scale"]
    t_out = [n for n in ast.walk(p2l) if isinstance(n, ast.BinOp) and isinstance(n.op, ast.Mult) and "time_scale" in (ast.unparse(n.left), ast.unparse(n.right))]
    ok = len(t_in) == 1 and ast.unparse(t_in[0].left) == "latlon[2]" and len(t_out) == 1 and "pos[3]" in (ast.unparse(t_out[0].left), ast.unparse(t_out[0].right))
    ctx.check(ok, rule, GEO + "::latlon2pos/pos2latlon", "time (3rd input row / 4th output row) is divided by time_scale going in and multiplied coming back", "time-scale")
    # the returned array as a decision table over `temporal`, locals followed: rows of the array in both cases
    from ..small import UnrollError, return_cases

    def tuple_elts(e):
        if isinstance(e, ast.Tuple):
            return list(e.elts)
        if isinstance(e, ast.BinOp) and isinstance(e.op, ast.Add):
            a, b = tuple_elts(e.left), tuple_elts(e.right)
            return None if a is None or b is None else a + b
        return None

    rows = {}
    try:
        for conds, txt in return_cases(l2p, opaque=("latlon",)):
            e = ast.parse(txt, mode="eval").body
            if isinstance(e, ast.Call) and ast.unparse(e.func) in ("np.array", "np.asarray") and e.args:
                rows[tuple(sorted(conds))] = tuple_elts(e.args[0])
    except UnrollError:
        rows = {}
    r_t, r_s = rows.get(("temporal",)), rows.get(("not temporal",))
    ok = r_t is not None and r_s is not None and len(r_t) == 4 and len(r_s) == 3 and [ast.unparse(x) for x in r_t[:3]] == [ast.unparse(x) for x in r_s] and ast.unparse(r_t[3]) == "latlon[2] / time_scale"
    ctx.check(ok, rule, GEO + "::latlon2pos", "the time axis is appended after the three spatial axes (never mixed into space)", "time-last")
    r1 = [n for n in ast.walk(l2p) if isinstance(n, ast.Call) and ast.unparse(n.func).endswith("reshape")]
    r2 = [n for n in ast.walk(p2l) if isinstance(n, ast.Call) and ast.unparse(n.func).endswith("reshape")]
    ok = len(r1) == 1 and len(r2) == 1 and ast.unparse(r1[0].args[0]) == "(3 if temporal else 2, -1)" and ast.unparse(r2[0].args[0]) == "(4 if temporal else 3, -1)"
    ctx.check(ok, rule, GEO + "::latlon2pos/pos2latlon", "(lat, lon[, t]) <-> (x, y, z[, t]) row counts agree", "rows")
    # spherical coordinates: x = R cos(lat) cos(lon), y = R cos(lat) sin(lon), z = R sin(lat); lat = arcsin(z/R), lon = arctan2(y, x)
    ok = False
    if r_s is not None and len(r_s) == 3:
        f = [signed_factors(e) for e in r_s]
        lat, lon = "np.deg2rad(latlon[:2])[0]", "np.deg2rad(latlon[:2])[1]"
        ok = (f[0] == (1, sorted(["radius", "np.cos(lat)", "np.cos(lon)"]), []) and f[1] == (1, sorted(["radius", "np.cos(lat)", "np.sin(lon)"]), [])
              and f[2][0] == 1 and "radius" in f[2][1] and "np.sin(lat)" in f[2][1])
        del lat, lon
    ctx.check(ok, rule, GEO + "::latlon2pos", "(x, y, z) = R (cos lat cos lon, cos lat sin lon, sin lat)", "sphere-forward")
    txt = ast.unparse(p2l)
    ok = "pos[2] / radius" in txt and "np.arcsin(" in txt and "np.arctan2(pos[1], pos[0])" in txt
    ctx.check(ok, rule, GEO + "::pos2latlon", "lat = arcsin(z / R), lon = atan2(y, x): the inverse of the forward map", "sphere-inverse")
    ok = "np.deg2rad(latlon[:2])" in ast.unparse(l2p) and "np.rad2deg((lat, lon)" in txt
    ctx.check(ok, rule, GEO + "::latlon2pos/pos2latlon", "degrees in, degrees out", "degrees")
    # chordal <-> great circle
    g2c = prog.func(GEO, "great_circle_to_chordal")
    c2g = prog.func(GEO, "chordal_to_great_circle")
    d1 = [norm_stmt(s) for s in g2c.body if isinstance(s, ast.Assign)]
    d2 = [norm_stmt(s) for s in c2g.body if isinstance(s, ast.Assign)]
    f1 = {ast.unparse(n.func) for n in ast.walk(g2c) if isinstance(n, ast.Call)} & {"np.sin", "np.arcsin"}
    f2 = {ast.unparse(n.func) for n in ast.walk(c2g) if isinstance(n, ast.Call)} & {"np.sin", "np.arcsin"}
    ok = d1 == d2 == ["diameter = 2 * radius"] and f1 == {"np.sin"} and f2 == {"np.arcsin"}
    # the two conversions composed, as formulas (E11 DIFF): chord(great_circle(c)) = c and great_circle(chord(d)) = d inside [0, 2 r] / [0, pi r]
    from .. import diffalg as DA
    from ..small import UnrollError, return_cases

    try:
        t_g2c = [t for c_, t in return_cases(g2c, opaque=("dist",))]
        t_c2g = [t for c_, t in return_cases(c2g, opaque=("dist",))]
        DA.set_domain(0, None)
        a_ = DA.from_ast(ast.parse(t_g2c[0], mode="eval").body, {"dist"}, 1, subst={"radius": DA.sym("l")})
        b_ = DA.from_ast(ast.parse(t_c2g[0], mode="eval").body, {"dist"}, 1, subst={"radius": DA.sym("l")})
        comp1 = DA.canon(DA.substitute(a_, "x", b_))
        comp2 = DA.canon(DA.substitute(b_, "x", a_))
        ok_comp = len(t_g2c) == 1 and len(t_c2g) == 1 and DA.same(comp1, DA.canon(DA.sym("x"))) and DA.same(comp2, DA.canon(DA.sym("x")))
        detail = "%s ; %s" % (DA.vtext(comp1), DA.vtext(comp2))
    except (UnrollError, DA.DiffError, IndexError) as e:
        ok_comp, detail = False, "not in the formula algebra: %s" % e
    ctx.check(ok_comp, rule, GEO + "::great_circle_to_chordal/chordal_to_great_circle", "the two conversions are inverse to each other as formulas: %s" % detail, "chord-inverse")
    r1 = [s.value for s in g2c.body if isinstance(s, ast.Return)]
    r2 = [s.value for s in c2g.body if isinstance(s, ast.Return)]
    ok = ok and len(r1) == 1 and len(r2) == 1 and signed_factors(r1[0])[1][0] == "diameter" and signed_factors(r2[0])[1][0] == "diameter"
    ok = ok and "dist / diameter" in ast.unparse(r1[0]) and "dist / diameter" in ast.unparse(r2[0])
    ctx.check(ok, rule, GEO + "::great_circle_to_chordal/chordal_to_great_circle", "D sin(d / D) and D arcsin(d / D) with the same diameter D = 2 radius: mutually inverse", "chordal-pair")

    # domains: great-circle distances reach pi * radius, i.e. d / D reaches pi / 2 > 1: the sine's argument must not be clamped below that;
    # chords reach D, the arcsine's argument may only be clamped to [0, 1] (its whole domain)
    def clamps(e):
        """strip np.minimum(x, c) / np.maximum(x, c) / np.clip(x, a, b) wrappers: (core expression, [(kind, bound)])"""
        out = []
        while isinstance(e, ast.Call) and ast.unparse(e.func) in ("np.minimum", "np.maximum", "np.clip", "np.fmin", "np.fmax", "min", "max"):
            fn_ = ast.unparse(e.func)
            if fn_ == "np.clip" and len(e.args) == 3:
                out += [("max", e.args[1]), ("min", e.args[2])]
                e = e.args[0]
                continue
            if len(e.args) != 2:
                break
            a, b = e.args
            const, core = (b, a) if isinstance(b, (ast.Constant, ast.UnaryOp, ast.BinOp, ast.Attribute)) and not isinstance(a, ast.Constant) else (a, b)
            out.append(("min" if "min" in fn_ else "max", const))
            e = core
        return e, out

    def trig_arg(ret, fname):
        calls = [n for n in ast.walk(ret) if isinstance(n, ast.Call) and ast.unparse(n.func) == fname]
        return calls[0].args[0] if len(calls) == 1 and len(calls[0].args) == 1 else None

    if len(r1) == 1 and len(r2) == 1:
        a1, a2 = trig_arg(r1[0], "np.sin"), trig_arg(r2[0], "np.arcsin")
        if a1 is not None and a2 is not None:
            core1, cl1 = clamps(a1)
            core2, cl2 = clamps(a2)
            bad = []
            for kind, c in cl1:
                try:
                    v = fold(c, {})
                except FoldError:
                    bad.append("%s(%s): not a constant" % (kind, ast.unparse(c)))
                    continue
                if (kind == "min" and v < math.pi / 2) or (kind == "max" and v > 0):
                    bad.append("%s(..., %s)" % (kind, ast.unparse(c)))
            ctx.check(ast.unparse(core1) == "dist / diameter" and not bad, rule, GEO + "::great_circle_to_chordal",
                      "the sine takes d / D on the whole range [0, pi/2] of great-circle distances (clamps found: %s)" % (bad or "none"), "sine-domain")
            bad2 = []
            for kind, c in cl2:
                try:
                    v = fold(c, {})
                except FoldError:
                    bad2.append("%s(%s): not a constant" % (kind, ast.unparse(c)))
                    continue
                if (kind == "min" and v < 1) or (kind == "max" and v > 0):
                    bad2.append("%s(..., %s)" % (kind, ast.unparse(c)))
            ctx.check(ast.unparse(core2) == "dist / diameter" and not bad2, rule, GEO + "::chordal_to_great_circle",
                      "the arcsine takes d / D, clamped at most to its domain [0, 1] (clamps narrower than that: %s)" % (bad2 or "none"), "arcsine-domain")


YADRENKO = ("vario_yadrenko", "cov_yadrenko", "cor_yadrenko")


def single_conversion(ctx, rule="R13.3"):
    """Great-circle lags are turned into chords exactly once on the way to the isotropic model functions: either by an explicit
    great_circle_to_chordal (fitting) or inside a *_yadrenko method - never both."""
    prog = ctx.prog
    m = prog.mod("covmodel/fit.py")
    conv = [n for n in ast.walk(m.tree) if isinstance(n, ast.Call) and getattr(n.func, "id", "") == "great_circle_to_chordal"]
    yad = [n for n in ast.walk(m.tree) if isinstance(n, ast.Call) and isinstance(n.func, ast.Attribute) and n.func.attr in YADRENKO]
    ctx.check(len(conv) == 1, rule, "covmodel/fit.py", "the fitting module converts lags to chords at exactly one place (%d found)" % len(conv), "fit-one-conversion")
    for n in yad:
        ctx.violation(rule, "covmodel/fit.py", "`%s` is evaluated on lags that fitting has already converted to chords (the *_yadrenko methods expect great-circle lags and convert again)"
                      % " ".join(ast.unparse(n).split())[:80], "double-conversion:" + n.func.attr)
    if not yad:
        ctx.ok(rule, "covmodel/fit.py", "the residual/score functions evaluate chord-based model functions only (no *_yadrenko call on converted lags)")
    # inside the model class every *_yadrenko method converts once and calls the chord-based sibling; nothing else converts
    n_sites = 0
    for mm, q, f, ci, kind in prog.all_functions():
        if mm.relpath.endswith("plot.py") or mm.pyx is not None:
            continue
        for node in ast.walk(f):
            if isinstance(node, ast.Call) and isinstance(node.func, ast.Attribute) and node.func.attr in YADRENKO:
                n_sites += 1
                arg = node.args[0] if node.args else None
                inner = [c for c in ast.walk(arg) if isinstance(c, ast.Call) and getattr(c.func, "id", "") == "great_circle_to_chordal"] if arg is not None else []
                ctx.check(not inner, rule, "%s::%s" % (mm.relpath, q), "%s receives a great-circle lag (no chord conversion in its argument)" % node.func.attr, "yad-arg:" + node.func.attr)
    ctx.floor(rule, "*_yadrenko call sites outside plotting", n_sites, 1)


def forcing_sites(ctx, rule="R13.3"):
    prog = ctx.prog
    sd = prog.func(TOOLS, "set_dim")
    forced = [(t, ast.unparse(v)) for t, v in cond_defaults(sd.body, "dim")]
    ctx.check(("model.latlon", "3 + int(model.temporal)") in forced, rule, TOOLS + "::set_dim", "lat-lon models get dim 3 (+1 with time)", "dim")
    sl = prog.func(TOOLS, "set_len_anis")
    ifs = [s for s in sl.body if isinstance(s, ast.If) and ast.unparse(s.test) == "latlon"]
    ok = len(ifs) == 1 and [norm_stmt(x) for x in ifs[0].body] == ["out_anis[:2] = 1.0"]
    ctx.check(ok, rule, TOOLS + "::set_len_anis", "lat-lon: exactly the two spatial ratios are forced to 1, the time ratio is kept", "anis")
    sm = prog.func(TOOLS, "set_model_angles")
    first = sm.body[-4] if len(sm.body) >= 4 else None
    body = [s for s in sm.body if not (isinstance(s, ast.Expr) and isinstance(s.value, ast.Constant))]
    ok = (len(body) == 4 and isinstance(body[0], ast.If) and ast.unparse(body[0].test) == "latlon" and norm_stmt(body[0].body[0]) == "return np.zeros(no_of_angles(dim), dtype=np.double)"
          and norm_stmt(body[1]) == "out_angles = set_angles(dim, angles)" and isinstance(body[2], ast.If) and ast.unparse(body[2].test) == "temporal"
          and [norm_stmt(x) for x in body[2].body] == ["out_angles[no_of_angles(dim - 1):] = 0.0"] and norm_stmt(body[3]) == "return out_angles")
    ctx.check(ok, rule, TOOLS + "::set_model_angles", "lat-lon: no rotation at all; temporal: exactly the angles involving the time axis (beyond no_of_angles(dim-1)) are zeroed", "angles")
    del first
    cv = prog.func("covmodel/fit.py", "_check_vario")
    ifs = {ast.unparse(s.test): s for s in cv.body if isinstance(s, ast.If)}
    ok = "model.latlon" in ifs and [norm_stmt(x) for x in ifs["model.latlon"].body] == ["x_data = great_circle_to_chordal(x_data, model.geo_scale)"]
    ctx.check(ok, rule, "covmodel/fit.py::_check_vario", "fitting converts great-circle lags to chordal lags iff the model is lat-lon", "fit-chordal")
    single_conversion(ctx, rule)
    ok = "is_dir_vario and model.latlon" in ifs and any(isinstance(x, ast.Raise) for x in ifs["is_dir_vario and model.latlon"].body)
    ctx.check(ok, rule, "covmodel/fit.py::_check_vario", "anisotropy fitting is refused for lat-lon models", "fit-no-anis")
    ve = prog.func("variogram/variogram.py", "vario_estimate")
    ok = any(isinstance(s, ast.If) and ast.unparse(s.test) == "latlon" and any(isinstance(x, ast.Raise) for x in s.body) for s in ast.walk(ve))
    ctx.check(ok, rule, "variogram/variogram.py::vario_estimate", "directional estimation is refused for lat-lon input", "no-directional")
    ok = any(isinstance(s, ast.If) and ast.unparse(s.test) == "latlon and dim != 2" and any(isinstance(x, ast.Raise) for x in s.body) for s in ve.body)
    ctx.check(ok, rule, "variogram/variogram.py::vario_estimate", "lat-lon input must be 2-D", "dim2")
    div = [s for s in ve.body if isinstance(s, ast.If) and ast.unparse(s.test) == "latlon" and any("geo_scale" in ast.unparse(x) for x in s.body)]
    ok = len(div) == 1 and [norm_stmt(x) for x in div[0].body] in (["bin_edges = bin_edges / geo_scale"], ["bin_edges /= geo_scale"])
    ctx.check(ok, rule, "variogram/variogram.py::vario_estimate", "bin edges are converted to radians (divided by geo_scale) iff lat-lon; the kernel's haversine works on the unit sphere", "bins-radian")
    inplace = len(div) == 1 and any(isinstance(x, ast.AugAssign) for x in div[0].body)
    ctx.check(not inplace, rule, "variogram/variogram.py::vario_estimate", "the conversion builds a new array: converting the caller's edges in place would convert them a second time when the same array "
              "is passed again (np.asarray does not copy a float64 array)", "bins-radian-once")
    # bin centres stay in user units: computed before the division
    idx = {i: norm_stmt(s) for i, s in enumerate(ve.body)}
    i_div = [i for i, s in enumerate(ve.body) if s in div]
    i_cent = [i for i, s in enumerate(ve.body) if "bin_centers = (bin_edges[:-1] + bin_edges[1:]) / 2.0" in norm_stmt(s)]
    ctx.check(bool(i_div) and bool(i_cent) and max(i_cent) < i_div[0], rule, "variogram/variogram.py::vario_estimate", "bin centres (returned to the user) are computed before the conversion to radians", "centres-first")
    del idx
    sb = prog.func("variogram/binning.py", "standard_bins")
    def conv_iff_latlon(var, func):
        for blk in ast.walk(sb):
            if isinstance(getattr(blk, "body", None), list):
                for t, v in cond_defaults(blk.body, var):
                    if t == "latlon" and isinstance(v, ast.Call) and getattr(v.func, "id", "") == func and v.args and ast.unparse(v.args[0]) == var:
                        return True
        return False

    txt = [norm_stmt(s) for s in ast.walk(sb) if isinstance(s, ast.Assign)]
    ok = conv_iff_latlon("pos", "latlon2pos") and conv_iff_latlon("diam", "chordal_to_great_circle") and "dim = 2 if latlon else int(dim)" in txt
    ctx.check(ok, rule, "variogram/binning.py::standard_bins", "default bins: bounding-box diameter on the sphere of radius geo_scale, converted back to a great-circle distance", "std-bins")
    dh = prog.func("variogram/estimator.pyx", "dist_haversine")
    txt = ast.unparse(dh)
    ok = "deg_2_rad = M_PI / 180.0" in txt and "pos[0, j] - pos[0, i]" in txt and "pos[1, j] - pos[1, i]" in txt and "cos(pos[0, i] * deg_2_rad)" in txt and "cos(pos[0, j] * deg_2_rad)" in txt
    ctx.check(ok, rule, "variogram/estimator.pyx::dist_haversine", "haversine takes row 0 as latitude, row 1 as longitude, in degrees (same convention as latlon2pos)", "haversine-rows")
    # every coordinate enters a trigonometric function in radians: each monomial of a sin / cos argument that reads pos carries deg_2_rad once
    from ..small import _sym_subst, monomials, sym_eval

    env = sym_eval(dh.body, opaque=("deg_2_rad",))
    trig = [c for c in ast.walk(dh) if isinstance(c, ast.Call) and ast.unparse(c.func) in ("sin", "cos", "tan") and c.args]
    n_tr = 0
    for c in trig:
        for sgn, num, den in monomials(_sym_subst(c.args[0], env)):
            reads = [f for f in num if f.startswith("pos[")]
            if not reads:
                continue
            n_tr += 1
            ctx.check(num.count("deg_2_rad") == 1 and "deg_2_rad" not in den and not any(f.startswith("pos[") for f in den), rule, "variogram/estimator.pyx::dist_haversine",
                      "%s(...) argument term %s%s is a coordinate in degrees times deg_2_rad (exactly once)" % (ast.unparse(c.func), "*".join(num), ("/" + "/".join(den)) if den else ""),
                      "radians:%s:%s" % (ast.unparse(c.func), ",".join(reads)))
    ctx.floor(rule, "coordinate terms inside trigonometric functions of dist_haversine", n_tr, 6)
    # central angle from the haversine term: 2 * atan2(sqrt(a), sqrt(1 - a))  (equivalently 2 * asin(sqrt(a))); swapped arguments give pi - angle
    rets = [r for r in ast.walk(dh) if isinstance(r, ast.Return) and r.value is not None]
    rtxt = ast.unparse(rets[0].value) if len(rets) == 1 else "?"
    ctx.check(rtxt in ("2.0 * atan2(sqrt(arg), sqrt(1.0 - arg))", "2.0 * asin(sqrt(arg))", "2 * atan2(sqrt(arg), sqrt(1 - arg))"), rule, "variogram/estimator.pyx::dist_haversine",
              "the central angle is 2 * atan2(sqrt(a), sqrt(1 - a)): %s" % rtxt, "central-angle")
    # field dims
    cm = prog.cls(BASE, "CovModel")
    fd = [ast.unparse(s.value) for s in cm.getters["field_dim"].body if isinstance(s, ast.Return)]
    sdm = [ast.unparse(s.value) for s in cm.getters["spatial_dim"].body if isinstance(s, ast.Return)]
    ctx.check(fd == ["2 + int(self.temporal) if self.latlon else self.dim"] and sdm == ["2 if self.latlon else self.dim - int(self.temporal)"], rule, BASE + "::CovModel.field_dim/spatial_dim",
              "field dimension 2 (+1) for lat-lon; spatial dimension excludes time", "dims")
    init = prog.func(BASE, "CovModel.__init__")
    ok = any("dim if spatial_dim is None else spatial_dim + int(self.temporal)" in ast.unparse(s) for s in init.body)
    ctx.check(ok, rule, BASE + "::CovModel.__init__", "a given spatial_dim is extended by the time axis", "spatial-dim")
    fv = prog.func("field/base.py", "Field.pos@set")
    ok = any(isinstance(s, ast.If) and ast.unparse(s.test) == "self.latlon" and any(isinstance(x, ast.Raise) for x in s.body) for s in ast.walk(fv))
    ctx.check(ok, rule, "field/base.py::Field.pos@set", "vector fields are refused on lat-lon models", "no-vector")


def anis_writers(ctx, rule="R13.4"):
    prog = ctx.prog
    from .C14 import NORMALISER

    cm = prog.cls(BASE, "CovModel")
    tools = prog.mod(TOOLS)
    n = 0
    for name, fn, rel in [(q, f, BASE) for kind in ("methods", "setters") for q, f in getattr(cm, kind).items()] + [(q, f, TOOLS) for q, f in tools.functions.items()]:
        for node in ast.walk(fn):
            if isinstance(node, ast.Assign):
                tg = []
                for t in node.targets:
                    tg += list(t.elts) if isinstance(t, ast.Tuple) else [t]
                for t in tg:
                    if isinstance(t, ast.Attribute) and t.attr == "_anis" and isinstance(t.value, ast.Name) and t.value.id in ("self", "model"):
                        if isinstance(node.value, ast.Constant) and node.value.value is None:
                            continue
                        n += 1
                        ok = isinstance(node.value, ast.Call) and ast.unparse(node.value.func) in NORMALISER["_anis"]
                        ctx.check(ok, rule, "%s::%s" % (rel, name), "anisotropy ratios are stored only from set_len_anis (which keeps space isotropic for lat-lon): %s" % norm_stmt(node)[:80], norm_stmt(node))
    ctx.floor(rule, "stores to _anis", n, 4)


def run(ctx):
    from .C12 import inverse_pairs

    inverse_pairs(ctx, rule="R13.6")  # the time axis stays out of every spatial rotation only if the plane order matches the angles that set_model_angles zeroes (shared with C12)
    radius_sites(ctx)
    pair_agreement(ctx)
    forcing_sites(ctx)
    anis_writers(ctx)
    from .. import flagfwd

    flagfwd.run(ctx, "R13.5")
    return (
        "Decides the structural clauses of C13: (R13.1) every call of the four sphere conversions passes the caller's geo_scale as radius and geo_scale/latlon are forwarded along "
        "vario_estimate -> standard_bins and Krige.set_condition -> vario_estimate; (R13.2) forward/inverse conversions agree on keywords, time handling (divide/multiply by the LAST ratio, time appended last), "
        "row conventions and elementary inverse functions; (R13.3) forcing sites (dim 3(+1), spatial ratios 1, zeroed angles, chordal lags in fitting, radian bins, refused directional/anisotropic/vector cases); "
        "(R13.4) anisotropy ratios are stored only via set_len_anis. NOT decided: round-trip identity and rotation invariance as values."
        ' The two chord conversions are inverse to each other as formulas; the haversine arguments carry deg_2_rad exactly once and the central angle is 2 atan2(sqrt a, sqrt(1 - a)).'
    )
