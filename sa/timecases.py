"""Time every (property, patch) pair in memory with a per-job alarm: python3 -m sa.timecases <seconds> <diff>... ; prints the slowest."""
import multiprocessing as mp
import signal
import sys
import time

from .check import run_rules
from .loader import Program
from .selftest import _apply

PROPS = ["C%02d" % i for i in range(2, 21)]
LIMIT = 120


def job(a):
    prop, pt = a
    t = time.time()

    def h(*x):
        raise TimeoutError()

    signal.signal(signal.SIGALRM, h)
    signal.alarm(LIMIT)
    try:
        prog = Program("/repo", overrides=_apply("/repo", dict(patch=pt)))
        run_rules(prop, prog, "quick")
        st = "ok"
    except TimeoutError:
        st = "TIMEOUT"
    except Exception as e:
        st = "ERR %s" % type(e).__name__
    signal.alarm(0)
    return (time.time() - t, prop, pt, st)


if __name__ == "__main__":
    LIMIT = int(sys.argv[1])
    jobs = [(p, pt) for pt in sys.argv[2:] for p in PROPS]
    with mp.get_context("fork").Pool(16) as pool:
        res = pool.map(job, jobs, chunksize=1)
    res.sort(reverse=True)
    for r in [x for x in res if x[0] > 20 or x[3] != "ok"][:60] + res[:5]:
        print("%.1f %s %s %s" % r)
