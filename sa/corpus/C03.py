B = "covmodel/base.py"
T = "covmodel/tools.py"
M = "covmodel/models.py"
P = "covmodel/tpl_models.py"
S = "tools/special.py"
CASES = [
    dict(name="correlation-drops-nugget", file=T, expect="R03.1", old="        return 1.0 - (self.variogram(r) - self.nugget) / self.var", new="        return 1.0 - self.variogram(r) / self.var"),
    dict(name="variogram-sign", file=T, expect="R03.1", old="        return self.var - self.covariance(r) + self.nugget", new="        return self.var + self.covariance(r) + self.nugget"),
    dict(name="covariance-uses-sill", file=T, expect=["R03.1"], old="        return self.var * self.correlation(r)", new="        return self.sill * self.correlation(r)"),
    dict(name="from-cor-multiplies", file=T, expect=["R03.1", "R03.3"], old="        return self.cor(r / self.len_rescaled)", new="        return self.cor(r * self.len_rescaled)"),
    dict(name="cyclic-definition", file=T, expect="R03.1",
         old="    if not hasattr(cls, \"covariance\"):\n        cls.covariance = covariance\n", new="    if not hasattr(cls, \"covariance\"):\n        cls.covariance = covariance\n        cls.correlation = correlation\n"),
    dict(name="empty-subclass-accepted", file=T, expect="R03.1", old="    if abstract:\n        raise TypeError(", new="    if False:\n        raise TypeError("),
    dict(name="cov-axis-multiplies", file=B, expect="R03.2", old="        return self.covariance(np.abs(r) / self.anis[axis - 1])", new="        return self.covariance(np.abs(r) * self.anis[axis - 1])"),
    dict(name="vario-spatial-raw-pos", file=B, expect="R03.2", old="        return self.variogram(self._get_iso_rad(pos))", new="        return self.variogram(np.linalg.norm(pos, axis=0))"),
    dict(name="cov-nugget-var", file=B, expect="R03.2", old="        res[np.logical_not(r_gz)] = self.sill", new="        res[np.logical_not(r_gz)] = self.var"),
    dict(name="cor-yadrenko-differs", file=B, expect="R03.2", old="        return self.correlation(great_circle_to_chordal(zeta, self.geo_scale))", new="        return self.correlation(zeta)"),
    dict(name="gaussian-intscale-rescale", file=M, expect="R03.3", old="        return self.len_rescaled * np.sqrt(np.pi) / 2.0", new="        return self.rescale * np.sqrt(np.pi) / 2.0"),
    dict(name="matern-intscale-squared", file=M, expect="R03.3", old="            self.len_rescaled\n            * np.pi\n            / np.sqrt(self.nu)", new="            self.len_rescaled**2\n            * np.pi\n            / np.sqrt(self.nu)"),
    dict(name="var-factor-exponent", file=P, expect=["R03.3", "R03.6"], old="            self.len_up_rescaled ** (2 * self.hurst)\n            - self.len_low_rescaled ** (2 * self.hurst)\n        ) / (2 * self.hurst)", new="            self.len_up_rescaled ** (2 * self.hurst)\n            - self.len_low_rescaled ** (self.hurst)\n        ) / (2 * self.hurst)"),
    dict(name="tplstable-cor-no-normalisation", file=S, expect="R03.3", old="    r = np.asarray(np.abs(r / len_scale), dtype=np.double)", new="    r = np.asarray(np.abs(r), dtype=np.double)"),
    dict(name="len-up-rescaled-twice", file=P, expect="R03.3", old="        return self.len_up / self.rescale", new="        return self.len_up / self.rescale / self.len_scale"),
    dict(name="matern-switch-differs", file=M, expect="R03.4", old="        # for nu > 20 we just use an approximation of the gaussian model\n        if self.nu > 20.0:", new="        # for nu > 20 we just use an approximation of the gaussian model\n        if self.nu > 30.0:"),
    dict(name="expint-truncates", file=S, expect="R03.5", old="        return sps.expn(int(np.around(s)), x)", new="        return sps.expn(int(s), x)"),
    dict(name="incgamma-truncates", file=S, expect="R03.5", old="        return x**s * sps.expn(int(1 - np.around(s)), x)", new="        return x**s * sps.expn(int(1 - s), x)"),
    dict(name="tplgaussian-weight", file=P, expect="R03.6",
         old="""            self.len_up_rescaled ** (2 * self.hurst)
            * tplstable_cor(r, self.len_up_rescaled, self.hurst, 2)""", new="""            self.len_up_rescaled ** (self.hurst)
            * tplstable_cor(r, self.len_up_rescaled, self.hurst, 2)"""),
    dict(name="tplexp-cor-wrong-alpha", file=P, expect="R03.6", old="        return tplstable_cor(h, 1.0, self.hurst, 1)", new="        return tplstable_cor(h, 1.0, self.hurst, 2)"),
    dict(name="tpl-specdens-unscaled-len", file=P, expect="R03.6", old="            k, self.dim, self.len_rescaled, self.hurst, self.len_low_rescaled\n        )\n\n\nclass TPLExponential", new="            k, self.dim, self.len_scale, self.hurst, self.len_low_rescaled\n        )\n\n\nclass TPLExponential"),
    dict(name="twin-tpl-weights-hoisted", kind="twin", file=P,
         old="""        return (
            self.len_up_rescaled ** (2 * self.hurst)
            * tplstable_cor(r, self.len_up_rescaled, self.hurst, self.alpha)
            - self.len_low_rescaled ** (2 * self.hurst)
            * tplstable_cor(r, self.len_low_rescaled, self.hurst, self.alpha)
        ) / (
            self.len_up_rescaled ** (2 * self.hurst)
            - self.len_low_rescaled ** (2 * self.hurst)
        )""",
         new="""        power = 2 * self.hurst
        fac_up = self.len_up_rescaled**power
        fac_low = self.len_low_rescaled**power
        return (
            fac_up
            * tplstable_cor(r, self.len_up_rescaled, self.hurst, self.alpha)
            - fac_low
            * tplstable_cor(r, self.len_low_rescaled, self.hurst, self.alpha)
        ) / (fac_up - fac_low)"""),
    dict(name="gamma-recurrence-wrong-exponent", file="tools/special.py", expect="R03.7", old="        return (inc_gamma(s + 1, x) - x**s * np.exp(-x)) / s", new="        return (inc_gamma(s + 1, x) - x**(s + 1) * np.exp(-x)) / s"),
    dict(name="gamma-recurrence-wrong-sign", file="tools/special.py", expect="R03.7", old="        return (inc_gamma_low(s + 1, x) + x**s * np.exp(-x)) / s", new="        return (inc_gamma_low(s + 1, x) - x**s * np.exp(-x)) / s"),
    dict(name="gamma-recurrence-wrong-successor", file="tools/special.py", expect="R03.7", old="        return (inc_gamma(s + 1, x) - x**s * np.exp(-x)) / s", new="        return (inc_gamma(s + 2, x) - x**s * np.exp(-x)) / s"),
    dict(name="twin-gamma-recurrence-loop", kind="twin", file="tools/special.py", old="        return (inc_gamma(s + 1, x) - x**s * np.exp(-x)) / s",
         new="        steps = int(np.ceil(-s))\n        res = sps.gamma(s + steps) * sps.gammaincc(s + steps, x)\n        for t in s + np.arange(steps)[::-1]:\n            res = (res - x**t * np.exp(-x)) / t\n        return res"),
]
