G = "tools/geometric.py"
B = "covmodel/base.py"
T = "covmodel/tools.py"
V = "variogram/variogram.py"
CASES = [
    dict(name="isometrize-default-radius", file=B, expect=["R13.1", "R13.2"],
         old="            return latlon2pos(\n                pos,\n                radius=self.geo_scale,", new="            return latlon2pos(\n                pos,"),
    dict(name="fit-chordal-unit-radius", file="covmodel/fit.py", expect=["R13.1", "R13.3"], old="        x_data = great_circle_to_chordal(x_data, model.geo_scale)", new="        x_data = great_circle_to_chordal(x_data)"),
    dict(name="std-bins-no-geo-scale", file=V, expect="R13.1", old="            pos, dim, latlon, geo_scale=geo_scale, **std_bins", new="            pos, dim, latlon, **std_bins"),
    dict(name="binning-diam-unit-radius", file="variogram/binning.py", expect=["R13.1", "R13.3"], old="        diam = chordal_to_great_circle(diam, geo_scale) if latlon else diam", new="        diam = chordal_to_great_circle(diam) if latlon else diam"),
    dict(name="krige-fit-no-geo-scale", file="krige/base.py", expect="R13.1", old="                    latlon=self.model.latlon,\n                    geo_scale=self.model.geo_scale,", new="                    latlon=self.model.latlon,"),
    dict(name="time-scale-first-ratio", file=B, expect="R13.2",
         old="""                temporal=self.temporal,
                time_scale=self.anis[-1],
            )
        return np.dot(
            matrix_anisometrize""",
         new="""                temporal=self.temporal,
                time_scale=self.anis[0],
            )
        return np.dot(
            matrix_anisometrize"""),
    dict(name="time-multiplied-going-in", file=G, expect="R13.2", old="        return np.array(pos_tuple + (latlon[2] / time_scale,), dtype=dtype)", new="        return np.array(pos_tuple + (latlon[2] * time_scale,), dtype=dtype)"),
    dict(name="lat-lon-rows-swapped-back", file=G, expect="R13.2", old="    lon = np.arctan2(pos[1], pos[0])", new="    lon = np.arctan2(pos[0], pos[1])"),
    dict(name="z-uses-cos", file=G, expect="R13.2", old="        radius * np.sin(lat) * np.ones_like(lon),", new="        radius * np.cos(lat) * np.ones_like(lon),"),
    dict(name="chordal-inverse-other-diameter", file=G, expect="R13.2",
         old="    diameter = 2 * radius\n    return diameter * np.arcsin(", new="    diameter = radius\n    return diameter * np.arcsin("),
    dict(name="latlon-dim-not-forced", file=T, expect="R13.3", old="    dim = (3 + int(model.temporal)) if model.latlon else dim\n", new=""),
    dict(name="all-ratios-forced", file=T, expect="R13.3", old="        out_anis[:2] = 1.0", new="        out_anis[:] = 1.0"),
    dict(name="temporal-angles-off-by-one", file=T, expect="R13.3", old="        out_angles[no_of_angles(dim - 1) :] = 0.0", new="        out_angles[no_of_angles(dim) - 1 :] = 0.0"),
    dict(name="latlon-rotation-allowed", file=T, expect="R13.3", old="    if latlon:\n        return np.array(no_of_angles(dim) * [0], dtype=np.double)\n", new=""),
    dict(name="lags-converted-always", file="covmodel/fit.py", expect="R13.3", old="    if model.latlon:\n        # convert to yadrenko model\n", new="    if True:\n        # convert to yadrenko model\n"),
    dict(name="bins-not-in-radians", file=V, expect="R13.3", old="    if latlon:\n        # internally we always use radians\n        bin_edges = bin_edges / geo_scale\n", new=""),
    dict(name="centres-after-division", file=V, expect="R13.3",
         old="""        bin_centers = (bin_edges[:-1] + bin_edges[1:]) / 2.0
    if latlon:
        # internally we always use radians
        bin_edges = bin_edges / geo_scale
""",
         new="""    if latlon:
        # internally we always use radians
        bin_edges = bin_edges / geo_scale
    if True:
        bin_centers = (bin_edges[:-1] + bin_edges[1:]) / 2.0
"""),
    dict(name="directional-latlon-allowed", file=V, expect="R13.3", old='        if latlon:\n            raise ValueError("Directional variogram not allowed for lat-lon.")\n', new=""),
    dict(name="haversine-rows-swapped", file="variogram/estimator.pyx", expect="R13.3", old="        cos(pos[0, i]*deg_2_rad) *\n        cos(pos[0, j]*deg_2_rad) *", new="        cos(pos[1, i]*deg_2_rad) *\n        cos(pos[1, j]*deg_2_rad) *"),
    dict(name="field-dim-ignores-time", file=B, expect="R13.3", old="        return 2 + int(self.temporal) if self.latlon else self.dim", new="        return 2 if self.latlon else self.dim"),
    dict(name="revert-len-scale-latlon", file=B, expect="R13.4",
         old="""        self._len_scale, self._anis = set_len_anis(
            self.dim, len_scale, self.anis, self.latlon
        )
        self._check_or_restore(_len_scale=old[0], _anis=old[1])

    @property
    def rescale(self):""",
         new="""        self._len_scale, anis = set_len_anis(
            self.dim, len_scale, self.anis, self.latlon
        )
        self._anis = np.array((self.dim - 1) * [1], dtype=np.double) if self.latlon else anis
        self.check_arg_bounds()

    @property
    def rescale(self):"""),
    dict(name="twin-radius-positional", kind="twin", file="variogram/binning.py", old="        pos = latlon2pos(pos, radius=geo_scale) if latlon else pos", new="        pos = latlon2pos(pos, geo_scale) if latlon else pos", note="R13.3 text match"),
    dict(name="sine-clamped-like-chord", file="tools/geometric.py", expect="R13.2", old="    return diameter * np.sin(np.divide(dist, diameter))", new="    return diameter * np.sin(np.minimum(np.divide(dist, diameter), 1))"),
    dict(name="twin-sine-clamped-to-quarter-turn", kind="twin", file="tools/geometric.py", old="    return diameter * np.sin(np.divide(dist, diameter))", new="    return diameter * np.sin(np.minimum(np.divide(dist, diameter), np.pi / 2))"),
    dict(name="arcsine-clamp-half", file="tools/geometric.py", expect="R13.2", old="        np.maximum(np.minimum(np.divide(dist, diameter), 1), 0)\n    )\n", new="        np.maximum(np.minimum(np.divide(dist, diameter), 0.5), 0)\n    )\n"),
    dict(name="fit-curve-uses-yadrenko", file="covmodel/fit.py", expect="R13.3", old="        x_data = great_circle_to_chordal(x_data, model.geo_scale)", new="        x_data = great_circle_to_chordal(x_data, model.geo_scale)\n        model.vario_yadrenko(x_data)"),
    dict(name="chord-inner-scale-mismatch", file="tools/geometric.py", expect="R13.2", old="    return diameter * np.sin(np.divide(dist, diameter))\n", new="    return diameter * np.sin(np.divide(dist, radius))\n"),
]
