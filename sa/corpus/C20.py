V = "variogram/variogram.py"
NT = "normalizer/tools.py"
G = "tools/geometric.py"
CASES = [
    # re-introduce each repaired defect
    dict(name="revert-bin-edges-fix", file=V, expect="R20", old="        bin_edges = bin_edges / geo_scale\n", new="        bin_edges /= geo_scale\n"),
    dict(name="revert-apply-fix", file=NT, expect=["R20", "R20s"],
         old="""    field = [
        f + eval_func(mean, pos, dim, mesh_type, value_type, True) for f in field
    ]""",
         new="""    for i in range(field_cnt):
        field[i] += eval_func(mean, pos, dim, mesh_type, value_type, True)"""),
    dict(name="revert-remove-fix", file=NT, expect=["R20", "R20s"],
         old="""    field = [
        f - eval_func(trend, pos, dim, mesh_type, value_type, True) for f in field
    ]""",
         new="""    for i in range(field_cnt):
        field[i] -= eval_func(trend, pos, dim, mesh_type, value_type, True)"""),
    dict(name="revert-mask-fix", file=V, expect="R20",
         old="""            field = np.ma.array(
                field, mask=np.logical_or(field.mask, missing_mask)
            )""",
         new="""            field.mask = np.logical_or(field.mask, missing_mask)"""),
    dict(name="revert-anis-fix", file=G, expect=["R20", "R20f"], old="    out_anis = np.array(anis, dtype=np.double)\n", new="    out_anis = np.asarray(anis, dtype=np.double)\n"),
    # design's must-catch list
    dict(name="vario-drop-copy", file=V, expect="R20",
         old="    field = np.ma.array(field, ndmin=2, dtype=np.double, copy=True)", new="    field = np.ma.array(field, ndmin=2, dtype=np.double)"),
    dict(name="twin-condsrf-drop-copy-harmless-after-fix", kind="twin", file="field/cond_srf.py", old="                rawkrige.copy(), krige_name[0], post_process, krige_save[0]", new="                rawkrige, krige_name[0], post_process, krige_save[0]",
         note="reuse branch hands the stored raw kriging field to post_field(process=True)"),
    dict(name="krige-cond-inplace", file="krige/tools.py", expect="R20",
         old="    mask = np.isfinite(cond_val)\n", new="    cond_val -= np.nanmean(cond_val)\n    mask = np.isfinite(cond_val)\n"),
    dict(name="first-stage-keeps-view", file=NT, expect=["R20", "R20s"],
         old="""    field = [
        f + eval_func(mean, pos, dim, mesh_type, value_type, True) for f in field
    ]
    field = normalizer.denormalize(field)""",
         new="""    field = [f for f in field]
    field[0] += eval_func(mean, pos, dim, mesh_type, value_type, True)
    field = normalizer.denormalize(field)"""),
    dict(name="pos-normalised-inplace", expect=["R20", "R20f"], edits=[
        dict(file="field/base.py", old="            self._pos = np.array(pos, dtype=np.double).reshape(self.dim, -1)\n", new="            self._pos = np.asarray(pos, dtype=np.double).reshape(self.dim, -1)\n"),
        dict(file="field/base.py", old="            self._field_shape = np.shape(self._pos[0])\n", new="            self._field_shape = np.shape(self._pos[0])\n            self._pos[0] -= self._pos[0].min()\n")]),
    dict(name="out-kw-on-input", file="krige/tools.py", expect="R20",
         old="    mask = np.isfinite(cond_val)\n", new="    np.nan_to_num(cond_val, out=cond_val)\n    mask = np.isfinite(cond_val)\n"),
    dict(name="field-call-demean-inplace", file="field/base.py", expect="R20",
         old="            field = np.asarray(field, dtype=np.double).reshape(shape)\n", new="            field = np.asarray(field, dtype=np.double).reshape(shape)\n            field.sort()\n"),
    dict(name="transform-inplace-on-stored", file="transform/field.py", expect="R20s",
         old="    data = function(data, **kwargs)\n", new="    data *= 1.0\n    data = function(data, **kwargs)\n"),
    dict(name="discrete-result-is-input", file="transform/array.py", expect="R20",
         old="    result = np.empty_like(field)", new="    result = field", accept_skip=True),
    # twins
    dict(name="twin-copy-then-inplace", kind="twin", file="krige/tools.py",
         old="    mask = np.isfinite(cond_val)\n", new="    cond_val = cond_val.copy()\n    cond_val -= 1.0\n    cond_val += 1.0\n    mask = np.isfinite(cond_val)\n"),
    dict(name="twin-np-array-copy", kind="twin", file=V,
         old="        bin_edges = np.atleast_1d(np.asarray(bin_edges, dtype=np.double))", new="        bin_edges = np.atleast_1d(np.array(bin_edges, dtype=np.double))\n        bin_edges *= 1.0"),
    dict(name="twin-fresh-inplace", kind="twin", file=NT,
         old="    field = normalizer.denormalize(field)\n", new="    field = normalizer.denormalize(field)\n    field *= 1.0\n"),
]
