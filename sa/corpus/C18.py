M = "normalizer/methods.py"
B = "normalizer/base.py"
T = "normalizer/tools.py"
CASES = [
    dict(name="revert-manly-sign", file=M, expect="R18.1",
         old="""            return (-np.inf, -np.divide(1, self.lmbda))
        return (-np.divide(1, self.lmbda), np.inf)

    def _denormalize(self, data):
        if np.isclose(self.lmbda, 0):
            return data""",
         new="""            return (-np.inf, np.divide(1, self.lmbda))
        return (-np.divide(1, self.lmbda), np.inf)

    def _denormalize(self, data):
        if np.isclose(self.lmbda, 0):
            return data"""),
    dict(name="revert-yeojohnson-range", file=M, expect="R18.1",
         old="""        if self.lmbda > 2:
            return (-np.divide(1, self.lmbda - 2), np.inf)
        return (-np.inf, np.inf)""", new="""        return (-np.inf, np.inf)"""),
    dict(name="modulus-range-one-sided", file=M, expect="R18.1",
         old="            return (np.divide(1, self.lmbda), -np.divide(1, self.lmbda))", new="            return (-np.inf, -np.divide(1, self.lmbda))"),
    dict(name="boxcox-range-swapped-cases", file=M, expect="R18.1",
         old="""        if self.lmbda < 0:
            return (-np.inf, -np.divide(1, self.lmbda))
        return (-np.divide(1, self.lmbda), np.inf)

    def _denormalize(self, data):
        if np.isclose(self.lmbda, 0):
            return np.exp(data)
        return (1 + np.multiply(data, self.lmbda)) ** (1 / self.lmbda)
""",
         new="""        if self.lmbda > 0:
            return (-np.inf, -np.divide(1, self.lmbda))
        return (-np.divide(1, self.lmbda), np.inf)

    def _denormalize(self, data):
        if np.isclose(self.lmbda, 0):
            return np.exp(data)
        return (1 + np.multiply(data, self.lmbda)) ** (1 / self.lmbda)
"""),
    dict(name="boxcoxshift-range-ignores-shift", file=M, expect="R18.1", old="        return (-self.shift, np.inf)", new="        return (0.0, np.inf)"),
    dict(name="lognormal-range-all", file=M, expect="R18.1", old="    normalize_range = (0.0, np.inf)\n    \"\"\"Valid range for input data.\"\"\"", new="    normalize_range = (-np.inf, np.inf)\n    \"\"\"Valid range for input data.\"\"\""),
    dict(name="swap-stage-order", file=T, expect="R18.2",
         old="""    if fit_normalizer:
        normalizer.fit(field)
    field = normalizer.normalize(field)
    for i in range(field_cnt):
        field[i] -= eval_func(mean, pos, dim, mesh_type, value_type, True)""",
         new="""    for i in range(field_cnt):
        field[i] -= eval_func(mean, pos, dim, mesh_type, value_type, True)
    if fit_normalizer:
        normalizer.fit(field)
    field = normalizer.normalize(field)"""),
    dict(name="remove-adds-mean", file=T, expect="R18.2",
         old="    field = normalizer.normalize(field)\n    for i in range(field_cnt):\n        field[i] -= eval_func(mean,", new="    field = normalizer.normalize(field)\n    for i in range(field_cnt):\n        field[i] += eval_func(mean,"),
    dict(name="apply-trend-before-denorm", file=T, expect="R18.2",
         old="""    field = normalizer.denormalize(field)
    for i in range(field_cnt):
        field[i] += eval_func(trend, pos, dim, mesh_type, value_type, True)""",
         new="""    for i in range(field_cnt):
        field[i] += eval_func(trend, pos, dim, mesh_type, value_type, True)
    field = normalizer.denormalize(field)"""),
    dict(name="post-field-wrong-trend", file="field/base.py", expect="R18.2", old="                trend=self.trend,\n                check_shape=False,", new="                trend=self.mean,\n                check_shape=False,"),
    dict(name="krige-cond-order", file="krige/base.py", expect="R18.2",
         old="        val = self.normalizer.normalize(self.cond_val - self.cond_trend)\n        # set to zero mean\n        val -= self.cond_mean",
         new="        val = self.normalizer.normalize(self.cond_val - self.cond_trend - self.cond_mean)"),
    dict(name="pre-process-no-normalizer", file="transform/field.py", expect="R18.2",
         old="""def _pre_process(fld, data, keep_mean):
    return remove_trend_norm_mean(
        pos=fld.pos,
        field=data,
        mean=None if keep_mean else fld.mean,
        normalizer=fld.normalizer,""",
         new="""def _pre_process(fld, data, keep_mean):
    return remove_trend_norm_mean(
        pos=fld.pos,
        field=data,
        mean=None if keep_mean else fld.mean,
        normalizer=None,"""),
    dict(name="yj-missing-special-branch", file=M, expect="R18.3",
         old="""        if np.isclose(self.lmbda, 2):
            res[~pos] = -np.expm1(-data[~pos])
        else:  # self.lmbda != 2
            res[~pos] = 1 - np.power(
                -(2 - self.lmbda) * data[~pos] + 1, 1 / (2 - self.lmbda)
            )""",
         new="""        res[~pos] = 1 - np.power(
            -(2 - self.lmbda) * data[~pos] + 1, 1 / (2 - self.lmbda)
        )"""),
    dict(name="boxcox-wrong-exponent", file=M, expect="R18.3", old="        return (1 + np.multiply(data, self.lmbda)) ** (1 / self.lmbda)\n\n    def _normalize(self, data):\n        if np.isclose(self.lmbda, 0):\n            return np.log(data)\n        return (np.power(data, self.lmbda) - 1)",
         new="        return (1 + np.multiply(data, self.lmbda)) ** (self.lmbda)\n\n    def _normalize(self, data):\n        if np.isclose(self.lmbda, 0):\n            return np.log(data)\n        return (np.power(data, self.lmbda) - 1)"),
    dict(name="modulus-expm1-for-exp", file=M, expect="R18.3", old="            return np.sign(data) * np.expm1(np.abs(data))", new="            return np.sign(data) * np.exp(np.abs(data))"),
    dict(name="range-test-closed", file=B, expect="R18.4", old="dat_in = np.logical_and(data > data_range[0], data < data_range[1])", new="dat_in = np.logical_and(data >= data_range[0], data < data_range[1])"),
    dict(name="template-zero", file=B, expect="R18.4", old="            out = np.full_like(data, np.nan, dtype=np.double)", new="            out = np.full_like(data, 0.0, dtype=np.double)"),
    dict(name="assign-all", file=B, expect="R18.4",
         old="        data, is_data, out = self._check_input(data, self.denormalize_range)\n        out[is_data] = self._denormalize(data)", new="        data, is_data, out = self._check_input(data, self.denormalize_range)\n        out[:] = self._denormalize(data)"),
    dict(name="denormalize-checks-wrong-range", file=B, expect="R18.4",
         old="        data, is_data, out = self._check_input(data, self.denormalize_range)", new="        data, is_data, out = self._check_input(data, self.normalize_range)"),
    dict(name="twin-range-rewritten", kind="twin", file=M,
         old="""        if self.lmbda < 0:
            return (-np.inf, -np.divide(1, self.lmbda))
        return (-np.divide(1, self.lmbda), np.inf)

    def _denormalize(self, data):
        if np.isclose(self.lmbda, 0):
            return data""",
         new="""        bound = -1.0 / self.lmbda
        if self.lmbda < 0:
            return (-np.inf, bound)
        return (bound, np.inf)

    def _denormalize(self, data):
        if np.isclose(self.lmbda, 0):
            return data"""),
    dict(name="twin-boxcox-power-operator", kind="twin", file=M,
         old="        return (np.power(data, self.lmbda) - 1) / self.lmbda", new="        return (data**self.lmbda - 1.0) / self.lmbda"),
    # ---- formula algebra (R18.8 derivative / monotone, R18.9 round trip)
    dict(name="manly-derivative-no-lmbda", file="normalizer/methods.py", expect="R18.8", old="        return np.exp(np.multiply(data, self.lmbda))\n", new="        return np.exp(data)\n"),
    dict(name="boxcox-derivative-exponent", file="normalizer/methods.py", expect="R18.8", old="        return np.power(data, self.lmbda - 1)\n", new="        return np.power(data, self.lmbda) - 1\n"),
    dict(name="modulus-denormalize-no-minus-1", file="normalizer/methods.py", expect="R18.9",
         old="            (1 + self.lmbda * np.abs(data)) ** (1 / self.lmbda) - 1\n", new="            (1 + self.lmbda * np.abs(data)) ** (1 / self.lmbda)\n"),
    dict(name="yeojohnson-normalize-neg-branch-exponent", file="normalizer/methods.py", expect=["R18.8", "R18.9"],
         old="            res[~pos] = -(np.power(-data[~pos] + 1, 2 - self.lmbda) - 1) / (\n                2 - self.lmbda\n            )\n",
         new="            res[~pos] = -(np.power(-data[~pos] + 1, self.lmbda - 2) - 1) / (\n                2 - self.lmbda\n            )\n"),
    dict(name="twin-boxcox-derivative-operator", kind="twin", file="normalizer/methods.py", old="        return np.power(data, self.lmbda - 1)\n", new="        return data ** (self.lmbda - 1)\n"),
    dict(name="twin-yeojohnson-derivative-reordered", kind="twin", file="normalizer/methods.py",
         old="        return (np.abs(data) + 1) ** (np.sign(data) * (self.lmbda - 1))\n", new="        return np.power(1 + np.abs(data), (self.lmbda - 1) * np.sign(data))\n"),
]
