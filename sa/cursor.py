"""Cursor interpreter: which slot of a parameter vector does each selected parameter use?

A tiny abstract interpreter for the packing / unpacking code of the variogram fit.  Integer cursors (`para_skip`, `opt_skip`, any
other integer local) are tracked concretely, loops over the known name lists are unrolled, `para[<name>]` is looked up in a given
selection, every other condition forks (both arms are run; the cursors must agree afterwards).  Nothing of the analysed code is
executed.  The result is {parameter name: slot index} for one selection, independent of how the cursor arithmetic is spelled
(one counter or two, `i + j` or a running total, ...).
"""
import ast

from .small import FoldError, fold


class CursorError(Exception):
    pass


class _State:
    def __init__(self, ints, names):
        self.ints = dict(ints)  # integer locals
        self.names = dict(names)  # loop variables bound to strings / ints
        self.appends = {}  # list name -> number of appends so far
        self.slots = {}  # parameter -> set of slot indices read / written
        self.tail = []  # (vector, lower bound of an open slice read)

    def copy(self):
        s = _State(self.ints, self.names)
        s.appends = dict(self.appends)
        s.slots = {k: set(v) for k, v in self.slots.items()}
        s.tail = list(self.tail)
        return s


class Interp:
    def __init__(self, selection, lists, consts, vectors, pack_lists=()):
        """selection: {name: bool} for para[...];  lists: {"DEFAULT_PARA": [...], "model.opt_arg": [...]};  consts: {"model.dim": 3};
        vectors: names of the parameter vectors whose subscripts are slot reads (args / popt);  pack_lists: list names whose
        .append() defines a slot (init_guess_list)."""
        self.sel, self.lists, self.consts, self.vectors, self.pack_lists = selection, lists, consts, set(vectors), set(pack_lists)
        # length of the packed vector for this selection: selected parameters + (dim - 1 anisotropy ratios when they are fitted)
        self.total = sum(1 for v in selection.values() if v) + ((consts.get("model.dim", 1) - 1) if consts.get("anis") else 0)

    # ---------------------------------------------------------------- evaluation helpers
    def env(self, st):
        e = dict(self.consts)
        e.update(st.ints)
        e.update({k: v for k, v in st.names.items()})
        return e

    def test(self, t, st):
        """True / False / None (unknown)"""
        if isinstance(t, ast.Subscript) and ast.unparse(t.value) == "para":
            k = self.key(t.slice, st)
            if k is None or k not in self.sel:
                return None
            return self.sel[k]
        if isinstance(t, ast.UnaryOp) and isinstance(t.op, ast.Not):
            v = self.test(t.operand, st)
            return None if v is None else (not v)
        if isinstance(t, ast.BoolOp):
            vals = [self.test(v, st) for v in t.values]
            if isinstance(t.op, ast.And):
                if any(v is False for v in vals):
                    return False
                return True if all(v is True for v in vals) else None
            if any(v is True for v in vals):
                return True
            return False if all(v is False for v in vals) else None
        try:
            v = fold(t, self.env(st))
        except (FoldError, TypeError, KeyError, ZeroDivisionError):
            return None
        return bool(v) if isinstance(v, (bool, int, float)) else None

    def int_value(self, e, st):
        """integer value of an expression over cursors, constants and `sum(para[x] for x in LIST)` counts; raises FoldError"""
        if isinstance(e, ast.UnaryOp) and isinstance(e.op, ast.USub):
            return -self.int_value(e.operand, st)
        if isinstance(e, ast.BinOp) and isinstance(e.op, (ast.Add, ast.Sub, ast.Mult)):
            a, b = self.int_value(e.left, st), self.int_value(e.right, st)
            return a + b if isinstance(e.op, ast.Add) else (a - b if isinstance(e.op, ast.Sub) else a * b)
        if isinstance(e, ast.Call) and getattr(e.func, "id", "") == "sum" and len(e.args) == 1 and isinstance(e.args[0], (ast.GeneratorExp, ast.ListComp)) and len(e.args[0].generators) == 1:
            g = e.args[0].generators[0]
            it = ast.unparse(g.iter)
            if it in self.lists and isinstance(g.target, ast.Name) and not g.ifs:
                tot = 0
                for item in self.lists[it]:
                    st2 = st.copy()
                    st2.names[g.target.id] = item
                    v = self.test(e.args[0].elt, st2)
                    if v is None:
                        raise FoldError("summand not decidable")
                    tot += int(bool(v))
                return tot
        if isinstance(e, ast.Call) and getattr(e.func, "id", "") == "len" and len(e.args) == 1 and ast.unparse(e.args[0]) in self.lists:
            return len(self.lists[ast.unparse(e.args[0])])
        v = fold(e, self.env(st))
        if isinstance(v, bool) or not isinstance(v, int):
            raise FoldError("not an int")
        return v

    def key(self, e, st):
        if isinstance(e, ast.Constant) and isinstance(e.value, str):
            return e.value
        if isinstance(e, ast.Name) and isinstance(st.names.get(e.id), str):
            return st.names[e.id]
        return None

    # ---------------------------------------------------------------- reads inside one simple statement
    def scan(self, node, st, guard):
        for n in ast.walk(node):
            if isinstance(n, ast.Subscript) and isinstance(n.value, ast.Name) and n.value.id in self.vectors and isinstance(n.ctx, ast.Load):
                if isinstance(n.slice, ast.Slice):
                    if n.slice.upper is None and n.slice.step is None and n.slice.lower is not None:
                        try:
                            st.tail.append((n.value.id, int(fold(n.slice.lower, self.env(st)))))
                        except (FoldError, TypeError):
                            raise CursorError("slice bound of %s is not a constant here" % ast.unparse(n))
                    continue
                try:
                    idx = self.int_value(n.slice, st)
                except (FoldError, TypeError, KeyError):
                    raise CursorError("index of %s is not a constant here" % ast.unparse(n))
                if idx < 0:
                    idx += self.total  # counted from the end of the vector
                if guard is None:
                    raise CursorError("read %s outside any `if para[...]` guard" % ast.unparse(n))
                st.slots.setdefault(guard, set()).add(int(idx))
            if isinstance(n, ast.Call) and isinstance(n.func, ast.Attribute) and n.func.attr == "append" and isinstance(n.func.value, ast.Name) and n.func.value.id in self.pack_lists:
                k = st.appends.get(n.func.value.id, 0)
                st.appends[n.func.value.id] = k + 1
                if guard is not None:
                    st.slots.setdefault(guard, set()).add(k)
                else:
                    st.tail.append((n.func.value.id, k))

    # ---------------------------------------------------------------- statements
    def run(self, stmts, st, guard=None):
        """Returns the list of states at the end of the statement list (forks on unknown conditions)."""
        states = [st]
        for s in stmts:
            nxt = []
            for cur in states:
                nxt += self.stmt(s, cur, guard)
            states = self.merge(nxt)
        return states

    def merge(self, states):
        if len(states) <= 1:
            return states
        base = states[0]
        for o in states[1:]:
            if o.ints != base.ints or o.appends != base.appends:
                raise CursorError("cursor values differ between the arms of a condition that is not a selection test: %s vs %s" % (base.ints, o.ints))
            for k, v in o.slots.items():
                base.slots.setdefault(k, set()).update(v)
            base.tail += [t for t in o.tail if t not in base.tail]
        return [base]

    def stmt(self, s, st, guard):
        if isinstance(s, (ast.FunctionDef, ast.ClassDef, ast.Import, ast.ImportFrom, ast.Pass)):
            return [st]
        if isinstance(s, ast.Return):
            if s.value is not None:
                self.scan(s.value, st, guard)
            return []  # path ends; slots found so far were recorded in the shared dicts of the caller's merge
        if isinstance(s, ast.If):
            v = self.test(s.test, st)
            g2 = guard
            if isinstance(s.test, ast.Subscript) and ast.unparse(s.test.value) == "para":
                g2 = self.key(s.test.slice, st) or guard
            if v is True:
                return self.run(s.body, st, g2)
            if v is False:
                return self.run(s.orelse, st, guard)
            a = self.run(s.body, st.copy(), g2)
            b = self.run(s.orelse, st.copy(), guard)
            out = self.merge(a + b)
            if not out:  # both arms returned
                return []
            return out
        if isinstance(s, ast.For):
            it = ast.unparse(s.iter)
            if it in self.lists:
                items = self.lists[it]
            else:
                items = None
                if isinstance(s.iter, ast.Call) and getattr(s.iter.func, "id", "") == "range":
                    try:
                        items = list(range(*[int(fold(a, self.env(st))) for a in s.iter.args]))
                    except (FoldError, TypeError):
                        items = None
                if items is None:
                    # a loop over something else: must not touch cursors or slots
                    probe = st.copy()
                    self.run(s.body, probe, guard)
                    if probe.ints != st.ints or probe.slots != st.slots or probe.appends != st.appends:
                        raise CursorError("loop over %s changes cursors/slots and cannot be unrolled" % it)
                    return [st]
            cur = [st]
            for item in items:
                nxt = []
                for c in cur:
                    if isinstance(s.target, ast.Name):
                        c.names[s.target.id] = item
                    nxt += self.run(s.body, c, guard)
                cur = self.merge(nxt)
                if not cur:
                    return []
            return cur
        if isinstance(s, ast.Assign):
            self.scan(s.value, st, guard)
            if len(s.targets) == 1 and isinstance(s.targets[0], ast.Name):
                nm = s.targets[0].id
                try:
                    st.ints[nm] = self.int_value(s.value, st)
                except (FoldError, TypeError, KeyError):
                    st.ints.pop(nm, None)
            return [st]
        if isinstance(s, ast.AugAssign):
            self.scan(s.value, st, guard)
            if isinstance(s.target, ast.Name) and s.target.id in st.ints:
                try:
                    d = self.int_value(s.value, st)
                    op = {ast.Add: lambda a, b: a + b, ast.Sub: lambda a, b: a - b, ast.Mult: lambda a, b: a * b}.get(type(s.op))
                    if op is None or not isinstance(d, int):
                        raise FoldError("unsupported cursor update")
                    st.ints[s.target.id] = op(st.ints[s.target.id], d)
                except (FoldError, TypeError):
                    raise CursorError("cursor update %s is not a constant step" % ast.unparse(s))
            return [st]
        if isinstance(s, (ast.Expr, ast.Raise, ast.Assert, ast.Delete)):
            self.scan(s, st, guard)
            return [] if isinstance(s, ast.Raise) else [st]
        if isinstance(s, (ast.With, ast.Try, ast.While)):
            raise CursorError("unsupported statement %s" % type(s).__name__)
        self.scan(s, st, guard)
        return [st]


def slot_map(fn_body, selection, lists, consts, vectors, pack_lists=()):
    """{parameter: slot} (+ '<tail>': lower bound of the open slice, if any) for one selection; raises CursorError when undecidable."""
    it = Interp(selection, lists, consts, vectors, pack_lists)
    st = _State({}, {})
    collected = {"slots": {}, "tail": []}

    # wrap run() so that states ending in `return` still contribute their reads
    orig_stmt = it.stmt

    def stmt(s, cur, guard):
        out = orig_stmt(s, cur, guard)
        if isinstance(s, ast.Return):
            for k, v in cur.slots.items():
                collected["slots"].setdefault(k, set()).update(v)
            collected["tail"] += [t for t in cur.tail if t not in collected["tail"]]
        return out

    it.stmt = stmt
    finals = it.run(fn_body, st)
    for f in finals:
        for k, v in f.slots.items():
            collected["slots"].setdefault(k, set()).update(v)
        collected["tail"] += [t for t in f.tail if t not in collected["tail"]]
    out = {}
    for k, v in collected["slots"].items():
        if len(v) != 1:
            raise CursorError("parameter %s uses several slots %s" % (k, sorted(v)))
        out[k] = next(iter(v))
    if collected["tail"]:
        if pack_lists:
            out["<tail>"] = sorted({t[1] for t in collected["tail"]})
        else:
            lows = {t[1] for t in collected["tail"]}
            if len(lows) != 1:
                raise CursorError("several tail slices %s" % collected["tail"])
            out["<tail>"] = lows.pop()
    return out
